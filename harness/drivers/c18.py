"""C18 — small molecules survive MOL/SDF files and the RDKit bridge.

S1  TLC checks specs/C18: MCMol (connection tables V2000 / V3000: round trip, fixed columns,
    version switch at 1000 atoms / bonds, implemented acceptance test = "every value fits" except on
    the KB_* inputs, bond-type images; RDKit tables) and MCSd (header, metadata key grammar,
    multi-record files) and MCHist (an SDFile as a mutable mapping with a history: records read from
    text, stored under other names, headers / metadata edited in place or replaced, structures set,
    write -> read after every call; the representation "still text / already an object" of every
    record, header and metadata block is part of the state).
    MCRd: the RDKit bridge with its options - to_mol(explicit_hydrogen None/True/False, kekulize,
    use_dative_bonds) x from_mol(add_hydrogen None/True/False, conformer_id None/"3D"/0) x molecules with
    hydrogen atoms / without and with an open valence / without and saturated; the step-by-step model of
    the two calls (SetNoImplicit, AddHs) against the declarative table "when is the round trip the identity".
S2  every input enumerated by TLC is executed against MOLFile / SDFile / to_mol+from_mol and compared
    with the spec's values (V2000 lines character by character); every transition of the state graph
    of MCHist is replayed against the real SDFile, the file written and read back after every call.
S3  seeded random molecules (1..1500 atoms, 46..120 atoms with 999..1035 bonds, stacks of 1..4 models
    through RDKit with all nine pairs of hydrogen options in turn and random other options, with no / some /
    all hydrogens present, random SD files, random histories of 3..8 calls on SD files) are recorded and
    re-computed event by event by TLC (specs/C18/Trace.tla).
"""

from __future__ import annotations

import datetime
import io
import json
import os
import random
import re
import warnings

PROPERTY = "C18"
BIG = 2000000000

FINDING = {
    "ElementWidth": "C18-element-width-shifts-v2000-columns",
    "ChargeWidth": "C18-charge-width-shifts-mchg-columns",
    "Dative": "C18-use-dative-bonds-ignored",
}


# --------------------------------------------------------------------------- value mapping
def txt(v):
    return v if isinstance(v, str) else "".join(v)


def rat(r):
    n, d = r
    if d == 0:
        return float("nan") if n == 0 else (float("inf") if n > 0 else float("-inf"))
    return n / d


def units(v, d):
    v = float(v)
    if v != v or v in (float("inf"), float("-inf")):
        return BIG
    return int(round(v * 10 ** d))


def explode_mol(m):
    return {"atoms": [{"elem": list(a["elem"]), "xyz": a["xyz"], "chg": a["chg"]} for a in m["atoms"]],
            "bonds": m["bonds"]}


# --------------------------------------------------------------------------- real side
def warmup():
    import biotite.structure  # noqa: F401
    import biotite.structure.io.mol  # noqa: F401
    import biotite.interface.rdkit  # noqa: F401  (RDKit is imported once per pool child, not once per item)


def build_mol(m, nmodels=1, as_stack=False):
    import numpy as np
    import biotite.structure as struc

    atoms = m["atoms"]
    n = len(atoms)
    stack = as_stack or nmodels > 1
    arr = struc.AtomArrayStack(nmodels, n) if stack else struc.AtomArray(n)
    w = max([2] + [len(a["elem"]) for a in atoms])
    arr.set_annotation("element", np.array([a["elem"] for a in atoms], dtype=f"U{w}"))
    coord = np.array([[rat(c) for c in a["xyz"]] for a in atoms], dtype=np.float64).reshape(n, 3)
    c32 = coord.astype(np.float32)
    if not np.array_equal(c32.astype(np.float64), coord, equal_nan=True):
        raise AssertionError("driver: coordinate not representable as float32")
    if stack:
        # model k is the first model shifted by k/4 (exact in float32 for the generated magnitudes)
        arr.coord = np.stack([c32 + np.float32(k * 0.25) for k in range(nmodels)])
    else:
        arr.coord = c32
    if any(a["chg"] != 0 for a in atoms) or m.get("charge_annot", True):
        arr.set_annotation("charge", np.array([a["chg"] for a in atoms], dtype=int))
    rows = np.array(m["bonds"], dtype=np.int64).reshape(-1, 3)
    arr.bonds = struc.BondList(n, rows) if len(rows) else struc.BondList(n)
    return arr


def proj_mol(arr):
    cats = arr.get_annotation_categories()
    return {"ok": True,
            "atoms": [{"elem": str(arr.element[i]), "xyz": [units(v, 4) for v in arr.coord[i].tolist()],
                       "chg": int(arr.charge[i]) if "charge" in cats else 0}
                      for i in range(arr.array_length())],
            "bonds": sorted([int(i), int(j), int(t)] for i, j, t in arr.bonds.as_array().tolist())}


NO_MOL = {"ok": False, "atoms": [], "bonds": []}


# live-object histories (as for PDBFile in C07): every second call in a pool item hands its molecule to
# the MOLFile object of the previous call, and the object that was written is read next to the re-parsed
# text: the content of a MOLFile is a function of the last structure set
_LIVE_MOL = {"f": None, "n": 0}


def run_ctab(m, version, dflt):
    from biotite.structure import BondType
    from biotite.structure.io.mol import MOLFile

    ev = {"op": "ctab", "m": m, "version": version, "dflt": dflt, "oc": "ok", "lines": [], "back": dict(NO_MOL),
          "err": ""}
    try:
        arr = build_mol(m)
        _LIVE_MOL["n"] += 1
        reuse = _LIVE_MOL["n"] % 2 == 0 and _LIVE_MOL["f"] is not None
        f = _LIVE_MOL["f"] if reuse else MOLFile()
        _LIVE_MOL["f"] = None
        with warnings.catch_warnings():
            warnings.simplefilter("ignore")
            f.set_structure(arr, default_bond_type=BondType(dflt), version=None if version == "None" else version)
        _LIVE_MOL["f"] = f
    except AssertionError:
        raise
    except Exception as e:
        ev["oc"] = "Rejected"
        ev["err"] = f"{type(e).__name__}: {e}"[:200]
        return ev
    ev["lines"] = [str(x) for x in f.lines[3:]]
    try:
        out = io.StringIO()
        f.write(out)
        with warnings.catch_warnings():
            warnings.simplefilter("ignore")
            g = MOLFile.read(io.StringIO(out.getvalue()))
            ev["back"] = proj_mol(g.get_structure())
            live = proj_mol(f.get_structure())
            if live != ev["back"]:
                ev["back"] = live
                ev["err"] = "the written object reads differently from its re-parsed text"
    except Exception as e:
        ev["back"] = dict(NO_MOL)
        ev["err"] = f"read: {type(e).__name__}: {e}"[:200]
    return ev


TRI = {"None": None, "True": True, "False": False}
CONF = {"all": None, "3D": "3D", "first": 0}


def plain_opt(dative):
    """the option combination in which RDKit's hydrogen model plays no part (RdkitBridge!PlainOpt)"""
    return {"eh": "True", "ah": "False", "kek": False, "dative": bool(dative), "conf": "all"}


def run_rd(m, nmodels, opt, ring=False):
    """to_mol(stack of nmodels models, options) -> from_mol(options); opt as RdkitBridge!Opt (a bool: PlainOpt)."""
    import numpy as np
    import biotite.structure as struc
    from biotite.interface import rdkit as brd

    if not isinstance(opt, dict):
        opt = plain_opt(opt)
    ev = {"op": "rd", "m": m, "nmodels": nmodels, "opt": opt, "dative": opt["dative"], "ring": ring, "oc": "ok",
          "back": {"nmodels": 0, "stack": False, "atoms": [], "bonds": [], "coords_same": False}, "err": ""}
    try:
        arr = build_mol(m, nmodels, as_stack=(nmodels > 1))
        n = arr.array_length()
        pristine = arr.copy()
        with warnings.catch_warnings():
            warnings.simplefilter("ignore")
            mol = brd.to_mol(arr, explicit_hydrogen=TRI[opt["eh"]], kekulize=bool(opt["kek"]),
                             use_dative_bonds=bool(opt["dative"]))
            back = brd.from_mol(mol, conformer_id=CONF[opt["conf"]], add_hydrogen=TRI[opt["ah"]])
        # frame condition: the bridge reads the caller's structure, it never writes to it (a molecule
        # that is converted twice, or written to a file afterwards, must still be the same molecule);
        # the outcome "ArgumentChanged" is one the specification never allows
        cats = pristine.get_annotation_categories()
        if not (arr.get_annotation_categories() == cats
                and (arr.bonds is None) == (pristine.bonds is None)
                and (arr.bonds is None or np.array_equal(arr.bonds.as_array(), pristine.bonds.as_array()))
                and np.array_equal(arr.coord, pristine.coord)
                and all(arr.get_annotation(c).tolist() == pristine.get_annotation(c).tolist() for c in cats)):
            ev["oc"] = "ArgumentChanged"
            ev["err"] = "to_mol/from_mol modified the caller's structure"
        c_in = arr.coord if arr.coord.ndim == 3 else arr.coord[None]
        stack = isinstance(back, struc.AtomArrayStack)
        c_out = back.coord if stack else back.coord[None]
        if opt["conf"] == "first":
            c_in = c_in[:1]
        ev["back"] = {"nmodels": int(c_out.shape[0]), "stack": bool(stack),
                      "atoms": [{"elem": str(back.element[i]), "chg": int(back.charge[i])}
                                for i in range(back.array_length())],
                      "bonds": sorted([int(i), int(j), int(t)] for i, j, t in back.bonds.as_array().tolist()),
                      # the molecule is the prefix of the result: its atoms keep their coordinates in every model
                      "coords_same": bool(c_out.shape[0] == c_in.shape[0] and c_out.shape[1] >= n
                                          and np.array_equal(c_out[:, :n], c_in))}
    except AssertionError:
        raise
    except Exception as e:
        ev["oc"] = "Rejected"
        ev["err"] = f"{type(e).__name__}: {e}"[:200]
    return ev


def _header_obj(h):
    from biotite.structure.io.mol import Header

    t = None
    if h["time"]:
        mo, d, yy, hh, mi = h["time"][0]
        t = datetime.datetime(2000 + yy if yy < 69 else 1900 + yy, mo, d, hh, mi)
    return Header(mol_name=h["mol_name"], initials=h["initials"], program=h["program"], time=t,
                  dimensions=h["dimensions"], scaling_factors=h["scaling"], energy=h["energy"],
                  registry_number=h["registry"], comments=h["comments"])


def _header_proj(h):
    t = []
    if h.time is not None:
        t = [[h.time.month, h.time.day, h.time.year % 100, h.time.hour, h.time.minute]]
    return {"mol_name": h.mol_name, "initials": h.initials, "program": h.program, "time": t,
            "dimensions": h.dimensions, "scaling": h.scaling_factors, "energy": h.energy,
            "registry": h.registry_number, "comments": h.comments}


def _key_obj(k):
    from biotite.structure.io.mol import Metadata

    return Metadata.Key(number=k["number"][0] if k["number"] else None, name=k["name"][0] if k["name"] else None,
                        registry_internal=k["regint"][0] if k["regint"] else None,
                        registry_external=k["regext"][0] if k["regext"] else None)


def _key_proj(k):
    return {"number": [] if k.number is None else [int(k.number)], "name": [] if k.name is None else [k.name],
            "regint": [] if k.registry_internal is None else [int(k.registry_internal)],
            "regext": [] if k.registry_external is None else [k.registry_external]}


def _record_obj(r):
    from biotite.structure.io.mol import Metadata, SDRecord

    md = Metadata()
    for k, v in r["meta"]:
        md[_key_obj(k)] = "\n".join(v)
    return SDRecord(header=_header_obj(r["header"]), ctab="".join(x + "\n" for x in r["ctab"]), metadata=md)


def _project_file(sd2):
    back = []
    for name in sd2.keys():
        rec = sd2[name]
        try:
            items = [[_key_proj(k), v.split("\n")] for k, v in rec.metadata.items()]
            meta = {"ok": True, "items": items}
        except Exception:
            meta = {"ok": False, "items": []}
        try:
            mol = proj_mol(rec.get_structure())
        except Exception:
            mol = dict(NO_MOL)
        back.append({"header": _header_proj(rec.header), "ctab": rec.ctab.splitlines(), "meta": meta,
                     "mol": mol})
    return back


def run_sd(recs):
    """recs: [{header, ctab: [lines], meta: [[key, [value lines]]]}] (texts as str)."""
    from biotite.structure.io.mol import SDFile

    ev = {"op": "sd", "recs": recs, "oc": "ok", "lines": [], "back": [], "err": ""}
    try:
        sd = SDFile()
        for r in recs:
            sd[r["header"]["mol_name"]] = _record_obj(r)
        out = io.StringIO()
        sd.write(out)
        text = out.getvalue()
    except Exception as e:
        ev["oc"] = "Rejected"
        ev["err"] = f"{type(e).__name__}: {e}"[:200]
        return ev
    ev["lines"] = text.splitlines()
    try:
        with warnings.catch_warnings():
            warnings.simplefilter("ignore")
            sd2 = SDFile.read(io.StringIO(text))
            ev["back"] = _project_file(sd2)
    except Exception as e:
        ev["err"] = f"read: {type(e).__name__}: {e}"[:200]
    return ev


# --------------------------------------------------------------------------- histories of an SDFile (SdHist.tla)
HDR_ATTR = {"initials": "initials", "program": "program", "time": "time", "dimensions": "dimensions",
            "scaling": "scaling_factors", "energy": "energy", "registry": "registry_number", "comments": "comments"}


def _time_obj(t):
    if not t:
        return None
    mo, d, yy, hh, mi = t[0]
    return datetime.datetime(2000 + yy if yy < 69 else 1900 + yy, mo, d, hh, mi)


def hist_build(recs, loaded):
    from biotite.structure.io.mol import SDFile

    sd = SDFile()
    for r in recs:
        sd[r["header"]["mol_name"]] = _record_obj(r)
    if loaded:
        sd = SDFile.deserialize(sd.serialize())
    return sd


def hist_apply(sd, c):
    """One call of SdHist.tla on the real mapping; returns the mapping (a new one after Reload)."""
    from biotite.structure import BondType
    from biotite.structure.io.mol import Header, Metadata, SDFile

    k = c["c"]
    key = list(sd.keys())[c["i"] - 1] if "i" in c else None
    if k == "Reload":
        return SDFile.deserialize(sd.serialize())
    if k == "Touch":
        rec = sd[key]
        if c["what"] == "header":
            _ = rec.header.comments
        elif c["what"] == "meta":
            _ = list(rec.metadata.items())
    elif k == "Move":
        rec = sd[key]
        del sd[key]
        sd[c["name"]] = rec
    elif k == "Insert":
        rec = _record_obj(c["rec"])
        if c["how"] == "parsed":            # the record comes out of another file that was read
            other = SDFile()
            other[c["rec"]["header"]["mol_name"]] = rec
            other = SDFile.deserialize(other.serialize())
            rec = other[c["rec"]["header"]["mol_name"]]
        sd[c["name"]] = rec
    elif k == "Delete":
        del sd[key]
    elif k == "SetField":
        v = _time_obj(c["value"]) if c["field"] == "time" else c["value"]
        setattr(sd[key].header, HDR_ATTR[c["field"]], v)
    elif k == "NewHeader":
        h = c["header"]
        sd[key].header = Header(mol_name=key, initials=h["initials"], program=h["program"], time=_time_obj(h["time"]),
                                dimensions=h["dimensions"], scaling_factors=h["scaling"], energy=h["energy"],
                                registry_number=h["registry"], comments=h["comments"])
    elif k == "SetMeta":
        sd[key].metadata[_key_obj(c["key"])] = "\n".join(c["value"])
    elif k == "DelMeta":
        del sd[key].metadata[_key_obj(c["key"])]
    elif k == "NewMeta":
        sd[key].metadata = {_key_obj(kk): "\n".join(v) for kk, v in c["meta"]}
    elif k == "SetStructure":
        sd[key].set_structure(build_mol(c["m"]), default_bond_type=BondType(0),
                              version=None if c["version"] == "None" else c["version"])
    else:
        raise AssertionError(f"driver: unknown call {k}")
    return sd


def hist_observe(sd):
    """keys of the mapping as it is, and the records of the file it writes, read back (nothing of the
    mapping itself is looked at: records that are still text stay text)."""
    from biotite.structure.io.mol import SDFile

    obs = {"keys": [str(x) for x in sd.keys()], "back": [], "err": ""}
    try:
        text = sd.serialize()
        with warnings.catch_warnings():
            warnings.simplefilter("ignore")
            obs["back"] = _project_file(SDFile.deserialize(text))
    except Exception as e:
        obs["err"] = f"write/read: {type(e).__name__}: {e}"[:200]
    return obs


def hist_step(sd, c):
    oc, err = "ok", ""
    try:
        with warnings.catch_warnings():
            warnings.simplefilter("ignore")
            sd = hist_apply(sd, c)
    except AssertionError:
        raise
    except Exception as e:
        oc, err = "Rejected", f"{type(e).__name__}: {e}"[:200]
    obs = hist_observe(sd)
    obs["oc"] = oc
    if err:
        obs["err"] = (err + " | " + obs["err"]).strip(" |")
    return sd, obs


def run_hist(recs, loaded, calls):
    ev = {"op": "hist", "recs": recs, "loaded": bool(loaded), "calls": calls, "obs": [], "oc": "ok", "err": ""}
    sd = hist_build(recs, loaded)
    for c in calls:
        sd, obs = hist_step(sd, c)
        ev["obs"].append(obs)
    return ev


# --------------------------------------------------------------------------- comparison with TLC's values (S2)
def mol_eq(g, x):
    """g observed projection, x spec value (bonds a sorted list of [i, j, t])."""
    if g["ok"] != x["ok"] or len(g["atoms"]) != len(x["atoms"]):
        return "atom count / ok"
    for i, (ga, xa) in enumerate(zip(g["atoms"], x["atoms"])):
        for k in ("elem", "xyz", "chg"):
            if ga[k] != xa[k]:
                return f"atom {i} {k}"
    if sorted(map(tuple, g["bonds"])) != sorted(map(tuple, x["bonds"])):
        return "bonds"
    return None


def compare_ctab(case, ev):
    exp = case["exp"]
    base = {"case": {"m": case["m"], "version": case["version"], "dflt": case["dflt"]}
            if len(case["m"]["atoms"]) <= 20 and len(case["m"]["bonds"]) <= 40
            else {"chain": [len(case["m"]["atoms"]), len(case["m"]["bonds"])], "version": case["version"], "dflt": case["dflt"]},
            "kb": exp["kb"], "version": case["version"]}
    mm, diag = [], []
    is_alt = bool(exp["alt"]) and ev["oc"] == "ok" and ev["lines"] == exp["alt"]
    if ev["oc"] != exp["oc"] and not (exp["lenient"] and ev["oc"] == "Rejected") and not is_alt:
        mm.append(dict(base, kind="write", expected={"oc": exp["oc"]},
                       observed={"oc": ev["oc"], "lines": ev["lines"][:6], "err": ev["err"]}))
        return mm, diag
    if ev["oc"] != "ok" or exp["oc"] != "ok":
        if ev["oc"] != exp["oc"]:
            diag.append("lenient-or-v3000-alternative")
        return mm, diag
    v2000 = exp["lines"][0][33:39].strip() == "V2000"
    if v2000:
        if ev["lines"] != exp["lines"]:
            k = next((i for i in range(min(len(ev["lines"]), len(exp["lines"]))) if ev["lines"][i] != exp["lines"][i]),
                     min(len(ev["lines"]), len(exp["lines"])))
            mm.append(dict(base, kind="lines", index=k,
                           expected={"line": exp["lines"][k] if k < len(exp["lines"]) else None, "n": len(exp["lines"])},
                           observed={"line": ev["lines"][k] if k < len(ev["lines"]) else None, "n": len(ev["lines"])}))
            return mm, diag
    else:
        if ev["lines"][0][33:39].strip() != "V3000":
            mm.append(dict(base, kind="version", expected="V3000", observed=ev["lines"][0]))
            return mm, diag
        if ev["lines"] != exp["lines"]:
            diag.append("v3000-lines-differ")
    if exp["dom"]:
        bad = mol_eq(ev["back"], exp["back"])
        if bad:
            mm.append(dict(base, kind="readback", what=bad, expected=exp["back"] if len(exp["back"]["atoms"]) <= 20 else "(large)",
                           observed=ev["back"] if len(ev["back"]["atoms"]) <= 20 else {"err": ev["err"]}))
    return mm, diag


def rd_projection(g, n):
    """canonical form of a result of from_mol against a molecule of n atoms: the prefix, the bonds inside it,
    the number of appended hydrogens per atom, and whether every appended atom is a hydrogen without charge
    that has exactly one bond, a SINGLE bond to an atom of the prefix"""
    bonds = [tuple(b) for b in g["bonds"]]
    inner = [b for b in bonds if b[0] < n and b[1] < n]
    hcount = [sum(1 for b in bonds if b[0] == i and b[1] >= n) for i in range(n)]
    wellformed = len(set((b[0], b[1]) for b in bonds)) == len(bonds)
    for e in range(n, len(g["atoms"])):
        at = [b for b in bonds if e in (b[0], b[1])]
        if g["atoms"][e] != {"elem": "H", "chg": 0} or len(at) != 1 or at[0][2] != 1 or not at[0][0] < n:
            wellformed = False
    return {"prefix": [[a["elem"], a["chg"]] for a in g["atoms"][:n]], "inner": inner, "hcount": hcount,
            "extra_wellformed": wellformed, "n_extra": max(0, len(g["atoms"]) - n)}


def compare_rd(case, ev, x):
    """x: the spec's ExpectRdOpt (oc, nmodels, stack, atoms, hs with -1 = left to RDKit, bonds with image sets)"""
    base = {"case": {"m": case["m"], "opt": ev["opt"], "dative": ev["opt"]["dative"], "nmodels": ev["nmodels"]},
            "kb": x["kb"], "cls": x.get("cls", "")}
    g = ev["back"]
    if ev["oc"] != x["oc"]:
        return [dict(base, kind="rd-refused" if ev["oc"] != "ok" else "rd-accepted", expected=x["oc"],
                     observed=ev["err"] or ev["oc"])]
    if ev["oc"] != "ok":
        return []
    n = len(x["atoms"])
    if g["nmodels"] != x["nmodels"] or g["stack"] != x["stack"] or not g["coords_same"]:
        return [dict(base, kind="rd-models", expected=[x["nmodels"], x["stack"]],
                     observed=[g["nmodels"], g["stack"], g["coords_same"]])]
    pr = rd_projection(g, n)
    if pr["prefix"] != [[a["elem"], a["chg"]] for a in x["atoms"]]:
        return [dict(base, kind="rd-atoms", expected=x["atoms"], observed=g["atoms"])]
    if not pr["extra_wellformed"] or any(h != -1 and h != c for h, c in zip(x["hs"], pr["hcount"])):
        return [dict(base, kind="rd-hydrogens", expected={"hs": x["hs"], "unspecified": -1},
                     observed={"hcount": pr["hcount"], "atoms": g["atoms"], "bonds": g["bonds"]})]
    gb = {(b[0], b[1]): b[2] for b in pr["inner"]}
    ok = len(gb) == len(x["bonds"]) and all((b[0], b[1]) in gb and gb[(b[0], b[1])] in b[2] for b in x["bonds"])
    if not ok:
        return [dict(base, kind="rd-bonds", expected=x["bonds"], observed=[list(b) for b in pr["inner"]])]
    return []


def compare_sd(recs, exp, ev):
    base = {"recs": recs}
    if ev["oc"] != exp["oc"]:
        return [dict(base, kind="sd-write", expected=exp["oc"], observed={"oc": ev["oc"], "err": ev["err"]})], []
    if ev["oc"] != "ok" or not exp["dom"]:
        return [], (["sd-outside-domain"] if ev["oc"] == "ok" else [])
    diag = []
    if [x.rstrip() for x in ev["lines"]] != [x.rstrip() for x in exp["lines"]]:
        diag.append("sd-lines-differ")       # the property asks for the content to survive, not for this text
    g, x = ev["back"], exp["back"]
    if [r["header"]["mol_name"] for r in g] != [r["header"]["mol_name"] for r in x]:
        return [dict(base, kind="sd-names", expected=[r["header"]["mol_name"] for r in x],
                     observed=[r["header"]["mol_name"] for r in g])], []
    for k, (gr, xr) in enumerate(zip(g, x)):
        if gr["header"] != xr["header"]:
            return [dict(base, kind="sd-header", record=k, expected=xr["header"], observed=gr["header"])], []
        if not gr["meta"]["ok"] or gr["meta"]["items"] != xr["meta"]["items"]:
            return [dict(base, kind="sd-meta", record=k, expected=xr["meta"], observed=gr["meta"])], []
        if gr["ctab"] != xr["ctab"] or not gr["mol"]["ok"]:
            return [dict(base, kind="sd-ctab", record=k, expected=xr["ctab"], observed=[gr["ctab"], gr["mol"]["ok"]])], []
    return [], diag


def compare_hist(exp, obs):
    """exp: the state of MCHist after the call ({oc, file: [{key, rec}]}), obs: hist_step's observation."""
    if obs["oc"] != exp["oc"]:
        return "hist-oc", exp["oc"], {"oc": obs["oc"], "err": obs["err"]}
    keys = [e["key"] for e in exp["file"]]
    if obs["keys"] != keys:
        return "hist-keys", keys, obs["keys"]
    g = obs["back"]
    if [r["header"]["mol_name"] for r in g] != keys:
        return "hist-names", keys, {"names": [r["header"]["mol_name"] for r in g], "err": obs["err"]}
    for k, (gr, e) in enumerate(zip(g, exp["file"])):
        xr = e["rec"]
        if gr["header"] != xr["header"]:
            return "hist-header", {"record": k, "header": xr["header"]}, gr["header"]
        if not gr["meta"]["ok"] or gr["meta"]["items"] != xr["meta"]:
            return "hist-meta", {"record": k, "meta": xr["meta"]}, gr["meta"]
        if gr["ctab"] != xr["ctab"] or not gr["mol"]["ok"]:
            return "hist-ctab", {"record": k, "ctab": xr["ctab"]}, [gr["ctab"], gr["mol"]["ok"]]
    return None


_GRAPH = None


def exec_hist(item):
    """S2 for histories: paths of the state graph of MCHist replayed call by call."""
    global _GRAPH
    from harness.tlabind.pool import progress

    if _GRAPH is None:
        with open(os.environ["C18_GRAPH"]) as f:
            _GRAPH = json.load(f)
    states, labels = _GRAPH["states"], _GRAPH["labels"]
    mism, steps = [], 0
    for path in item["paths"]:
        init = states[path["init"]]
        recs = [e["rec"] for e in init["file"]]
        loaded = init["forms"][0][0] == "text"
        calls = [labels[li] for li, _ in path["steps"]]
        progress({"t": "hist", "loaded": loaded, "calls": [[c["c"], c.get("i")] for c in calls]})
        sd = hist_build(recs, loaded)
        for n, (li, dst) in enumerate(path["steps"]):
            sd, obs = hist_step(sd, labels[li])
            steps += 1
            bad = compare_hist(states[dst], obs)
            if bad:
                mism.append({"kind": bad[0], "expected": bad[1], "observed": bad[2], "step": n + 1,
                             "history": [dict(c, rec="(record)") if "rec" in c else c for c in calls[:n + 1]],
                             "loaded": loaded, "forms_before": states[path["steps"][n - 1][1] if n else path["init"]]["forms"],
                             "replay": {"recs": recs, "loaded": loaded, "calls": calls[:n + 1]}})
                break
    return {"mismatch": mism, "n": len(item["paths"]), "steps": steps}


# --------------------------------------------------------------------------- pool workers
def exec_cases(item):
    from harness.tlabind.pool import progress

    mism, diags, n, events = [], {}, 0, []
    for case in item["cases"]:
        if case["t"] == "ctab":
            progress({"t": "ctab", "version": case["version"], "natoms": len(case["m"]["atoms"]), "kb": case["exp"]["kb"]})
            ev = run_ctab(case["m"], case["version"], case["dflt"])
            n += 1
            mm, dg = compare_ctab(case, ev)
            mism += mm
            for d in dg:
                diags[d] = diags.get(d, 0) + 1
            for k, x in enumerate(case.get("rd", [])):
                dative = k == 1
                progress({"t": "rd", "m": case["m"], "dative": dative})
                evr = run_rd(case["m"], x["nmodels"], plain_opt(dative))
                n += 1
                mism += compare_rd(case, evr, x)
        elif case["t"] == "rd":
            progress({"t": "rd", "m": case["m"], "opt": case["opt"], "nmodels": case["nmodels"]})
            evr = run_rd(case["m"], case["nmodels"], case["opt"])
            n += 1
            mism += compare_rd(case, evr, case["exp"])
        else:
            progress({"t": "sd"})
            ev = run_sd(case["recs"])
            n += 1
            mm, dg = compare_sd(case["recs"], case["exp"], ev)
            mism += mm
            for d in dg:
                diags[d] = diags.get(d, 0) + 1
    return {"mismatch": mism, "n": n, "diag": diags}


ELEMS = ["C", "N", "O", "H", "S", "P", "CL", "BR", "FE", "NA", "F", "ZN"]
NAME_CH = "abcXYZ019_."
VAL_WORDS = ["v", "1.5", "two words", "x=y", "-3", "M  END", "a>b", "$", "DT1", "<k>"]


def gen_mol(rng, n, edge, nb=None):
    atoms = []
    for i in range(n):
        if n > 100:
            xyz = [[rng.randrange(-9999 * 16, 9999 * 16), 16] for _ in range(3)]
        else:
            xyz = [rng.choice([[rng.randrange(-9999 * 1024, 9999 * 1024), 1024], [rng.randrange(-9999 * 64, 99999 * 64), 64],
                               [rng.randrange(-64, 64), 32]]) for _ in range(3)]
        if edge and rng.random() < 0.05:
            xyz[rng.randrange(3)] = rng.choice([[12799999, 128], [12800000, 128], [-10239999, 1024], [-10240000, 1024],
                                                [0, 0], [1, 32], [3, 32], [-1, 65536]])
        q = rng.choice([0, 0, 0, 1, -1, 2, -3, rng.randint(-15, 15)])
        if edge and rng.random() < 0.02:
            q = rng.choice([-100, 100, 1000, -99])
        el = rng.choice(ELEMS)
        if edge and rng.random() < 0.02:
            el = rng.choice(["ABCD", "", "c"])
        atoms.append({"elem": el, "xyz": xyz, "chg": q})
    pairs = set()
    if nb is None:
        nb = rng.randint(0, min(2 * n, n + 30)) if n < 900 else rng.choice([n - 1, 999, 1000, 1001, n + 5])
    dense = nb > 2 * n
    if n > 1:
        for k in range(min(nb, n - 1)):       # a spanning path first (cheap, any bond graph follows)
            pairs.add((k, k + 1))
        while len(pairs) < nb and len(pairs) < n * (n - 1) // 2:
            i, j = sorted(rng.sample(range(n), 2))
            pairs.add((i, j))
        if n < 900 and not dense:              # any bond graph: drop a random part of the path again
            pairs = set(p for p in pairs if rng.random() < 0.8)
    bonds = [[i, j, rng.randint(0, 9)] for i, j in sorted(pairs)]
    return {"atoms": atoms, "bonds": bonds, "charge_annot": rng.random() < 0.7}


def gen_text(rng, alphabet, lo, hi):
    return "".join(rng.choice(alphabet) for _ in range(rng.randint(lo, hi)))


def gen_key(rng):
    k = {"number": [], "name": [], "regint": [], "regext": []}
    while not (k["number"] or k["name"]):
        if rng.random() < 0.4:
            k["number"] = [rng.choice([0, 1, 7, 42, 123456])]
        if rng.random() < 0.8:
            k["name"] = [rng.choice("abcXYZ019") + gen_text(rng, NAME_CH, 0, 8)]
    if rng.random() < 0.3:
        k["regint"] = [rng.randrange(100000)]
    if rng.random() < 0.3:
        k["regext"] = [gen_text(rng, NAME_CH + "-", 0, 8)]
    return k


def gen_header(rng, name):
    def f(maxlen, p=0.5):
        return gen_text(rng, "AB12x.-", 1, maxlen) if rng.random() < p else ""
    t = []
    if rng.random() < 0.5:
        t = [[rng.randint(1, 12), rng.randint(1, 28), rng.randrange(100), rng.randrange(24), rng.randrange(60)]]
    return {"mol_name": name, "initials": f(2), "program": f(8), "time": t, "dimensions": rng.choice(["", "2D", "3D"]),
            "scaling": f(12, 0.3), "energy": f(12, 0.3), "registry": f(6, 0.3),
            "comments": rng.choice(["", "a comment", "x  y", "M  END"])}


def record_cases(item):
    """S3: seeded random executions -> observed events."""
    from harness.tlabind.pool import progress

    rng = random.Random(item["seed"])
    events = []
    nrd = rng.randrange(9)
    for c in range(item["count"]):
        r = rng.random()
        edge = rng.random() < 0.3
        if item.get("big") and c == 0:
            # the two counts of the counts line around their limits, independently of each other
            if item["big"] == "bonds":
                n = rng.randint(46, 120)
                m = gen_mol(rng, n, False, nb=rng.choice([999, 1000, 1001, rng.randint(1002, 1035)]))
            else:
                n = rng.choice([998, 999, 1000, 1001, rng.randint(1001, 1500)])
                m = gen_mol(rng, n, False)
            version = rng.choice(["None", "V2000", "V3000"])
            progress({"op": "ctab", "natoms": n, "nbonds": len(m["bonds"]), "version": version})
            events.append(run_ctab(m, version, 0))
        elif r < 0.5:
            n = rng.choice([1, 2, 3, 5, 9, 17, rng.randint(1, 40)])
            m = gen_mol(rng, n, edge)
            version = rng.choice(["None", "V2000", "V3000"])
            dflt = rng.choice([0, 0, 1, 9, 5])
            progress({"op": "ctab", "m": m if n < 10 else n, "version": version})
            events.append(run_ctab(m, version, dflt))
        elif r < 0.75:
            nrd += 1
            ring = rng.random() < 0.3
            # the hydrogen options go round (every item passes through all nine pairs), the others are drawn
            opt = {"eh": ["True", "None", "False"][nrd % 3], "ah": ["None", "False", "True"][(nrd // 3) % 3],
                   "kek": rng.random() < 0.25, "dative": rng.random() < 0.5,
                   "conf": rng.choice(["all", "all", "all", "3D", "first"])}
            hydrogens = rng.choice(["none", "none", "some", "saturate"])
            if ring:
                t = rng.choice([None, 9, 7, 5])
                m = {"atoms": [{"elem": "C", "xyz": [[rng.randrange(-640, 640), 64] for _ in range(3)], "chg": 0} for _ in range(6)],
                     "bonds": sorted([min(i, (i + 1) % 6), max(i, (i + 1) % 6), (5 + i % 2) if t is None else t] for i in range(6))}
                if hydrogens != "none":           # benzene with its hydrogens (or a part of them)
                    for i in range(6 if hydrogens == "saturate" else rng.randint(1, 5)):
                        m["atoms"].append({"elem": "H", "xyz": [[rng.randrange(-640, 640), 64] for _ in range(3)], "chg": 0})
                        m["bonds"].append([i, len(m["atoms"]) - 1, 1])
            else:
                m = gen_mol(rng, rng.randint(1, 12), False)
                for b in m["bonds"]:
                    if b[2] in (5, 6, 7, 9) and rng.random() < 0.7:
                        b[2] = rng.choice([0, 1, 2, 3, 4, 8])
                    elif rng.random() < 0.5:
                        b[2] = rng.choice([1, 1, 2])     # plain bonds: the valence model of the spec decides more atoms
                for a in m["atoms"]:
                    a["xyz"] = [[rng.randrange(-9999 * 64, 9999 * 64), 64] for _ in range(3)]
                    if hydrogens == "none" and a["elem"] == "H":
                        a["elem"] = rng.choice(["C", "C", "N", "O"])
                    if rng.random() < 0.5:
                        a["chg"] = 0
                if hydrogens == "saturate":       # every open valence of the organic subset filled with a hydrogen atom
                    order = {1: 1, 2: 2, 3: 3}
                    for i in range(len(m["atoms"])):
                        val = {"C": 4, "N": 3, "O": 2}.get(m["atoms"][i]["elem"])
                        bt = [b[2] for b in m["bonds"] if i in (b[0], b[1])]
                        if val is None or m["atoms"][i]["chg"] or any(t not in order for t in bt):
                            continue
                        for _ in range(max(0, val - sum(bt))):
                            m["atoms"].append({"elem": "H", "xyz": [[rng.randrange(-640, 640), 64] for _ in range(3)], "chg": 0})
                            m["bonds"].append([i, len(m["atoms"]) - 1, 1])
                    m["bonds"].sort()
            nm = rng.randint(1, 4)
            progress({"op": "rd", "m": m, "nmodels": nm, "opt": opt})
            events.append(run_rd(m, nm, opt, ring))
        elif r < 0.88:
            recs = gen_recs(rng, rng.randint(1, 4))
            progress({"op": "sd", "names": [x["header"]["mol_name"] for x in recs]})
            events.append(run_sd(recs))
        else:
            events.append(record_hist(rng, progress))
    return {"events": events}


def gen_name(rng, taken):
    while True:
        nmx = gen_text(rng, "ABab12 _-", 0, 10).strip()
        if nmx not in taken and not nmx.startswith("$$$$"):
            return nmx


def gen_value(rng):
    vals = [rng.choice(VAL_WORDS) for _ in range(rng.randint(1, 3))]
    return [v for v in vals if not v.startswith(">") and not v.startswith("$$$$")]


def gen_meta(rng):
    meta, seen = [], []
    for _ in range(rng.randint(0, 3)):
        k = gen_key(rng)
        if k in seen:
            continue
        seen.append(k)
        vals = gen_value(rng)
        if vals:
            meta.append([k, vals])
    return meta


def gen_ctab(rng):
    from biotite.structure.io.mol.ctab import write_structure_to_ctab

    mol = gen_mol(rng, rng.randint(1, 6), False)
    with warnings.catch_warnings():
        warnings.simplefilter("ignore")
        return [str(x) for x in write_structure_to_ctab(build_mol(mol), version=rng.choice([None, "V3000"]))]


def gen_recs(rng, nrec):
    names = []
    while len(names) < nrec:
        names.append(gen_name(rng, names))
    return [{"header": gen_header(rng, nm), "ctab": gen_ctab(rng), "meta": gen_meta(rng)} for nm in names]


def gen_call(rng, keys, metas):
    """A random call of SdHist.tla inside Dom_Call; keys: the keys of the real mapping now, metas: the metadata
    keys every record is known to have had (only used to aim at existing keys)."""
    n = len(keys)
    i = rng.randint(1, n)
    r = rng.random()
    if r < 0.22:
        return {"c": "Reload"}
    if r < 0.30:
        return {"c": "Touch", "what": rng.choice(["record", "header", "meta"]), "i": i}
    if r < 0.46:
        name = rng.choice(keys) if rng.random() < 0.2 else gen_name(rng, keys)
        return {"c": "Move", "i": i, "name": name}
    if r < 0.56:
        name = rng.choice(keys) if rng.random() < 0.2 else gen_name(rng, keys)
        rec = gen_recs(rng, 1)[0]
        return {"c": "Insert", "how": rng.choice(["fresh", "parsed"]), "name": name, "rec": rec}
    if r < 0.61 and n >= 2:
        return {"c": "Delete", "i": i}
    if r < 0.75:
        f = rng.choice(sorted(HDR_ATTR))
        h = gen_header(rng, "")
        return {"c": "SetField", "field": f, "i": i, "value": h[f]}
    if r < 0.80:
        return {"c": "NewHeader", "i": i, "header": gen_header(rng, "")}
    pool_keys = metas.get(keys[i - 1], [])
    if r < 0.90:
        k = rng.choice(pool_keys) if pool_keys and rng.random() < 0.4 else gen_key(rng)
        return {"c": "SetMeta", "i": i, "key": k, "value": [] if rng.random() < 0.1 else (gen_value(rng) or ["v"])}
    if r < 0.94:
        k = rng.choice(pool_keys) if pool_keys and rng.random() < 0.8 else gen_key(rng)
        return {"c": "DelMeta", "i": i, "key": k}
    if r < 0.97:
        return {"c": "NewMeta", "i": i, "meta": gen_meta(rng)}
    return {"c": "SetStructure", "version": rng.choice(["None", "V2000", "V3000"]), "i": i,
            "m": gen_mol(rng, rng.randint(1, 6), False)}


def record_hist(rng, progress):
    """A random history of an SDFile (3..8 calls), observed after every call."""
    recs = gen_recs(rng, rng.randint(1, 3))
    loaded = rng.random() < 0.5
    ev = {"op": "hist", "recs": recs, "loaded": loaded, "calls": [], "obs": [], "oc": "ok", "err": ""}
    progress({"op": "hist", "names": [x["header"]["mol_name"] for x in recs], "loaded": loaded})
    sd = hist_build(recs, loaded)
    metas = {x["header"]["mol_name"]: [k for k, _ in x["meta"]] for x in recs}
    for _ in range(rng.randint(3, 8)):
        keys = [str(x) for x in sd.keys()]
        if not keys:
            break
        c = gen_call(rng, keys, metas)
        progress({"op": "hist", "call": [c["c"], c.get("i")], "n": len(ev["calls"])})
        if c["c"] in ("Move", "Insert"):
            src = metas.get(keys[c["i"] - 1], []) if c["c"] == "Move" else [k for k, _ in c["rec"]["meta"]]
            metas[c["name"]] = list(src)
        elif c["c"] in ("SetMeta", "NewMeta"):
            metas.setdefault(keys[c["i"] - 1], []).extend([c["key"]] if c["c"] == "SetMeta" else [k for k, _ in c["meta"]])
        sd, obs = hist_step(sd, c)
        ev["calls"].append(c)
        ev["obs"].append(obs)
    return ev


# --------------------------------------------------------------------------- classification
def classify(mm):
    kb = mm.get("kb") or []
    kind = mm.get("kind")
    if kind == "write" and mm["expected"]["oc"] == "Rejected" and mm["observed"]["oc"] == "ok":
        for k in ("ElementWidth", "ChargeWidth"):
            if k in kb:
                return FINDING[k]
    if kind == "rd-bonds" and "Dative" in kb:
        # COORDINATION comes back as SINGLE although use_dative_bonds=True; everything else as expected
        exp = mm["expected"]
        got = {(b[0], b[1]): b[2] for b in mm["observed"]}
        bad = [b for b in exp if got.get((b[0], b[1])) not in b[2]]
        if bad and all(b[2] == [8] and got.get((b[0], b[1])) == 1 for b in bad) and len(got) == len(exp):
            return FINDING["Dative"]
    return None


# --------------------------------------------------------------------------- dump reading
_CHARS = re.compile(r'<<\s*("(?:[^"\\]|\\.)"(?:,\s*"(?:[^"\\]|\\.)")*)\s*>>')


def _collapse(text):
    def rep(m):
        chars = re.findall(r'"((?:[^"\\]|\\.))"', m.group(1))
        return '"' + "".join(chars) + '"'
    return _CHARS.sub(rep, text)


def load_states(path):
    from harness.tlabind.tlaval import parse_state, to_py

    with open(path) as f:
        text = _collapse(f.read())
    out = []
    for blk in re.split(r"^State \d+:\s*$", text, flags=re.M):
        blk = blk.strip()
        if blk:
            out.append({k: to_py(v) for k, v in parse_state(blk).items()})
    return out


def _t(v):
    return "" if v == [] else v


def fix_mol(m):
    return {"atoms": [{"elem": _t(a["elem"]), "xyz": a["xyz"], "chg": a["chg"]} for a in m["atoms"]],
            "bonds": [list(b) for b in m["bonds"]]}


def fix_rd(x):
    """ExpectRdOpt of RdkitBridge.tla (to_py form)"""
    return {"oc": x["oc"], "nmodels": x["nmodels"], "stack": x["stack"], "kb": x["kb"], "cls": x["cls"],
            "atoms": [{"elem": _t(a["elem"]), "chg": a["chg"]} for a in x["atoms"]], "hs": list(x["hs"]),
            "bonds": [list(b) for b in x["bonds"]]}


def fix_back(b):
    return {"ok": b["ok"], "atoms": [{"elem": _t(a["elem"]), "xyz": a["xyz"], "chg": a["chg"]} for a in b["atoms"]],
            "bonds": [list(x) for x in b["bonds"]]}


def fix_header(h):
    return {k: (_t(v) if k != "time" else v) for k, v in h.items()}


def fix_key(k):
    return {"number": k["number"], "name": [_t(x) for x in k["name"]], "regint": k["regint"],
            "regext": [_t(x) for x in k["regext"]]}


def fix_meta(md):
    return [[fix_key(k), [_t(x) for x in v]] for k, v in md]


def fix_recs(recs):
    return [{"header": fix_header(r["header"]), "ctab": [_t(x) for x in r["ctab"]], "meta": fix_meta(r["meta"])}
            for r in recs]


def ex_key(k):
    return {"number": k["number"], "name": [list(x) for x in k["name"]], "regint": k["regint"],
            "regext": [list(x) for x in k["regext"]]}


def explode_recs(recs):
    return [{"header": {k: (list(v) if k != "time" else v) for k, v in r["header"].items()},
             "ctab": [list(x) for x in r["ctab"]],
             "meta": [[ex_key(k), [list(x) for x in v]] for k, v in r["meta"]]} for r in recs]


def fix_call(t):
    """a call tuple of MCHist (to_py form) -> the call dict used by hist_apply / Trace.tla"""
    k = t[0]
    if k == "Reload":
        return {"c": k}
    if k == "Touch":
        return {"c": k, "what": t[1], "i": t[2]}
    if k == "Move":
        return {"c": k, "i": t[1], "name": _t(t[2])}
    if k == "Insert":
        return {"c": k, "how": t[1], "name": _t(t[2]), "rec": fix_recs([t[3]])[0]}
    if k == "Delete":
        return {"c": k, "i": t[1]}
    if k == "SetField":
        return {"c": k, "field": t[1], "i": t[2], "value": t[3] if t[1] == "time" else _t(t[3])}
    if k == "NewHeader":
        return {"c": k, "i": t[1], "header": fix_header(t[2])}
    if k == "SetMeta":
        return {"c": k, "i": t[1], "key": fix_key(t[2]), "value": [_t(x) for x in t[3]]}
    if k == "DelMeta":
        return {"c": k, "i": t[1], "key": fix_key(t[2])}
    if k == "NewMeta":
        return {"c": k, "i": t[1], "meta": fix_meta(t[2])}
    if k == "SetStructure":
        return {"c": k, "version": t[1], "i": t[2], "m": fix_mol(t[3])}
    raise RuntimeError(f"unknown call {t!r}")


def fix_hist_state(st):
    return {"oc": st["oc"], "forms": [list(f) for f in st["forms"]],
            "file": [{"key": _t(e["key"]), "rec": fix_recs([e["rec"]])[0]} for e in st["file"]]}


def explode_call(c):
    """call dict (texts as str) -> JSON for Trace.tla (texts as lists of characters)"""
    out = dict(c)
    if "name" in c:
        out["name"] = list(c["name"])
    if "rec" in c:
        out["rec"] = explode_recs([c["rec"]])[0]
    if c["c"] == "SetField" and c["field"] != "time":
        out["value"] = list(c["value"])
    if "header" in c:
        out["header"] = {k: (list(v) if k != "time" else v) for k, v in c["header"].items()}
    if "key" in c:
        out["key"] = ex_key(c["key"])
    if c["c"] == "SetMeta":
        out["value"] = [list(x) for x in c["value"]]
    if "meta" in c:
        out["meta"] = [[ex_key(k), [list(x) for x in v]] for k, v in c["meta"]]
    if "m" in c:
        out["m"] = explode_mol(c["m"])
    return out


def hist_stage(ctx, dotf):
    """S2 for the state graph of MCHist: every transition is replayed against the real SDFile."""
    from harness.tlabind import dot, helpers, tlc
    from harness.tlabind.core import Vacuity
    from harness.tlabind.tlaval import to_py

    g = dot.load(dotf)
    if not g.edges:
        raise RuntimeError("MCHist: empty state graph")
    for nid in g.state_text:
        g.state_text[nid] = _collapse(g.state_text[nid])
    labels, lab_ix, per_op = [], {}, {}
    for (_s, lab, _d) in g.edges:
        if lab not in lab_ix:
            _name, args = dot.parse_label(_collapse(lab))
            lab_ix[lab] = len(labels)
            labels.append(fix_call(to_py(args[0])))
        op = labels[lab_ix[lab]]["c"]
        per_op[op] = per_op.get(op, 0) + 1
    need = {"Reload", "Touch", "Move", "Insert", "Delete", "SetField", "NewHeader", "SetMeta", "DelMeta", "NewMeta",
            "SetStructure"}
    if need - set(per_op):
        raise Vacuity(f"calls never taken in the state graph of MCHist: {sorted(need - set(per_op))}")
    ids = {nid: k for k, nid in enumerate(sorted(g.state_text))}
    states = [None] * len(ids)
    for nid, k in ids.items():
        states[k] = fix_hist_state({kk: to_py(v) for kk, v in g.state(nid).items()})
    # the histories the check relies on: an edit / a new key for a record whose header (metadata) is still text
    def on_text(e, ops, pos):
        st = states[ids[e[0]]]
        c = labels[lab_ix[e[1]]]
        return c["c"] in ops and st["forms"][c["i"] - 1][pos] == "text"
    relied = {"rekey_while_header_is_text": sum(1 for e in g.edges if on_text(e, {"Move"}, 1)),
              "header_edit_while_text": sum(1 for e in g.edges if on_text(e, {"SetField"}, 1)),
              "metadata_edit_while_text": sum(1 for e in g.edges if on_text(e, {"SetMeta", "DelMeta"}, 2)),
              "reload_after_edit": sum(1 for e in g.edges if labels[lab_ix[e[1]]]["c"] == "Reload"
                                       and any(f != ["text", "text", "text"] for f in states[ids[e[0]]]["forms"])),
              "refused": sum(1 for st in states if st["oc"] == "Rejected")}
    ctx.cov["hist_relied_on"] = relied
    if not all(relied.values()):
        raise Vacuity(f"histories the check relies on are missing from the state graph: {relied}")
    ctx.cov["hist_transitions_per_call"] = per_op
    paths, covered = dot.covering_paths(g, max_len=8)
    if covered != len(g.edges):
        raise Vacuity(f"MCHist: {covered} of {len(g.edges)} transitions covered by the replayed paths")
    d = tlc.scratch_dir("c18hist")
    gfile = os.path.join(d, "graph.json")
    with open(gfile, "w") as f:
        json.dump({"states": states, "labels": labels}, f)
    plist = [{"init": ids[root], "steps": [[lab_ix[lab], ids[dst]] for lab, dst in steps]} for root, steps in paths]
    plist.sort(key=lambda x: json.dumps(x))
    items = [{"paths": ch} for ch in _chunks(plist, 80)]
    res = helpers.run_pool(ctx, "harness.drivers.c18:exec_hist", items, stage="S2-hist", env={"C18_GRAPH": gfile},
                           item_timeout=300)
    nsteps = sum((r or {}).get("steps", 0) for r in res)
    ctx.cov["hist_paths"] = len(plist)
    ctx.cov["hist_steps_replayed"] = nsteps
    ctx.cov["hist_states"] = len(states)
    ctx.traces_validated += len(plist)
    ctx.evaluations += nsteps
    ctx.nontrivial += sum(1 for x in plist if len(x["steps"]) >= 2)
    ctx.sample({"s2_history": {"loaded": states[plist[0]["init"]]["forms"][0][0] == "text",
                               "calls": [[labels[li]["c"], labels[li].get("i")] for li, _ in plist[0]["steps"]]}})
    ctx.log(f"S2-hist: {len(plist)} histories, {nsteps} calls replayed, {covered}/{len(g.edges)} transitions of "
            f"{len(states)} states")


# --------------------------------------------------------------------------- orchestration
def _chunks(seq, k):
    return [seq[i:i + k] for i in range(0, len(seq), k)]


def run(ctx):
    import time
    from concurrent.futures import ThreadPoolExecutor

    from harness.tlabind import helpers, tlc
    from harness.tlabind.core import Vacuity

    quick = ctx.quick
    suf = "" if quick else "_thorough"
    ctx.assumptions += [
        "Dom_Mol: >= 1 atom, elements upper case without blanks (the writer capitalises, the reader upper-cases), bonds i < j, one bond per pair",
        "coordinates are dyadic rationals exactly representable in float32; the five-digit limit is tested on the representable neighbours of the column limits",
        "bond types without a ctab counterpart (QUADRUPLE, AROMATIC_TRIPLE, COORDINATION) return as the default bond type: specified behaviour, not a loss",
        "RDKit: aromatic bonds may return as any valid Kekule assignment (AROMATIC_SINGLE / AROMATIC_DOUBLE) or as generic AROMATIC where RDKit cannot kekulize (with kekulize=True as their plain orders, generic AROMATIC as ANY); elements are valid symbols (Dom_Rd)",
        "RDKit options: the round trip is demanded to be the identity on atoms whenever every hydrogen is explicit (explicit_hydrogen=True, or the default with a hydrogen atom in the molecule) or from_mol adds none (add_hydrogen=False, or the default with a hydrogen atom present); explicit_hydrogen=False with hydrogen atoms is the documented refusal; in the remaining combinations (no hydrogen atom, hydrogens implicit and added) the molecule has to come back as the prefix of the result - atoms in order, charges, bonds, coordinates of every model - followed only by uncharged hydrogen atoms with one SINGLE bond each to an atom of the molecule; how many is RDKit's valence model (trusted), except for neutral C, N, O, F, Cl, Br atoms whose bonds are plain single / double / triple bonds within the default valence (ImplicitHs: valence minus bond orders)",
        "RDKit conformers: conformer_id None and '3D' return every model (to_mol marks every conformer 3D), conformer_id=0 returns the first model as an AtomArray; ids > 0 and '2D' are not decided",
        "Dom_Header: fields within their documented widths, no outer blanks, time at minute precision within 1969..2068",
        "Dom_Meta: keys distinct and within the key grammar; value lines non-empty, without outer blanks, not starting with '>' or '$$$$' (the reader strips lines, skips empty ones, takes '>' lines for keys)",
        "record names pairwise different, not starting with '$$$$'",
        "Dom_Call (histories): calls address existing records by position, a file keeps >= 1 record (an SD text without records cannot be read), one record object is held by one file under one key (a record stored under two keys or in two files at once is outside the claim); the observation after a call is list(file.keys()) and the file written and read back - the mapping itself is not looked at, so records stay in the representation the history gave them",
        "exceptions are compared as 'Rejected' (any exception)",
        "trusted: TLC, the TLA+ value parser, numpy, RDKit, the projection (annotation arrays, BondList.as_array)",
    ]
    ctx.cov["rule"] = ("non-trivial = a written connection table with >= 1 bond or a charged atom, an accepted RDKit round "
                       "trip with >= 1 bond, an SD file with metadata or >= 2 records, a history of >= 2 calls")
    d = tlc.scratch_dir("c18")
    md_, sd_, rd_ = os.path.join(d, "mol"), os.path.join(d, "sd"), os.path.join(d, "rd")
    nitems = 12 if quick else 120
    per = 20 if quick else 100
    s3items = [{"seed": ctx.rng.randrange(1 << 30), "count": per, "big": ["atoms", "", "bonds", ""][k % 4]} for k in range(nitems)]
    dotf = os.path.join(d, "hist.dot")
    with ThreadPoolExecutor(max_workers=5) as ex:
        fm = ex.submit(ctx.tlc, "MCMol", f"MC{suf}.cfg", stage="S1-mol", dump=md_, workers=8 if quick else 16, timeout=2400)
        time.sleep(0.2)
        fs = ex.submit(ctx.tlc, "MCSd", f"MCSd{suf}.cfg", stage="S1-sd", dump=sd_, workers=4, timeout=1500)
        time.sleep(0.2)
        fr = ex.submit(ctx.tlc, "MCRd", f"MCRd{suf}.cfg", stage="S1-rd", dump=rd_, workers=2 if quick else 8, timeout=1500)
        time.sleep(0.2)
        # the dot dump is only reliable with one worker
        fh = ex.submit(ctx.tlc, "MCHist", f"MCHist{suf}.cfg", stage="S1-hist", dump_dot=dotf, workers=1, timeout=2400)
        time.sleep(0.2)
        f3 = ex.submit(helpers.run_pool, ctx, "harness.drivers.c18:record_cases", s3items, stage="S3",
                       item_timeout=600, procs=6 if quick else 16)
        rm, rs, rr, s3res = fm.result(), fs.result(), fr.result(), f3.result()
        fh.result()
    ctx.exhaustive = True

    def dpath(p):
        return p + ".dump" if os.path.exists(p + ".dump") else p

    # ---------------------------------------------------------------- S2
    cases = []
    for st in load_states(dpath(md_)):
        if not st["done"]:
            continue
        m, version, dflt = st["inp"]
        e = st["out"]["ctab"]
        exp = {"oc": e["oc"], "lines": [_t(x) for x in e["lines"]], "back": fix_back(e["back"]),
               "alt": [_t(x) for x in e["alt"]], "kb": e["kb"], "lenient": e["lenient"], "dom": e["dom"]}
        rd = [fix_rd(x) for x in st["out"]["rd"]]
        cases.append({"t": "ctab", "m": fix_mol(m), "version": version, "dflt": dflt, "exp": exp, "rd": rd})
    cases.sort(key=lambda c: json.dumps([c["m"], c["version"], c["dflt"]], sort_keys=True))
    nctab = len(cases)
    sdcases = []
    for st in load_states(dpath(sd_)):
        if not st["done"]:
            continue
        o = st["out"]
        exp = {"oc": o["oc"], "lines": [_t(x) for x in o["lines"]], "dom": o["dom"],
               "back": [{"header": fix_header(r["header"]), "ctab": [_t(x) for x in r["ctab"]],
                         "meta": {"ok": r["meta"]["ok"], "items": fix_meta(r["meta"]["items"])}} for r in o["back"]]}
        sdcases.append({"t": "sd", "recs": fix_recs(st["inp"]), "exp": exp})
    sdcases.sort(key=lambda c: json.dumps(c["recs"], sort_keys=True))
    cases += sdcases
    # the RDKit bridge with its options (MCRd): molecule classes x option combinations
    rdcases = []
    for st in load_states(dpath(rd_)):
        if not st["done"]:
            continue
        m, nmodels, opt = st["inp"]
        rdcases.append({"t": "rd", "m": fix_mol(m), "nmodels": nmodels, "opt": opt, "exp": fix_rd(st["out"])})
    rdcases.sort(key=lambda c: json.dumps([c["m"], c["nmodels"], c["opt"]], sort_keys=True))
    cases += rdcases
    if 2 * len(cases) != rm.distinct + rs.distinct + rr.distinct:
        raise RuntimeError(f"dump/state mismatch: {len(cases)} cases, {rm.distinct + rs.distinct + rr.distinct} states")
    # every pair of hydrogen options on every class of molecules, with the outcome the option table gives it
    combos = {}
    for c in rdcases:
        x = c["exp"]
        what = "refused" if x["oc"] != "ok" else ("identity" if all(h == 0 for h in x["hs"]) else
                                                  ("hydrogens" if any(h > 0 for h in x["hs"]) else "unspecified"))
        k = f'{x["cls"]}/eh={c["opt"]["eh"]}/ah={c["opt"]["ah"]}'
        combos.setdefault(k, {}).setdefault(what, 0)
        combos[k][what] += 1
    ctx.cov["s2_rd_option_classes"] = {k: combos[k] for k in sorted(combos)}
    missing = [f"{cl}/eh={eh}/ah={ah}" for cl in ("hasH", "noH-open", "noH-other") for eh in TRI for ah in TRI
               if f"{cl}/eh={eh}/ah={ah}" not in combos]
    if missing:
        raise Vacuity(f"RDKit bridge: molecule class x hydrogen options never enumerated: {missing}")
    for k, need in (("noH-open/eh=True/ah=None", "identity"), ("noH-open/eh=True/ah=True", "identity"),
                    ("noH-open/eh=None/ah=None", "hydrogens"), ("noH-open/eh=False/ah=True", "hydrogens"),
                    ("noH-open/eh=None/ah=False", "identity"), ("hasH/eh=None/ah=True", "identity"),
                    ("hasH/eh=False/ah=None", "refused")):
        if not combos[k].get(need):
            raise Vacuity(f"RDKit bridge: no enumerated case {k} with expectation '{need}': {combos[k]}")
    for what, pred in (("kekulize with an aromatic bond", lambda c: c["opt"]["kek"] and any(b[2] in (5, 6, 7, 9) for b in c["m"]["bonds"])),
                       ("use_dative_bonds with a COORDINATION bond", lambda c: c["opt"]["dative"] and any(b[2] == 8 for b in c["m"]["bonds"])),
                       ("conformer_id=0 on a stack", lambda c: c["opt"]["conf"] == "first" and c["nmodels"] > 1),
                       ("conformer_id='3D'", lambda c: c["opt"]["conf"] == "3D"),
                       ("a single model", lambda c: c["nmodels"] == 1)):
        if not any(pred(c) for c in rdcases):
            raise Vacuity(f"RDKit bridge: never enumerated: {what}")
    ocs, kbs, vers = {}, {}, {}
    for c in cases[:nctab]:
        ocs[c["exp"]["oc"]] = ocs.get(c["exp"]["oc"], 0) + 1
        for k in c["exp"]["kb"]:
            kbs[k] = kbs.get(k, 0) + 1
        if c["exp"]["oc"] == "ok":
            v = c["exp"]["lines"][0][33:39].strip()
            vers[v] = vers.get(v, 0) + 1
    ctx.cov["s2_expected_outcomes"] = ocs
    ctx.cov["s2_known_bad_inputs"] = kbs
    ctx.cov["s2_written_versions"] = vers
    if not {"ok", "Rejected"} <= set(ocs) or not {"V2000", "V3000"} <= set(vers):
        raise Vacuity(f"outcomes / versions not all enumerated: {ocs} {vers}")
    if not any(len(c["m"]["atoms"]) >= 1000 and c["version"] == "None" for c in cases[:nctab]):
        raise Vacuity("no molecule with >= 1000 atoms enumerated (version switch)")
    if not any(c.get("rd") for c in cases[:nctab]):
        raise Vacuity("no RDKit expectation enumerated")
    # each count of the counts line across its limit while the other one stays below it, in every version mode
    for what, pred in (("atoms >= 1000, bonds < 1000", lambda na, nb: na >= 1000 and nb < 1000),
                       ("atoms < 1000, bonds >= 1000", lambda na, nb: na < 1000 and nb >= 1000),
                       ("atoms < 100, bonds >= 1000", lambda na, nb: na < 100 and nb >= 1000),
                       ("atoms < 100, bonds = 999", lambda na, nb: na < 100 and nb == 999)):
        for v in ("None", "V2000", "V3000"):
            if not any(c["version"] == v and pred(len(c["m"]["atoms"]), len(c["m"]["bonds"])) for c in cases[:nctab]):
                raise Vacuity(f"count class not enumerated: {what}, version {v}")
    def is_big(c):
        return c["t"] == "ctab" and (len(c["m"]["atoms"]) > 100 or len(c["m"]["bonds"]) > 100)
    big = [c for c in cases if is_big(c)]
    small = [c for c in cases if not is_big(c)]
    small = [c for c in small if c["t"] != "rd"]
    items = [{"cases": [c]} for c in big] + [{"cases": ch} for ch in _chunks(small, 30)] + \
            [{"cases": ch} for ch in _chunks(rdcases, 100)]
    res = helpers.run_pool(ctx, "harness.drivers.c18:exec_cases", items, stage="S2", item_timeout=300)
    nexec = sum(r.get("n", 0) for r in res if r)
    diags = {}
    for r in res:
        for k, v in (r or {}).get("diag", {}).items():
            diags[k] = diags.get(k, 0) + v
    ctx.cov["s2_cases"] = nexec
    ctx.cov["s2_diagnostics"] = diags
    for k, v in sorted(diags.items()):
        ctx.note(f"diagnostic (not a verdict): {k} x{v}")
    ctx.traces_validated += nexec
    ctx.evaluations += nexec
    ctx.nontrivial += sum(1 for c in cases[:nctab] if c["exp"]["oc"] == "ok" and
                          (c["m"]["bonds"] or any(a["chg"] for a in c["m"]["atoms"])))
    ctx.nontrivial += sum(len(c.get("rd", [])) for c in cases[:nctab] if c["m"]["bonds"])
    ctx.nontrivial += sum(1 for c in sdcases if c["exp"]["oc"] == "ok" and
                          (len(c["recs"]) >= 2 or any(r["meta"] for r in c["recs"])))
    ctx.nontrivial += sum(1 for c in rdcases if c["exp"]["oc"] == "ok" and c["m"]["bonds"])
    ctx.cov["s2_rd_cases"] = len(rdcases)
    c = next(x for x in rdcases if x["exp"]["oc"] == "ok" and any(h > 0 for h in x["exp"]["hs"]))
    ctx.sample({"s2_rd_case": {"m": c["m"], "opt": c["opt"], "hs": c["exp"]["hs"]}})
    for c in [x for x in cases[:nctab] if x["exp"]["oc"] == "ok" and x["m"]["bonds"]][:2]:
        ctx.sample({"s2_case": {"m": c["m"], "version": c["version"], "lines": c["exp"]["lines"][:4]}})
    ctx.log(f"S2: {nexec} executions of {len(cases)} enumerated inputs")
    hist_stage(ctx, dotf)

    # ---------------------------------------------------------------- S3
    traces = [r["events"] for r in s3res if r and r.get("events")]
    validate(ctx, traces)
    bad = []
    for tr in traces:
        for ev in tr:
            if len(bad) >= 5:
                break
            e2 = json.loads(json.dumps(ev))
            if ev["op"] == "ctab" and ev["oc"] == "ok" and len(ev["m"]["atoms"]) < 50 and ev["lines"][0][33:39].strip() == "V2000" \
                    and not any(b["op"] == "ctab" for t in bad for b in t):
                e2["lines"][1] = e2["lines"][1][:9] + e2["lines"][1][10:31] + " " + e2["lines"][1][31:]   # shift y, z
                bad.append([e2])
            elif ev["op"] == "sd" and ev["oc"] == "ok" and ev["back"] and not any(b["op"] == "sd" for t in bad for b in t):
                e2["back"][0]["header"]["comments"] += "x"
                bad.append([e2])
            elif ev["op"] == "rd" and ev["oc"] == "ok" and ev["back"]["atoms"] and not any(b["op"] == "rd" for t in bad for b in t):
                e2["back"]["atoms"][0]["chg"] += 1
                bad.append([e2])
            elif ev["op"] == "rd" and ev["oc"] == "ok" and ev["opt"]["eh"] == "True" and ev["opt"]["conf"] != "first" \
                    and len(ev["back"]["atoms"]) == len(ev["m"]["atoms"]) and not any(b.get("corrupt") == "rd-h" for t in bad for b in t):
                # a hydrogen atom appears although every hydrogen was declared explicit
                e2["back"]["atoms"].append({"elem": "H", "chg": 0})
                e2["back"]["bonds"].append([0, len(ev["m"]["atoms"]), 1])
                e2["corrupt"] = "rd-h"
                bad.append([e2])
            elif ev["op"] == "hist" and ev["obs"] and ev["obs"][-1]["back"] and not any(b["op"] == "hist" for t in bad for b in t):
                # the last observation shows the record under the name it had when it was read
                e2["obs"][-1]["back"][0]["header"]["mol_name"] += "x"
                bad.append([e2])
    if bad:
        n_bad = validate(ctx, bad, selftest=True)
        if n_bad < len(bad):
            raise Vacuity(f"binding self-test: {len(bad)} corrupted events, {n_bad} rejected")
        ctx.cov["selftest_corrupted_rejected"] = n_bad


def _event_json(ev):
    if ev["op"] == "ctab":
        b = ev["back"]
        return {"op": "ctab", "m": explode_mol(ev["m"]), "version": ev["version"], "dflt": ev["dflt"], "oc": ev["oc"],
                "lines": [list(x) for x in ev["lines"]],
                "back": {"ok": b["ok"], "atoms": [{"elem": list(a["elem"]), "xyz": a["xyz"], "chg": a["chg"]} for a in b["atoms"]],
                         "bonds": b["bonds"]}}
    if ev["op"] == "rd":
        b = ev["back"]
        o = ev["opt"]
        return {"op": "rd", "m": explode_mol(ev["m"]), "nmodels": ev["nmodels"],
                "opt": {"eh": o["eh"], "ah": o["ah"], "kek": bool(o["kek"]), "dative": bool(o["dative"]), "conf": o["conf"]},
                "ring": bool(ev["ring"]), "oc": ev["oc"],
                "back": {"nmodels": b["nmodels"], "stack": bool(b["stack"]),
                         "atoms": [{"elem": list(a["elem"]), "chg": a["chg"]} for a in b["atoms"]],
                         "bonds": b["bonds"], "coords_same": b["coords_same"]}}
    def ex_back(rows):
        back = []
        for r in rows:
            x = explode_recs([{"header": r["header"], "ctab": r["ctab"], "meta": r["meta"]["items"]}])[0]
            m = r["mol"]
            back.append({"header": x["header"], "ctab": x["ctab"], "meta": {"ok": r["meta"]["ok"], "items": x["meta"]},
                         "mol": {"ok": m["ok"], "atoms": [{"elem": list(a["elem"]), "xyz": a["xyz"], "chg": a["chg"]} for a in m["atoms"]],
                                 "bonds": m["bonds"]}})
        return back
    if ev["op"] == "hist":
        return {"op": "hist", "recs": explode_recs(ev["recs"]), "loaded": bool(ev["loaded"]),
                "calls": [explode_call(c) for c in ev["calls"]],
                "obs": [{"oc": o["oc"], "keys": [list(k) for k in o["keys"]], "back": ex_back(o["back"])} for o in ev["obs"]]}
    return {"op": "sd", "recs": explode_recs(ev["recs"]), "oc": ev["oc"], "lines": [list(x) for x in ev["lines"]],
            "back": ex_back(ev["back"])}


def validate(ctx, traces, selftest=False):
    from harness.tlabind import tlc as T
    from harness.tlabind.tlaval import parse_value, to_py

    traces = [t for t in traces if t]
    if not traces:
        return 0
    jt = [[_event_json(ev) for ev in tr] for tr in traces]
    nmm, diags = 0, {}
    for lo in range(0, len(jt), 30):
        part = jt[lo:lo + 30]
        dd = T.scratch_dir("c18tr")
        tf = os.path.join(dd, "traces.json")
        with open(tf, "w") as f:
            json.dump(part, f)
        res = ctx.tlc("Trace", "Trace.cfg", stage="S3-selftest" if selftest else "S3", workers=1,
                      env={"TRACE_FILE": tf}, count=not selftest, timeout=2400)
        expect = sum(len(t) + 1 for t in part)
        if res.distinct != expect:
            raise RuntimeError(f"C18 S3: trace validation visited {res.distinct} states, expected {expect}")
        mms = [to_py(parse_value(x)) for x in T.printed_values(res.out, "MISMATCH")]
        for x in T.printed_values(res.out, "DIAG"):
            v = to_py(parse_value(x))
            diags[v[3]] = diags.get(v[3], 0) + 1
        nmm += len(mms)
        if selftest:
            continue
        for m in mms:
            _tag, tid, l, flags, kb, eoc = m[:6]
            ev = traces[lo + tid - 1][l - 1]
            names = {"ctab": ["oc", "lines", "readback"], "rd": ["oc", "atoms", "hydrogens", "bonds", "ring"],
                     "sd": ["oc", "names", "header", "meta", "ctab"],
                     "hist": ["oc", "keys", "names", "header", "meta", "ctab"]}[ev["op"]]
            failed = [n for n, f in zip(names, flags) if not f]
            rec = {"stage": "S3", "op": ev["op"], "failed": failed, "kb": sorted(kb), "err": ev.get("err", "")}
            if ev["op"] == "ctab":
                small = len(ev["m"]["atoms"]) <= 20
                rec.update(case={"m": ev["m"] if small else {"natoms": len(ev["m"]["atoms"])}, "version": ev["version"], "dflt": ev["dflt"]},
                           expected={"oc": eoc}, observed={"oc": ev["oc"], "lines": ev["lines"][:8], "back": ev["back"] if small else "(large)"})
                rec["kind"] = "write" if "oc" in failed else failed[0]
                if small:
                    rec["replay"] = {"m": ev["m"], "version": ev["version"], "dflt": ev["dflt"]}
            elif ev["op"] == "rd":
                n_in = len(ev["m"]["atoms"])
                rec.update(case={"m": ev["m"], "opt": ev["opt"], "dative": ev["opt"]["dative"], "nmodels": ev["nmodels"]},
                           observed=[b for b in ev["back"]["bonds"] if b[0] < n_in and b[1] < n_in])
                if failed == ["bonds"]:
                    rec["kind"] = "rd-bonds"
                    rec["expected"] = m[6]          # the spec's image sets, printed by TLC
                elif failed and failed[0] == "hydrogens":
                    rec["kind"] = "rd-hydrogens"
                    rec["expected"] = {"hs": m[7], "unspecified": -1}
                    rec["observed"] = {"atoms": ev["back"]["atoms"], "bonds": ev["back"]["bonds"]}
                else:
                    rec["kind"] = "rd-" + (failed[0] if failed else "event")
                    rec["expected"] = eoc
                    if failed and failed[0] != "oc":
                        rec["observed"] = ev["back"]
            elif ev["op"] == "hist":
                step = m[6]
                o = ev["obs"][step - 1]
                rec.update(kind="hist-" + (failed[0] if failed else "event"), step=step, loaded=ev["loaded"],
                           history=[dict(c, rec="(record)") if "rec" in c else c for c in ev["calls"][:step]],
                           expected={"oc": eoc},
                           observed={"oc": o["oc"], "keys": o["keys"], "err": o["err"],
                                     "headers": [r["header"] for r in o["back"]]},
                           replay={"recs": ev["recs"], "loaded": ev["loaded"], "calls": ev["calls"][:step]})
            else:
                rec.update(kind="sd-" + (failed[0] if failed else "event"), recs=ev["recs"], expected={"oc": eoc},
                           observed={"oc": ev["oc"], "lines": ev["lines"][:12]})
            ctx.mismatch(rec)
    if not selftest:
        ctx.cov["s3_diagnostics"] = diags
        for k, v in sorted(diags.items()):
            ctx.note(f"diagnostic (not a verdict), recorded executions: {k} x{v}")
        nev = sum(len(t) for t in traces)
        ctx.traces_validated += len(traces)
        ctx.evaluations += nev
        ctx.cov["s3_traces"] = len(traces)
        ctx.cov["s3_events"] = nev
        ops = {}
        for t in traces:
            for e in t:
                ops[e["op"]] = ops.get(e["op"], 0) + 1
        ctx.cov["s3_events_per_op"] = ops
        rdo = {}
        for t in traces:
            for e in t:
                if e["op"] == "rd":
                    has_h = any(a["elem"] == "H" for a in e["m"]["atoms"])
                    added = len(e["back"]["atoms"]) - len(e["m"]["atoms"]) if e["oc"] == "ok" else "refused"
                    k = f'eh={e["opt"]["eh"]}/ah={e["opt"]["ah"]}/{"hasH" if has_h else "noH"}/' + \
                        (added if added == "refused" else ("hydrogens added" if added > 0 else "same atoms"))
                    rdo[k] = rdo.get(k, 0) + 1
        ctx.cov["s3_rd_hydrogen_options"] = {k: rdo[k] for k in sorted(rdo)}
        ctx.cov["s3_max_atoms"] = max([len(e["m"]["atoms"]) for t in traces for e in t if e["op"] == "ctab"] + [0])
        ctx.cov["s3_refused"] = sum(1 for t in traces for e in t if e["oc"] != "ok")
        hcalls = {}
        for t in traces:
            for e in t:
                if e["op"] == "hist":
                    for c, o in zip(e["calls"], e["obs"]):
                        kk = c["c"] + ("" if o["oc"] == "ok" else " (refused)")
                        hcalls[kk] = hcalls.get(kk, 0) + 1
        ctx.cov["s3_history_calls"] = hcalls
        ctx.evaluations += sum(hcalls.values())
        ctx.nontrivial += sum(1 for t in traces for e in t if e["oc"] == "ok" and (
            (e["op"] == "ctab" and (e["m"]["bonds"] or any(a["chg"] for a in e["m"]["atoms"]))) or
            (e["op"] == "rd" and e["m"]["bonds"]) or
            (e["op"] == "sd" and (len(e["recs"]) >= 2 or any(r["meta"] for r in e["recs"]))) or
            (e["op"] == "hist" and len(e["calls"]) >= 2)))
        for t in traces[:1]:
            for e in t[:2]:
                ctx.sample({"s3_event": {k: (e[k] if k != "lines" else e[k][:5]) for k in e if k not in ("back",)}})
    return nmm


def replay(record):
    """Re-execute one stored mismatch record against the current code and let TLC judge it again."""
    from harness.tlabind import tlc as T
    from harness.tlabind.tlaval import parse_value, to_py

    warmup()
    kind = record.get("kind", "")
    c = record.get("replay") or record.get("case") or {}
    if kind.startswith("hist") and "calls" in c:
        ev = run_hist(c["recs"], c["loaded"], c["calls"])
    elif kind.startswith("rd") and "m" in c:
        ev = run_rd(c["m"], c["nmodels"], c.get("opt") or plain_opt(c["dative"]))
    elif kind.startswith("sd") and "recs" in record:
        ev = run_sd(record["recs"])
    elif "m" in c and "atoms" in c.get("m", {}):
        ev = run_ctab(c["m"], c["version"], c["dflt"])
    elif "chain" in c:
        return {"error": "large generated molecule: re-run the check (the S2 case is enumerated by MCMol.tla)", "case": c}
    else:
        return {"error": "record not replayable", "record": record}
    dd = T.scratch_dir("replay")
    tf = os.path.join(dd, "traces.json")
    with open(tf, "w") as f:
        json.dump([[_event_json(ev)]], f)
    res = T.run_tlc(os.path.join(T.VERIF, "specs", "C18"), "Trace", "Trace.cfg", workers=1, timeout=600,
                    env={"TRACE_FILE": tf})
    T.require_ok(res, "replay")
    mms = [to_py(parse_value(x)) for x in T.printed_values(res.out, "MISMATCH")]
    out = {"observed": {k: ev[k] for k in ev if k not in ("m", "recs")}, "mismatch": bool(mms)}
    if mms:
        out["failed_flags"] = mms[0][3]
        out["known_bad_predicates"] = mms[0][4]
        out["expected_outcome"] = mms[0][5]
    return out


MANIFEST = {
    "technique": "TLA+ reference codec of MDL connection tables (V2000 fixed columns, V3000 tokens), SD headers / metadata keys / records and the RDKit bridge (bond-type tables, a step-by-step model of to_mol / from_mol with their hydrogen, kekulize, dative and conformer options against a declarative option table) (specs/C18) model-checked by TLC; every TLC-enumerated input executed against MOLFile, SDFile and to_mol/from_mol; an SDFile as a mutable mapping with a history (SdHist/MCHist) whose state graph is replayed transition by transition; recorded random executions and histories re-computed by TLC",
    "level_text": "TLC enumerates one-atom molecules over element, coordinate (column-limit neighbours, ties) and charge classes (-15..15 and beyond), all bond types on 2- and 3-atom molecules with several default types, runs of charged atoms (M  CHG continuation), chains of 998..1001 atoms, 999 atoms with 1000 bonds and 45..200 atoms with 990..1203 bonds (each count of the counts line across its limit independently) in the three version modes, SD records over all key-component subsets, header width classes and 1-3 record files; the spec's invariants (round trip at 4 decimals, V2000 lines in their columns, version switch, implemented acceptance test = declarative fit except on named known-bad inputs, bond-type images, RDKit tables inverse on expressible types, header line 52 characters, key grammar round trip) hold on all of them; every input is executed against the real code (V2000 lines character by character, V3000 through the spec's reader, structures read back, RDKit round trips with 2 conformers); 48 molecules of the classes the hydrogen options distinguish (with hydrogen atoms, saturated or not; without hydrogen atoms and with an open valence; without and saturated / metals / ions; aromatic pairs and six-rings; COORDINATION bonds) are taken through to_mol(explicit_hydrogen None/True/False, kekulize, use_dative_bonds) x from_mol(add_hydrogen None/True/False, conformer_id None/'3D'/0) as stacks of 1-3 models (quick: 63 option combinations per molecule, thorough: all 108 and every two-atom molecule over 4 elements x 2 charges x 10 bond types), the step-by-step model agrees with the option table on all of them and every case is executed against the real bridge (identity on atoms where the table demands it, documented refusal, otherwise the molecule as prefix followed by singly bonded hydrogens whose number is decided for neutral C/N/O/halogen atoms with plain bonds); all histories of 2 (thorough: 3) calls out of reload, look at record / header / metadata, move to another name, insert a fresh or a parsed record, delete, set a header field, replace header / metadata, set / delete a metadata item, set the structure - starting from a freshly built and from a read two-record file - are enumerated with the lazy representation in the state, hold the invariants (write -> read is the identity, keys = molecule names, structures readable) and are replayed against the real SDFile with a write -> read observation after every call; seeded random molecules up to 1500 atoms, RDKit stacks of 1-4 models incl. aromatic six-rings with and without hydrogens under all nine pairs of hydrogen options in turn, random SD files and random histories of 3-8 calls are recorded and re-computed by TLC. Every RDKit round trip also checks the frame condition that to_mol / from_mol leave the caller's structure (bonds, coordinates, every annotation) unchanged; a changed argument is an outcome the specification never allows. Every second connection-table case of a batch is written into the MOLFile object of the previous case and read from that live object next to the re-parsed text (the content of a MOLFile is a function of the last structure set).",
    "level_note": "Bounded: exhaustive only over the enumerated classes; beyond them recorded random executions. Which Kekule structure RDKit picks is not decided (any valid one is accepted); the number of hydrogens RDKit adds where hydrogens are implicit is decided only for neutral C, N, O, F, Cl, Br atoms with plain bonds within their default valence (elsewhere only their shape: uncharged H, one SINGLE bond to an atom of the molecule); residue-level annotations through RDKit, conformer ids > 0 and '2D' selection, metadata values with empty or blank-padded lines or lines starting with '>' are outside the domain. Trusted: TLC, the TLA+ value parser, numpy, RDKit, the projection.",
}
