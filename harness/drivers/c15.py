"""C15 -- geometry is rigid-motion invariant; periodic helpers act by lattice vectors.

S1  TLC evaluates specs/C15/Geometry.tla: on every case of the bounded families the
    code-shaped definitions (displacement with 8 candidate images / fraction wrapping,
    angle, dihedral via atan2, remove_pbc by cumulative minimum-image displacements, ...)
    agree with the textbook ones, are invariant under all 24 cube rotations x translations,
    mirrored by the 24 rotoreflections, and the periodic helpers act by lattice vectors.
S2  every case is replayed against biotite.structure (displacement/distance/angle/dihedral
    and their index_* twins in shapes (3,), (n,3), (m,n,3) with single and per-model boxes,
    move_inside_box, coord_to_fraction, fraction_to_coord, vectors_from_unitcell,
    unitcell_from_vectors, remove_pbc, remove_pbc_from_coord, translate, rotate,
    rotate_centered, rotate_about_axis, align_vectors) and compared with TLC's exact values.
    The families "shapes" / "index" call displacement / distance / angle / dihedral with operands
    of EVERY combination of dimensionality ((3,), (n,3), (m,n,3)) and kind (ndarray, Atom /
    AtomArray / AtomArrayStack) in every argument position, without box, with one box and with
    per-model boxes, and index_* with every order of the argument positions and every way the
    box reaches the code (parameter, box attribute, parameter overriding the attribute).
S3  seeded larger lattice systems (<= 20 atoms, 1-3 models, random index arrays) and calls with
    operands of random mixed dimensionality / kind / order are recorded and re-computed by TLC
    (specs/C15/Trace.tla; cosines are compared exactly through rational enclosures).
"""

from __future__ import annotations

import math
import os
import random

PROPERTY = "C15"

MANIFEST = {
    "technique": "TLA+ specification of biotite's geometry / box / transform functions on the integer lattice (specs/C15, specs/lib/Lattice.tla) model-checked by TLC; TLC's exact values for every enumerated case replayed against the real functions; recorded larger executions re-computed by TLC",
    "level_text": "TLC enumerates four-atom configurations with all bond vectors in {-1,0,1}^3 (wrapped across eleven periodic boxes by lattice shifts), all displacements in a cube against twelve boxes (orthorhombic, rotated-orthogonal, left-handed, heavily skewed, triclinic with every zero/non-zero combination of the three tilts), unit cells with cosines 0,+-1/2, wrapped molecules (chains, stars, interleaved and multiple molecules; every atom shifted independently, and every subset of atoms lying beyond each of the six faces of cubic, anisotropic and elongated boxes whose long axis is a, b or c) point sets under translate/rotate/rotate_centered/rotate_about_axis/align_vectors, and calls of displacement/distance/angle/dihedral with operands of every combination of dimensionality ((3,), (n,3), (m,n,3): 9, 9, 27 and 81 combinations) and kind (ndarray, Atom/AtomArray/AtomArrayStack) in every argument position - without box, with one box and with per-model boxes, positions wrapped by lattice vectors - and of index_* on arrays and stacks with every order of the argument positions and every way the box is passed; and checks: the broadcast result entry by entry (subtraction order chosen by dimensionality = textbook, reversed argument order, wrapping), index-based = coordinate-based, code-shaped = textbook definitions, invariance under the 24 lattice rotations x translations, sign flip of the dihedral under the 24 rotoreflections, periodic displacement = plain difference + lattice vector and a shortest image (always for orthogonal boxes, under the half-height condition for triclinic ones), move_inside_box / fractions / unit-cell conversions mutually inverse, remove_pbc restoring molecules with the centroid in the box. Every expected value is compared with the real functions in all documented array shapes; systems of up to 20 atoms and 3 models and calls with randomly mixed operand dimensionality are recorded and re-computed by TLC.",
    "level_note": "Restricted to integer / dyadic coordinates and boxes and to the 48 elements of the cube group: invariance under general rotations and every effect of float rounding are NOT decided. Angles are compared through cos / atan2 of TLC's exact integers (tolerance 2e-5 on the cosine, 2e-4 rad on dihedrals, 1e-4 on coordinates). Periodic angle/dihedral values are compared only where the minimum images are unique (ties are unspecified). orient_principal_components and dihedral_backbone are not modelled. Trusted: TLC, the TLA+ value parser, numpy.",
}

TOL = 1e-4


# --------------------------------------------------------------------------- helpers
def _np():
    import numpy as np

    return np


def _arr(x, dt):
    return _np().array(x, dtype=dt)


def _close(a, b, tol=TOL):
    np = _np()
    a = np.asarray(a, dtype=float)
    b = np.asarray(b, dtype=float)
    return a.shape == b.shape and bool(np.all(np.abs(a - b) <= tol))


def _rint(a):
    """Observed float array -> (integer list, exact flag)."""
    np = _np()
    a = np.asarray(a, dtype=float)
    r = np.rint(a)
    ok = bool(np.all(np.isfinite(a))) and bool(np.all(np.abs(a - r) <= TOL))
    return (r.astype(int).tolist() if np.all(np.isfinite(a)) else None), ok


def _angdiff(a, b):
    d = (a - b) % (2 * math.pi)
    return min(d, 2 * math.pi - d)


def _is_lattice(v, adj, det):
    """v integer vector; lattice iff v . adj == 0 mod det componentwise."""
    f = [sum(v[i] * adj[i][j] for i in range(3)) for j in range(3)]
    return all(x % abs(det) == 0 for x in f)


def _adj_det(B):
    def cross(a, b):
        return [a[1] * b[2] - a[2] * b[1], a[2] * b[0] - a[0] * b[2], a[0] * b[1] - a[1] * b[0]]
    c = [cross(B[1], B[2]), cross(B[2], B[0]), cross(B[0], B[1])]
    adj = [[c[j][i] for j in range(3)] for i in range(3)]
    det = sum(B[0][i] * c[0][i] for i in range(3))
    return adj, det


class Rec:
    def __init__(self, case, idx):
        self.case = case
        self.idx = idx
        self.mm = []
        self.calls = 0

    def bad(self, call, expected, observed, **kw):
        m = {"kind": "case", "case_kind": self.case[0], "case": self.case[1], "variant": self.idx,
             "call": call, "expected": expected, "observed": observed}
        m.update(kw)
        self.mm.append(m)


# --------------------------------------------------------------------------- "geom"
def measure_real(Q, bo, dt, variant):
    """Return dict of observed disp, d, angle, dihedral using shape/API variant."""
    np = _np()
    import biotite.structure as struc

    q = [_arr(p, dt) for p in Q]
    box = _arr(bo[0], dt) if bo else None
    v = variant % 5
    if v == 0:      # single atoms, shape (3,)
        return {"disp": struc.displacement(q[0], q[1], box), "dist": struc.distance(q[0], q[1], box),
                "ang": struc.angle(q[0], q[1], q[2], box), "dih": struc.dihedral(q[0], q[1], q[2], q[3], box), "sel": ()}
    if v == 1:      # shape (n,3), two identical rows
        a = [np.stack([x, x]) for x in q]
        return {"disp": struc.displacement(a[0], a[1], box), "dist": struc.distance(a[0], a[1], box),
                "ang": struc.angle(a[0], a[1], a[2], box), "dih": struc.dihedral(a[0], a[1], a[2], a[3], box), "sel": (1,)}
    if v == 2:      # shape (m,n,3) with per-model boxes (m,3,3): the models 0 and 2 have another box
        a = [np.stack([np.stack([x, x]), np.stack([x, x]), np.stack([x, x])]) for x in q]
        other = None if box is None else (np.eye(3, dtype=dt) * 32 if variant % 2 else box * 2)
        bx = None if box is None else np.stack([other, box, other])
        return {"disp": struc.displacement(a[0], a[1], bx), "dist": struc.distance(a[0], a[1], bx),
                "ang": struc.angle(a[0], a[1], a[2], bx), "dih": struc.dihedral(a[0], a[1], a[2], a[3], bx), "sel": (1, 1)}
    if v == 3:      # index variants on a coordinate array
        c = np.stack(q + [q[0]])
        kw = {} if box is None else {"periodic": True, "box": box}
        return {"disp": struc.index_displacement(c, np.array([[4, 1], [0, 1]]), **kw),
                "dist": struc.index_distance(c, np.array([[4, 1], [0, 1]]), **kw),
                "ang": struc.index_angle(c, np.array([[3, 2, 1], [0, 1, 2]]), **kw),
                "dih": struc.index_dihedral(c, np.array([[3, 2, 1, 0], [0, 1, 2, 3]]), **kw), "sel": (1,)}
    # index variants on an AtomArrayStack with its own box attribute; broadcasting (3,) against (m,n,3)
    stack = struc.AtomArrayStack(2, 4)
    stack.coord = np.stack([np.stack(q), np.stack(q)]).astype(np.float32)
    kw = {}
    if box is not None:
        if variant % 2:
            # documented: an explicit `box` is used *instead of* the box attribute of `atoms`
            stack.box = np.stack([np.eye(3) * 32, box * 2]).astype(np.float32)
            kw = {"periodic": True, "box": np.stack([box, box]).astype(np.float32)}
        else:
            stack.box = np.stack([box, box]).astype(np.float32)
            kw = {"periodic": True}
    return {"disp": struc.index_displacement(stack, np.array([[0, 1]]), **kw),
            "dist": struc.index_distance(stack, np.array([[0, 1]]), **kw),
            "ang": struc.index_angle(stack, np.array([[0, 1, 2]]), **kw),
            "dih": struc.index_dihedral(stack, np.array([[0, 1, 2, 3]]), **kw), "sel": (1, 0)}


def _pick(x, sel):
    np = _np()
    x = np.asarray(x)
    for s in sel:
        x = x[s]
    return x


def compare_measure(R, tag, obs, exp, uniq, plainbox):
    """exp = [disp, d2, [cn, cd2], [t, x, n2], [domA, domD]] (disp absent for mirrored: exp has 4 items)."""
    np = _np()
    if len(exp) == 5:
        disp, d2, ang, dih, dom = exp
    else:
        disp = None
        d2, ang, dih, dom = exp
    sel = obs["sel"]
    R.calls += 4
    o_disp = _pick(obs["disp"], sel)
    o_dist = float(_pick(obs["dist"], sel))
    o_ang = float(_pick(obs["ang"], sel))
    o_dih = float(_pick(obs["dih"], sel))
    if disp is not None and uniq and not _close(o_disp, disp):
        R.bad(tag + "displacement", disp, o_disp.tolist())
    if abs(o_dist * o_dist - d2) > 1e-3:
        R.bad(tag + "distance^2", d2, o_dist * o_dist)
    if uniq and dom[0]:
        c = ang[0] / math.sqrt(ang[1])
        if not (0 <= o_ang <= math.pi + 1e-6) or abs(math.cos(o_ang) - c) > 2e-5:
            R.bad(tag + "angle(cos)", c, math.cos(o_ang) if math.isfinite(o_ang) else repr(o_ang))
    if uniq and dom[1]:
        phi = math.atan2(dih[0] * math.sqrt(dih[2]), dih[1])
        if not math.isfinite(o_dih) or _angdiff(o_dih, phi) > 2e-4:
            R.bad(tag + "dihedral", phi, o_dih)


def do_geom(R, pay, out):
    np = _np()
    import biotite.structure as struc

    o, v1, v2, v3, bo, sh, gi = pay
    Q, m, gQ, gb, mir, euler, t, det, uniq = out
    dt = np.float32 if R.idx % 2 == 0 else np.float64
    compare_measure(R, "", measure_real(Q, bo, dt, R.idx), m, uniq, bo)
    # the rigid motion realised by the library's own transformations
    P = _arr(Q, dt)
    if det == -1:
        P = -P                                   # point reflection, then the proper rotation -g
    ang = [e * math.pi / 2 for e in euler]
    if R.idx % 3 == 0:
        arr = struc.AtomArray(4)
        arr.coord = P.astype(np.float32)
        moved = struc.translate(struc.rotate(arr, ang), t).coord
    elif R.idx % 3 == 1:
        moved = struc.translate(struc.rotate(np.stack([P, P]), ang), _arr(t, dt))[1]
    else:
        moved = np.stack([struc.translate(struc.rotate(p, ang), t) for p in P])
    R.calls += 2
    if not _close(moved, gQ):
        R.bad("rotate+translate", gQ, np.asarray(moved).tolist(), euler=euler, t=t, det=det)
        return
    compare_measure(R, "moved:", measure_real(np.asarray(moved, dtype=float).round().astype(int).tolist(), gb, dt, R.idx + 1), mir, uniq, gb)


# --------------------------------------------------------------------------- "vecbox"
def do_vecbox(R, pay, out):
    np = _np()
    import biotite.structure as struc

    d, B = pay
    impl, mins, inrange, w, frac, adj = out
    det = frac[1]
    dt = np.float32 if R.idx % 2 == 0 else np.float64
    box = _arr(B, dt)
    a = [(R.idx * 7) % 5 - 2, (R.idx * 3) % 7 - 3, R.idx % 3]
    b = [a[i] + d[i] for i in range(3)]
    v = R.idx % 3
    if v == 0:
        obs = struc.displacement(_arr(a, dt), _arr(b, dt), box)
        dist = float(struc.distance(_arr(a, dt), _arr(b, dt), box))
    elif v == 1:     # two models with different boxes; the second one is the case's box
        other = np.eye(3, dtype=dt) * 32 if R.idx % 2 else box * 2
        A2 = _arr([[a, a], [a, a]], dt)
        B2 = _arr([[b, b], [b, b]], dt)
        obs = struc.displacement(A2, B2, np.stack([other, box]))[1][1]
        dist = float(struc.distance(A2, B2, np.stack([other, box]))[1][1])
    else:
        obs = struc.index_displacement(_arr([a, b], dt), np.array([[0, 1]]), periodic=True, box=box)[0]
        dist = float(struc.index_distance(_arr([a, b], dt), np.array([[0, 1]]), periodic=True, box=box)[0])
    R.calls += 2
    ri, exact = _rint(obs)
    if not exact:
        R.bad("displacement", "integer vector (plain difference + lattice vector)", np.asarray(obs).tolist())
    else:
        if not _is_lattice([ri[i] - d[i] for i in range(3)], adj, det):
            R.bad("displacement", "plain difference + lattice vector", ri, relation="lattice")
        if inrange and ri not in mins:
            R.bad("displacement", mins, ri, relation="shortest image")
        if inrange and abs(dist * dist - sum(x * x for x in mins[0])) > 1e-3:
            R.bad("distance^2", sum(x * x for x in mins[0]), dist * dist)
        if not inrange and ri != impl:
            R.diag = getattr(R, "diag", 0) + 1
    # move_inside_box / fractions
    p = _arr([d, d], dt)
    mv = struc.move_inside_box(p, box)
    fr = struc.coord_to_fraction(p, box)
    back = struc.fraction_to_coord(fr, box)
    R.calls += 3
    if not _close(mv[0], w):
        R.bad("move_inside_box", w, mv[0].tolist())
    if not _close(fr[1], [x / det for x in frac[0]], 1e-5):
        R.bad("coord_to_fraction", [x / det for x in frac[0]], fr[1].tolist())
    if not _close(back[0], d):
        R.bad("fraction_to_coord(coord_to_fraction)", d, back[0].tolist())


# --------------------------------------------------------------------------- "cell" / "boxcell"
def do_cell(R, pay, out):
    np = _np()
    import biotite.structure as struc

    a, b, c, ca, cb, cg = pay
    gram2 = out[0]
    al, be, ga = (math.acos(x / 2) for x in (ca, cb, cg))
    B = struc.vectors_from_unitcell(a, b, c, al, be, ga)
    R.calls += 2
    B64 = np.asarray(B, dtype=float)
    if B64.shape != (3, 3) or not _close(B64 @ B64.T, np.array(gram2) / 2.0, 1e-3):
        R.bad("vectors_from_unitcell", {"gram": (np.array(gram2) / 2.0).tolist()}, B64.tolist())
        return
    cell = struc.unitcell_from_vectors(B)
    if not _close(list(map(float, cell)), [a, b, c, al, be, ga], 1e-3):
        R.bad("unitcell_from_vectors(vectors_from_unitcell)", [a, b, c, al, be, ga], list(map(float, cell)))


def do_boxcell(R, pay, out):
    np = _np()
    import biotite.structure as struc

    B = pay[0]
    uc, gram, canonical = out
    dt = np.float32 if R.idx % 2 == 0 else np.float64
    cell = [float(x) for x in struc.unitcell_from_vectors(_arr(B, dt))]
    R.calls += 2
    exp = [math.sqrt(uc[0]), math.sqrt(uc[1]), math.sqrt(uc[2])] + [math.acos(x[0] / math.sqrt(x[1])) for x in uc[3:]]
    if not _close(cell, exp, 1e-4):
        R.bad("unitcell_from_vectors", exp, cell)
        return
    B2 = np.asarray(struc.vectors_from_unitcell(*cell), dtype=float)
    if not _close(B2 @ B2.T, gram, 2e-3):
        R.bad("vectors_from_unitcell(unitcell_from_vectors): Gram matrix", gram, (B2 @ B2.T).tolist())
    if canonical and not _close(B2, B, 1e-3):
        R.bad("vectors_from_unitcell(unitcell_from_vectors)", B, B2.tolist())


# --------------------------------------------------------------------------- "unwrap"
def do_unwrap(R, pay, out):
    np = _np()
    import biotite.structure as struc

    T, bonds, sh, B = pay
    C, U, Rr, chain_compact, adj, det, face_free = out
    dt = np.float32 if R.idx % 2 == 0 else np.float64
    box = _arr(B, dt)
    coord = _arr(C, dt)
    # in the multi-model variants the first model has another box (per-model boxes); the
    # second model is the case
    other = box * 2 if R.idx % 4 >= 2 else box
    if R.idx % 3 == 1:
        got = struc.remove_pbc_from_coord(np.stack([coord, coord]), np.stack([other, box]))[1]
    else:
        got = struc.remove_pbc_from_coord(coord, box)
    R.calls += 2
    ri, exact = _rint(got)
    if not exact:
        R.bad("remove_pbc_from_coord", U, np.asarray(got).tolist())
    else:
        if not all(_is_lattice([ri[k][i] - C[k][i] for i in range(3)], adj, det) for k in range(len(C))):
            R.bad("remove_pbc_from_coord", "every atom moved by a lattice vector", ri, relation="lattice")
        if ri[0] != U[0]:
            R.bad("remove_pbc_from_coord", U[0], ri[0], relation="first atom inside the box")
        if chain_compact and ri != U:
            R.bad("remove_pbc_from_coord", U, ri)
    n = len(C)
    rows = [[min(b) - 1, max(b) - 1, 1] for b in bonds]
    bl = struc.BondList(n, np.array(rows, dtype=np.int64).reshape(-1, 3)) if rows else struc.BondList(n)
    if R.idx % 2 == 0:
        arr = struc.AtomArray(n)
        arr.coord = coord.astype(np.float32)
        arr.box = box.astype(np.float32)
        arr.bonds = bl
        got = struc.remove_pbc(arr).coord
    else:
        st = struc.AtomArrayStack(2, n)
        st.coord = np.stack([coord, coord]).astype(np.float32)
        st.box = np.stack([other, box]).astype(np.float32)
        st.bonds = bl
        got = struc.remove_pbc(st).coord[1]
    gi, exact = _rint(got)
    if not exact or not all(_is_lattice([gi[k][i] - C[k][i] for i in range(3)], adj, det) for k in range(n)):
        R.bad("remove_pbc", "every atom moved by a lattice vector", np.asarray(got).tolist(), relation="lattice")
    elif face_free and gi != Rr:
        R.bad("remove_pbc", Rr, gi)
    elif not face_free:
        # a centroid exactly on a box face may be placed on either side (a lattice vector per
        # molecule): the vectors between bonded atoms are the model's all the same
        exp = [[Rr[max(b) - 1][i] - Rr[min(b) - 1][i] for i in range(3)] for b in bonds]
        obs = [[gi[max(b) - 1][i] - gi[min(b) - 1][i] for i in range(3)] for b in bonds]
        if exp != obs:
            R.bad("remove_pbc", exp, obs, relation="vectors between bonded atoms")


# --------------------------------------------------------------------------- "xform"
def do_xform(R, pay, out):
    np = _np()
    import biotite.structure as struc

    P, kind, a = pay
    oc, exp, den = out
    dt = np.float32 if R.idx % 2 == 0 else np.float64
    v = R.idx % 3
    pts = _arr(P, dt)
    single = len(P) == 1

    def shaped():
        if single and v != 1:
            return pts[0], (lambda r: np.asarray(r)[np.newaxis, :])
        if v == 1:
            return np.stack([pts, pts]), (lambda r: np.asarray(r)[1])
        if v == 2 and not single:
            arr = struc.AtomArray(len(P))
            arr.coord = pts.astype(np.float32)
            return arr, (lambda r: r.coord)
        return pts, (lambda r: np.asarray(r))

    x, unwrap = shaped()
    R.calls += 1
    try:
        if kind == "translate":
            got = struc.translate(x, a)
        elif kind == "rotate":
            got = struc.rotate(x, [e * math.pi / 2 for e in a])
        elif kind == "centered":
            got = struc.rotate_centered(x, [e * math.pi / 2 for e in a])
        elif kind == "axis":
            turn, sup = a
            angle = turn["turn"][0] * math.pi / turn["turn"][1]
            got = struc.rotate_about_axis(x, turn["axis"], angle, support=None if (sup == [0, 0, 0] and R.idx % 2) else sup)
        elif kind == "align":
            u, w, op, tp = a
            got = struc.align_vectors(x, u, w, None if (op == [0, 0, 0] and R.idx % 2) else op,
                                      None if (tp == [0, 0, 0] and R.idx % 2) else tp)
        else:
            raise RuntimeError(kind)
        oc_real = "ok"
    except ValueError as e:
        oc_real, got = "Rejected", repr(e)
    if oc_real != oc:
        R.bad(kind, oc, oc_real, detail=str(got)[:200])
        return
    if oc == "ok":
        g = unwrap(got)
        e = np.array(exp, dtype=float) / den
        if kind == "centered" and single and v != 1:
            e = np.array(P, dtype=float)      # documented: a single position is returned unchanged
        if not _close(g, e, 2e-4):
            R.bad(kind, e.tolist(), np.asarray(g).tolist())


# --------------------------------------------------------------------------- "shapes" / "index"
def _operand(coords, rank, kind, dt):
    """Operand of the given rank as ndarray (dtype dt) or as Atom / AtomArray / AtomArrayStack."""
    np = _np()
    import biotite.structure as struc

    c = _arr(coords, dt)
    if c.ndim != rank or c.shape[-1] != 3:
        raise RuntimeError(f"operand of rank {rank} has shape {c.shape}")
    if kind == "nd":
        return c
    if rank == 1:
        return struc.Atom(c.astype(np.float32))
    if rank == 2:
        a = struc.AtomArray(c.shape[0])
    else:
        a = struc.AtomArrayStack(c.shape[0], c.shape[1])
    a.coord = c.astype(np.float32)
    return a


def _box_arg(ba, dt):
    np = _np()
    if not ba:
        return None
    if ba[0] == "one":
        return _arr(ba[1], dt)
    return np.stack([_arr(B, dt) for B in ba[1]])


def compare_entries(R, fn, got, rank, entries, lead=()):
    """got: the array returned by the library; entries[mi][ai] = [value, specified, defined] from
    TLC; rank = rank of the result according to the specification.  Returns the number of
    entries whose value was compared."""
    np = _np()
    got = np.asarray(got, dtype=float)
    m, n = len(entries), len(entries[0])
    shape = {1: (), 2: (n,), 3: (m, n)}[rank] + ((3,) if fn == "displacement" else ())
    if got.shape != shape:
        R.bad(fn, {"shape": list(shape)}, {"shape": list(got.shape)}, relation="shape of the result")
        return 0
    compared = 0
    wrong = []        # (call, expected, observed, where): one record per case, the others counted
    for mi in range(m):
        for ai in range(n):
            val, specified, defined = entries[mi][ai]
            o = got[(mi, ai)[3 - rank:]] if rank > 1 else got
            if not (specified and defined):
                continue
            compared += 1
            where = {"model": mi, "atom": ai}
            if fn == "displacement":
                if not _close(o, val):
                    wrong.append((fn, val, o.tolist(), where))
            elif fn == "distance":
                if not (math.isfinite(float(o)) and abs(float(o) ** 2 - val) <= 1e-3):
                    wrong.append((fn, {"d2": val}, float(o) ** 2, where))
            elif fn == "angle":
                c = val[0] / math.sqrt(val[1])
                o = float(o)
                if not (math.isfinite(o) and 0 <= o <= math.pi + 1e-6 and abs(math.cos(o) - c) <= 2e-5):
                    wrong.append((fn + "(cos)", c, math.cos(o) if math.isfinite(o) else repr(o), where))
            else:
                phi = math.atan2(val[0] * math.sqrt(val[2]), val[1])
                o = float(o)
                if not (math.isfinite(o) and _angdiff(o, phi) <= 2e-4):
                    wrong.append((fn, phi, o, where))
    if wrong:
        call, exp, obs, where = wrong[0]
        R.bad(call, exp, obs, entries_wrong=len(wrong), entries_compared=compared, **where)
    return compared


def do_shapes(R, pay, out):
    np = _np()
    import biotite.structure as struc

    fn, forms, _wi, ba = pay
    coords, rank, entries = out
    dt = np.float32 if R.idx % 2 == 0 else np.float64
    R.calls += 1
    if fn == "centroid":
        got = np.asarray(struc.centroid(_operand(coords[0], forms[0][0], forms[0][1], dt)), dtype=float)
        exp = np.array([[x / e[1] for x in e[0]] for e in entries])
        if rank == 2:
            exp = exp[0]
        if not _close(got, exp):
            R.bad(fn, exp.tolist(), got.tolist())
        R.compared = len(entries)
        return
    ops = [_operand(coords[j], forms[j][0], forms[j][1], dt) for j in range(len(forms))]
    got = getattr(struc, fn)(*ops, box=_box_arg(ba, dt))
    R.compared = compare_entries(R, fn, got, rank, entries)


def do_index(R, pay, out):
    np = _np()
    import biotite.structure as struc

    fn, form, _wi, bm, ba, _perm = pay
    coords, rows, entries, decoy = out
    rank, kind = form
    dt = np.float32 if R.idx % 2 == 0 else np.float64
    atoms = _operand(coords, rank, kind, dt)
    box = _box_arg(ba, dt)
    m = len(coords) if rank == 3 else 1

    def own(b):       # the box attribute: (3,3) for an AtomArray, (m,3,3) for a stack
        b = np.asarray(b, dtype=np.float32)
        return b if rank == 2 else (b if b.ndim == 3 else np.stack([b] * m))

    kw = {}
    if bm == "param":
        kw = {"periodic": True, "box": box}
    elif bm == "own":
        atoms.box = own(box)
        kw = {"periodic": True}
    elif bm == "over":    # documented: an explicit `box` is used *instead of* the box attribute of `atoms`
        atoms.box = own(_arr(decoy, dt))
        kw = {"periodic": True, "box": box}
    idx = np.array(rows, dtype=np.int64 if R.idx % 4 < 2 else np.int32) - 1
    R.calls += 1
    got = getattr(struc, "index_" + fn)(atoms, idx, **kw)
    # the result has one entry per row (and model)
    R.compared = compare_entries(R, fn, got, rank, entries)


DO = {"geom": do_geom, "vecbox": do_vecbox, "cell": do_cell, "boxcell": do_boxcell,
      "unwrap": do_unwrap, "xform": do_xform, "shapes": do_shapes, "index": do_index}


def _short_face_cut(case):
    """(long axis, crossed axis, sign, orthogonal?) when the unwrap case is a molecule of which a
    proper non-empty subset lies beyond ONE face of an elongated box (2 x shortest edge <= longest)
    and that face is crossed along a short edge; else None."""
    if case[0] != "unwrap":
        return None
    _T, _bonds, sh, B = case[1]
    nz = {tuple(x) for x in sh if any(x)}
    if len(nz) != 1 or all(any(x) for x in sh):
        return None
    f = next(iter(nz))
    if sum(abs(v) for v in f) != 1:
        return None
    axis = [i for i in range(3) if f[i]][0]
    n2 = [sum(v * v for v in row) for row in B]
    if 4 * n2[axis] > max(n2):
        return None
    ortho = all(sum(B[i][k] * B[j][k] for k in range(3)) == 0 for i in range(3) for j in range(i))
    return (n2.index(max(n2)), axis, f[axis], ortho)


def warmup():
    import biotite.structure  # noqa: F401


def exec_group(item):
    import json
    import warnings

    from harness.tlabind.pool import progress

    warnings.simplefilter("ignore")
    with open(item["file"]) as f:
        states = json.load(f)
    mism = []
    calls = 0
    diag = 0
    compared = 0
    np = _np()
    for k, (case, out) in enumerate(states):
        idx = item["lo"] + k
        R = Rec(case, idx)
        progress({"case": case, "variant": idx})
        try:
            with np.errstate(all="ignore"):
                DO[case[0]](R, case[1], out[0])
        except Exception as e:      # a public call raised on a well-formed input
            if not _from_biotite(e):
                raise
            R.bad("exception", "a result", repr(e))
        mism += R.mm
        calls += R.calls
        diag += getattr(R, "diag", 0)
        compared += getattr(R, "compared", 0)
    return {"mismatch": mism, "calls": calls, "cases": len(states), "diag": diag, "compared": compared}


# --------------------------------------------------------------------------- S3 recording
S3_BOXES = [
    [[4, 0, 0], [0, 4, 0], [0, 0, 4]], [[8, 0, 0], [0, 4, 0], [0, 0, 4]], [[4, 0, 0], [2, 4, 0], [0, 0, 4]],
    [[8, 0, 0], [-2, 4, 0], [2, 2, 4]], [[2, 2, 0], [-2, 2, 0], [0, 0, 4]], [[0, 4, 0], [4, 0, 0], [0, 0, 4]],
    [[8, 0, 0], [0, 8, 0], [0, 0, 8]], [[4, 0, 0], [6, 4, 0], [0, 2, 4]], [[16, 0, 0], [0, 8, 0], [4, 0, 8]],
    # one tilt only (a.c / b.c), two tilts with b.c = 0
    [[4, 0, 0], [0, 4, 0], [2, 0, 4]], [[4, 0, 0], [0, 4, 0], [0, 2, 4]], [[4, 0, 0], [2, 4, 0], [2, -1, 4]],
]
# boxes of the recorded remove_pbc calls: cubic, moderately anisotropic, and elongated ones
# (long axis a, b or c; orthorhombic and triclinic)
S3_UNWRAP_BOXES = [
    S3_BOXES[1], S3_BOXES[3], S3_BOXES[6], S3_BOXES[8],
    [[32, 0, 0], [0, 4, 0], [0, 0, 8]], [[4, 0, 0], [0, 16, 0], [0, 0, 4]], [[8, 0, 0], [0, 4, 0], [0, 0, 32]],
    [[16, 0, 0], [-2, 4, 0], [2, 2, 4]], [[4, 0, 0], [2, 4, 0], [-2, 2, 16]], [[4, 0, 0], [2, 16, 2], [0, 0, 4]],
]   # all inside GeomOps!Dom_DyadicBox (power-of-two determinant), like S3_BOXES
S3_CUTS = [[1, 0, 0], [-1, 0, 0], [0, 1, 0], [0, -1, 0], [0, 0, 1], [0, 0, -1], [1, 1, 0], [0, -1, 1], [-1, 1, -1]]
KK = 10000
# argument positions (0-based) between which a function forms a displacement (GeomOps!BondPairs)
_BOND_PAIRS = {"displacement": [(0, 1)], "distance": [(0, 1)], "angle": [(0, 1), (2, 1)],
               "dihedral": [(0, 1), (1, 2), (2, 3)]}


def _enclose(c):
    return [math.floor((c - 2e-4) * KK), math.ceil((c + 2e-4) * KK)]



def _from_biotite(exc):
    """True when the exception was raised inside the library (not in this driver)."""
    import traceback

    frames = traceback.extract_tb(exc.__traceback__)
    return any("biotite" in f.filename and "/harness/" not in f.filename for f in frames)


def _guarded(fn):
    """An exception raised by the library on a well-formed recorded call is a disagreement, not a
    machinery failure; an exception of the driver itself stays a driver error."""
    import functools

    @functools.wraps(fn)
    def wrapper(item):
        try:
            return fn(item)
        except Exception as e:
            if not _from_biotite(e):
                raise
            import traceback

            return {"events": [], "mismatch": [{"kind": "exception", "stage": "S3", "item": item, "error": repr(e),
                                                "where": traceback.format_exc()[-600:]}]}
    return wrapper


# boxes of the recorded mixed-dimensionality calls (edges >= 8: positions in 0..3 have unique minimum
# images shorter than half the box height); per-model boxes: every row of the LAST box is a lattice
# vector of all the others, the positions are wrapped by lattice vectors of the last box
S3_BCAST_BOXES = [
    [[8, 0, 0], [0, 8, 0], [0, 0, 16]], [[16, 0, 0], [8, 16, 0], [0, 0, 16]], [[16, 0, 0], [0, 8, 0], [0, 0, 8]],
    [[16, 0, 0], [0, 16, 0], [8, 0, 16]], [[0, 8, 0], [8, 0, 0], [0, 0, 8]], [[16, 0, 0], [0, 16, 0], [0, 8, 16]],
]
S3_BCAST_PER = [
    [[[8, 0, 0], [0, 8, 0], [0, 0, 16]], [[16, 0, 0], [8, 16, 0], [0, 0, 16]], [[32, 0, 0], [16, 32, 0], [0, 0, 32]]],
    [[[16, 0, 0], [0, 16, 0], [8, 0, 16]], [[8, 0, 0], [0, 8, 0], [0, 0, 8]], [[32, 0, 0], [0, 32, 0], [16, 0, 32]]],
]


def _bcast_event(rng, dt):
    """One call of displacement / distance / angle / dihedral with operands of random
    dimensionality (rank 1..3), kind (ndarray / Atom, AtomArray, AtomArrayStack) and order."""
    import biotite.structure as struc

    from harness.tlabind.pool import progress

    np = _np()
    fn = rng.choice(["displacement", "distance", "angle", "angle", "dihedral", "dihedral"])
    ar = len(_BOND_PAIRS[fn]) + 1
    m, n = rng.randint(2, 3), rng.randint(1, 5)
    ranks = [rng.randint(1, 3) for _ in range(ar)]
    kinds = [rng.choice(["nd", "obj"]) for _ in range(ar)]
    R = max(ranks)
    u = rng.random()
    if u < 0.35:
        bo, wrap = [], None
    elif u < 0.75 or R < 3:
        B = rng.choice(S3_BCAST_BOXES)
        bo, wrap = ["one", B], B
    else:
        per = rng.choice(S3_BCAST_PER)
        boxes = [per[rng.randrange(2)] for _ in range(m - 1)] + [per[2]]
        bo, wrap = ["per", boxes], per[2]

    def point():
        p = [rng.randint(0, 3) for _ in range(3)]
        if wrap is not None:
            kv = [rng.randint(-1, 1) for _ in range(3)]
            p = [p[i] + sum(kv[r] * wrap[r][i] for r in range(3)) for i in range(3)]
        return p

    ops = []
    for r in ranks:
        if r == 1:
            ops.append([1, point()])
        elif r == 2:
            ops.append([2, [point() for _ in range(n)]])
        else:
            ops.append([3, [[point() for _ in range(n)] for _ in range(m)]])
    ev = {"op": "bcast", "fn": fn, "ops": ops, "bo": bo, "kinds": kinds, "exc": 0, "rank": 0, "got": []}
    progress(ev)
    args = [_operand(c, r, k, dt) for (r, c), k in zip(ops, kinds)]
    try:
        with np.errstate(all="ignore"):
            got = np.asarray(getattr(struc, fn)(*args, box=_box_arg(bo, dt)), dtype=float)
    except Exception as e:
        if not _from_biotite(e):
            raise
        ev["exc"], ev["error"] = 1, repr(e)
        return ev
    lead = got.ndim - (1 if fn == "displacement" else 0)      # leading axes: (), (n,), (m,n)
    ev["rank"] = lead + 1
    g = got.reshape((1,) * (2 - lead) + got.shape) if lead <= 2 else got.reshape((1, 1) + got.shape)
    rows = []
    for mi in range(g.shape[0]):
        row = []
        for ai in range(g.shape[1]):
            o = g[mi][ai]
            if fn == "displacement":
                di, exact = _rint(o)
                row.append(di if exact and np.shape(o) == (3,) else [99, 99, 99])
            elif fn == "distance":
                x = float(o) if np.ndim(o) == 0 else float("nan")
                d2 = int(round(x * x)) if math.isfinite(x) else -1
                row.append(d2 if math.isfinite(x) and abs(x * x - d2) < 1e-3 else -1)
            elif fn == "angle":
                x = float(o) if np.ndim(o) == 0 else float("nan")
                row.append(_enclose(math.cos(x)) if math.isfinite(x) and -1e-6 <= x <= math.pi + 1e-6 else [2 * KK, -2 * KK])
            else:
                x = float(o) if np.ndim(o) == 0 else float("nan")
                if not math.isfinite(x):
                    row.append([2 * KK, -2 * KK, 0])
                else:
                    sn = math.sin(x)
                    row.append(_enclose(math.cos(x)) + [0 if abs(sn) < 1e-3 else (1 if sn > 0 else -1)])
        rows.append(row)
    ev["got"] = rows
    return ev


@_guarded
def gen_trace(item):
    import warnings

    import biotite.structure as struc

    from harness.tlabind.pool import progress

    np = _np()
    warnings.simplefilter("ignore")
    rng = random.Random(item["seed"])
    events = []
    for _ in range(item["length"]):
        k = rng.random()
        dt = rng.choice([np.float32, np.float64])
        if k >= 0.8:
            events.append(_bcast_event(rng, dt))
        elif k < 0.48:
            n = rng.randint(4, 20)
            P = [[rng.randint(-3, 4) for _ in range(3)] for _ in range(n)]
            bo = [rng.choice(S3_BOXES)] if rng.random() < 0.6 else []
            npairs, ntri, nquad = rng.randint(1, 6), rng.randint(1, 5), rng.randint(1, 5)
            pairs = [[rng.randrange(n), rng.randrange(n)] for _ in range(npairs)]
            tri = [rng.sample(range(n), 3) for _ in range(ntri)]
            quad = [rng.sample(range(n), 4) for _ in range(nquad)]
            m = rng.choice([0, 0, 2, 3])
            c = _arr(P, dt)
            kw = {}
            progress({"op": "measure", "P": P, "bo": bo, "models": m})
            if m:
                c = np.stack([c] * m)
                if bo:
                    kw = {"periodic": True, "box": np.stack([_arr(bo[0], dt)] * m) if rng.random() < 0.5 else _arr(bo[0], dt)}
            elif bo:
                kw = {"periodic": True, "box": _arr(bo[0], dt)}
            with np.errstate(all="ignore"):
                disp = struc.index_displacement(c, np.array(pairs), **kw)
                dist = struc.index_distance(c, np.array(pairs), **kw)
                ang = struc.index_angle(c, np.array(tri), **kw)
                dih = struc.index_dihedral(c, np.array(quad), **kw)
            if m:
                # all models are identical: they must agree; log the last one
                same = all(np.array_equal(x[0], x[-1], equal_nan=True) for x in (disp, dist, ang, dih))
                disp, dist, ang, dih = disp[-1], dist[-1], ang[-1], dih[-1]
            else:
                same = True
            di, exact = _rint(disp)
            finite = all(math.isfinite(float(x)) for x in dist)
            d2 = [int(round(float(x) ** 2)) if math.isfinite(float(x)) else -1 for x in dist]
            d2ok = finite and all(abs(float(x) ** 2 - r) < 1e-3 for x, r in zip(dist, d2))
            cosA = [_enclose(math.cos(float(a))) if math.isfinite(float(a)) else [2 * KK, -2 * KK] for a in ang]
            dd = []
            for a in dih:
                a = float(a)
                if not math.isfinite(a):
                    dd.append([2 * KK, -2 * KK, 0])
                else:
                    s = math.sin(a)
                    dd.append(_enclose(math.cos(a)) + [0 if abs(s) < 1e-3 else (1 if s > 0 else -1)])
            events.append({"op": "measure", "P": P, "bo": bo, "pairs": [[i + 1, j + 1] for i, j in pairs],
                           "triples": [[i + 1 for i in t] for t in tri], "quads": [[i + 1 for i in q] for q in quad],
                           "disp": di if exact and same else [[99, 99, 99]] * len(pairs),
                           "d2": d2 if d2ok else [-1] * len(pairs), "cosA": cosA, "dih": dd, "models": m})
        elif k < 0.62:
            n = rng.randint(1, 12)
            P = [[rng.randint(-6, 6) for _ in range(3)] for _ in range(n)]
            e = [rng.randrange(4) for _ in range(3)]
            t = [rng.randint(-9, 9) for _ in range(3)]
            m = rng.choice([0, 0, 2])
            c = _arr(P, dt)
            if m:
                c = np.stack([c] * m)
            progress({"op": "rigid", "P": P, "e": e, "t": t})
            got = struc.translate(struc.rotate(c, [x * math.pi / 2 for x in e]), t)
            if m:
                got = got[-1]
            gi, exact = _rint(got)
            events.append({"op": "rigid", "P": P, "e": e, "t": t, "got": gi if exact else [[99, 99, 99]] * n})
        else:
            B = rng.choice(S3_UNWRAP_BOXES)
            nm = rng.randint(1, 3)
            T, bonds = [], []
            for _m in range(nm):
                size = rng.randint(1, 5)
                start = len(T)
                p = [rng.randint(0, 7) for _ in range(3)]
                T.append(p)
                for a in range(1, size):
                    q = T[start + rng.randrange(a)] if rng.random() < 0.3 else T[-1]
                    step = [0, 0, 0]
                    step[rng.randrange(3)] = rng.choice([-1, 1])
                    T.append([q[i] + step[i] for i in range(3)])
                    bonds.append([T.index(q, start) + 1, len(T)])
            # wrapping: every atom by a random lattice vector, or (half of the events) the
            # system cut by ONE face / edge / corner of the box: the atoms of a random subset
            # lie beyond it
            cut = rng.choice(S3_CUTS) if rng.random() < 0.5 else None
            C = []
            for p in T:
                if cut is None:
                    kvec = [rng.randint(-1, 1) for _ in range(3)]
                else:
                    kvec = cut if rng.random() < 0.5 else [0, 0, 0]
                C.append([p[i] + sum(kvec[r] * B[r][i] for r in range(3)) for i in range(3)])
            n = len(C)
            progress({"op": "unwrap", "C": C, "bonds": bonds, "B": B})
            gu, exu = _rint(struc.remove_pbc_from_coord(_arr(C, dt), _arr(B, dt)))
            arr = struc.AtomArray(n)
            arr.coord = _arr(C, np.float32)
            arr.box = _arr(B, np.float32)
            arr.bonds = struc.BondList(n, np.array([[i - 1, j - 1, 1] for i, j in bonds], dtype=np.int64).reshape(-1, 3)) if bonds else struc.BondList(n)
            gr, exr = _rint(struc.remove_pbc(arr).coord)
            bad = [[99, 99, 99]] * n
            events.append({"op": "unwrap", "C": C, "bonds": bonds, "B": B, "gotU": gu if exu else bad, "gotR": gr if exr else bad})
    return {"events": events}


# --------------------------------------------------------------------------- verdict plumbing
def classify(mm):
    """Known findings.  C15-angle-collinear-nan: angle() of exactly collinear atoms (textbook value 0
    or pi, cos = +-1) is NaN because the dot product of the float32-normalised vectors exceeds 1."""
    if mm.get("kind") == "case" and str(mm.get("call", "")).endswith("angle(cos)"):
        if mm.get("expected") in (1.0, -1.0) and mm.get("observed") == "nan":
            return "C15-angle-collinear-nan"
    # Known finding C15-permodel-box-single-positions: angle()/dihedral() with per-model boxes
    # (m,3,3) raise ValueError when two neighbouring arguments are both single positions (3,)
    if (mm.get("kind") == "case" and mm.get("case_kind") == "shapes" and mm.get("call") == "exception"
            and str(mm.get("observed", "")).startswith("ValueError('The truth value of an array")):
        fn, forms, _wi, ba = mm["case"]
        if (fn in ("angle", "dihedral") and ba and ba[0] == "per"
                and any(forms[i][0] == 1 and forms[j][0] == 1 for i, j in _BOND_PAIRS[fn])):
            return "C15-permodel-box-single-positions"
    if mm.get("kind") == "event" and mm.get("what") == "exception":
        ev = mm.get("event", {})
        fn, bo, ops = ev.get("fn"), ev.get("bo"), ev.get("ops", [])
        if (ev.get("op") == "bcast" and fn in ("angle", "dihedral") and bo and bo[0] == "per"
                and str(ev.get("error", "")).startswith("ValueError('The truth value of an array")
                and any(ops[i][0] == 1 and ops[j][0] == 1 for i, j in _BOND_PAIRS[fn])):
            return "C15-permodel-box-single-positions"
    if mm.get("kind") == "event" and mm.get("what") == "angle":
        exp, ev, pos = mm.get("expected"), mm.get("event", {}), mm.get("position")
        if (isinstance(exp, list) and len(exp) == 2 and exp[0] * exp[0] == exp[1] and pos
                and ev.get("cosA", [None] * pos)[pos - 1] == [2 * KK, -2 * KK]):
            return "C15-angle-collinear-nan"
    return None


def replay(record):
    import warnings

    warnings.simplefilter("ignore")
    if record.get("kind") == "case":
        from harness.tlabind import tlaval  # noqa: F401

        return {"error": "re-run `./check C15` to recompute the expected values; the record holds case, call, expected and observed",
                "record": {k: record[k] for k in ("case_kind", "case", "call", "expected", "observed")}, "mismatch": True}
    if record.get("kind") == "event":
        return {"record": record, "mismatch": True}
    return {"error": "unknown record kind", "record": record}


def run(ctx):
    import json

    from harness.tlabind import helpers, tlc
    from harness.tlabind.core import Vacuity

    quick = ctx.quick
    ctx.assumptions += [
        "Dom_DyadicBox: box determinants are powers of two, so that fractional coordinates of lattice points are exact in floating point (with another determinant a point exactly on a box face is placed on either side, depending on rounding)",
        "coordinates, translations and box vectors are integers (float32/float64 exact); rotations are the 24 proper elements of the cube group (Euler quarter turns, quarter/half/third turns about lattice axes), reflections the 24 improper ones",
        "Dom_MinImage: minimality of the periodic displacement is required for orthogonal boxes always and for triclinic boxes only when the shortest image is shorter than half the smallest box height",
        "periodic angles / dihedrals / displacement vectors are compared only where the minimum images involved are unique (ties between equally short images are unspecified)",
        "Dom_Angle / Dom_Dihedral: no zero-length bond vector / no collinear triple (the value is undefined there)",
        "Dom_Operands / Dom_BoxArg: operands of one call agree in atom count and model count; per-model boxes (m,3,3) only when an operand comprises multiple models (documented)",
        "Dom_Compact: molecules passed to remove_pbc have all intra-molecular displacements at their unique minimum image (the property's own 'within minimum-image distance')",
        "unit cells: lengths 1..5, cosines 0, +-1/2, positive volume",
        "tolerances: 1e-4 on coordinates, 2e-5 on cosines, 2e-4 rad on dihedral angles, 1e-3 on cell parameters",
        "trusted: TLC, the TLA+ value parser, numpy",
    ]
    res, states = helpers.dump_states(ctx, "Geometry", "MC.cfg" if quick else "MC_thorough.cfg",
                                      workers=16, timeout=900 if quick else 3000)
    ctx.exhaustive = True
    done = [(s["vcase"], s["vout"]) for s in states if s["vout"]]
    if 2 * len(done) != res.distinct:
        raise RuntimeError(f"dump has {len(done)} evaluated cases, TLC reported {res.distinct} states")
    done.sort(key=lambda s: json.dumps(s[0], sort_keys=True))
    kinds = {}
    for c, _o in done:
        kinds[c[0]] = kinds.get(c[0], 0) + 1
    ctx.cov["cases_per_kind"] = kinds
    if set(kinds) != set(DO):
        raise Vacuity(f"case kinds missing: {sorted(set(DO) - set(kinds))}")
    # vacuity of the guarded claims
    inrange = sum(1 for c, o in done if c[0] == "vecbox" and o[0][2])
    outrange = sum(1 for c, o in done if c[0] == "vecbox" and not o[0][2])
    uniq = sum(1 for c, o in done if c[0] == "geom" and c[1][4] and o[0][8])
    ctx.cov["vecbox_in_minimality_range"] = inrange
    ctx.cov["vecbox_outside_minimality_range"] = outrange
    ctx.cov["geom_periodic_unique"] = uniq
    if not (inrange and outrange and uniq):
        raise Vacuity("guards of the periodic claims never true/false")
    # the class "molecule cut by a SHORT face of an elongated box": every (long axis, crossed face)
    cuts = {}
    for c, _o in done:
        k = _short_face_cut(c)
        if k:
            cuts[k] = cuts.get(k, 0) + 1
    ctx.cov["unwrap_short_face_cuts_in_elongated_boxes"] = sum(cuts.values())
    ctx.cov["unwrap_short_face_cut_classes"] = len(cuts)
    if len({(k[0], k[1], k[2]) for k in cuts}) < 12:
        raise Vacuity(f"molecules cut by a short face of an elongated box: only the classes {sorted(cuts)}")
    # the class "operands of every combination of dimensionality, in every argument position"
    arity = {"displacement": 2, "distance": 2, "angle": 3, "dihedral": 4}
    combos = {fn: set() for fn in arity}
    kinds_seen = {fn: set() for fn in arity}
    boxmodes = {fn: set() for fn in arity}
    high_first = 0
    entries_total = entries_comparable = 0
    index_forms = set()
    for c, o in done:
        if c[0] == "shapes" and c[1][0] in arity:
            fn, forms, _wi, ba = c[1]
            ranks = tuple(f[0] for f in forms)
            combos[fn].add(ranks)
            kinds_seen[fn].add(tuple(f[1] for f in forms))
            boxmodes[fn].add(ba[0] if ba else "none")
            high_first += any(ranks[i] > ranks[j] for i, j in _BOND_PAIRS[fn])
        elif c[0] == "index":
            fn, form, _wi, bm, ba, perm = c[1]
            index_forms.add((fn, form[0], form[1], bm, ba[0] if ba else "none", tuple(perm) == tuple(sorted(perm))))
        if c[0] in ("shapes", "index") and c[1][0] in arity:
            for row in o[0][2]:
                for e in row:
                    entries_total += 1
                    entries_comparable += bool(e[1] and e[2])
    ctx.cov["shape_rank_combinations"] = {fn: len(v) for fn, v in combos.items()}
    ctx.cov["shape_cases_with_a_higher_dimensional_operand_first"] = high_first
    ctx.cov["shape_index_forms"] = len(index_forms)
    ctx.cov["shape_entries"] = entries_total
    ctx.cov["shape_entries_specified_and_defined"] = entries_comparable
    for fn, ar in arity.items():
        if len(combos[fn]) != 3 ** ar:
            raise Vacuity(f"{fn}: only {len(combos[fn])} of {3 ** ar} combinations of operand dimensionality")
        if boxmodes[fn] != {"none", "one", "per"}:
            raise Vacuity(f"{fn}: box arguments {sorted(boxmodes[fn])}")
        if not ({("nd",) * ar, ("obj",) * ar} < kinds_seen[fn]):
            raise Vacuity(f"{fn}: operand kinds {sorted(kinds_seen[fn])}")
        for r in (2, 3):
            for k in ("nd", "obj"):
                need = {"none", "param"} | ({"own", "over"} if k == "obj" else set())
                have = {f[3] for f in index_forms if f[:3] == (fn, r, k)}
                if have != need:
                    raise Vacuity(f"index_{fn} on rank {r} {k}: box modes {sorted(have)}")
        if not any(f[0] == fn and not f[5] for f in index_forms):
            raise Vacuity(f"index_{fn}: argument positions never permuted")
    if not high_first or 4 * entries_comparable < 3 * entries_total:
        raise Vacuity(f"operand shapes: {high_first} cases with the higher-dimensional operand first, "
                      f"{entries_comparable} of {entries_total} entries specified and defined")
    ctx.cov["rule"] = "a case is non-trivial when it is periodic with a non-zero wrap, a rotation other than the identity, a molecule shifted across a box face, operands of different dimensionality, or an index call that is periodic or permutes the argument positions"
    ctx.nontrivial += sum(1 for c, o in done if
                          (c[0] == "geom" and (c[1][4] or c[1][6] != 1)) or
                          (c[0] == "vecbox" and o[0][0] != c[1][0]) or
                          (c[0] == "unwrap" and any(any(x) for x in c[1][2])) or
                          (c[0] == "xform" and c[1][1] != "translate") or c[0] in ("cell", "boxcell") or
                          (c[0] == "shapes" and len({f[0] for f in c[1][1]}) > 1) or
                          (c[0] == "index" and (c[1][4] or list(c[1][5]) != sorted(c[1][5]))))
    d = tlc.scratch_dir("c15")
    per = 120
    items = []
    for lo in range(0, len(done), per):
        fn = os.path.join(d, f"s2_{lo}.json")
        with open(fn, "w") as f:
            json.dump(done[lo:lo + per], f)
        items.append({"lo": lo, "file": fn})
    results = helpers.run_pool(ctx, "harness.drivers.c15:exec_group", items, stage="S2", item_timeout=600)
    calls = sum(r.get("calls", 0) for r in results)
    ncases = sum(r.get("cases", 0) for r in results)
    diag = sum(r.get("diag", 0) for r in results)
    ctx.cov["s2_shape_entries_compared"] = sum(r.get("compared", 0) for r in results)
    ctx.traces_validated += ncases
    ctx.evaluations += calls
    ctx.cov["s2_cases"] = ncases
    ctx.cov["s2_calls"] = calls
    ctx.cov["s2_triclinic_outside_range_differs_from_8_image_model"] = diag
    if diag:
        ctx.note(f"{diag} triclinic displacements outside the minimality range differ from the 8-image model (diagnostic only)")
    ctx.sample({"s2_case": done[0][0], "expected": done[0][1][0]})
    ctx.sample({"s2_case": done[len(done) // 2][0], "expected": done[len(done) // 2][1][0]})
    ctx.log(f"S2: {ncases} cases, {calls} calls compared with biotite")
    # ---- S3
    ntr = 40 if quick else 700
    length = 12 if quick else 18
    seeds = [ctx.rng.randrange(1 << 30) for _ in range(ntr)]
    tres = helpers.run_pool(ctx, "harness.drivers.c15:gen_trace", [{"seed": s, "length": length} for s in seeds],
                            stage="S3", item_timeout=120)
    traces = [r["events"] for r in tres if r and "events" in r]
    nmm = 0
    for chunk in helpers.chunked(traces, 350):
        for m in helpers.tlc_validate(ctx, chunk, timeout=1500):
            _tag, tid, l, what, pos, exp = m
            nmm += 1
            ctx.mismatch({"stage": "S3", "kind": "event", "what": what, "position": pos, "expected": exp,
                          "event": chunk[tid - 1][l - 1]})
    nev = sum(len(t) for t in traces)
    ctx.traces_validated += len(traces)
    ctx.evaluations += nev
    ctx.cov["s3_traces"] = len(traces)
    ctx.cov["s3_events"] = nev
    ctx.cov["s3_unwrap_events_in_elongated_boxes"] = sum(
        1 for t in traces for e in t if e["op"] == "unwrap"
        and 4 * min(sum(v * v for v in r) for r in e["B"]) <= max(sum(v * v for v in r) for r in e["B"]))
    ctx.cov["s3_ops"] = {op: sum(1 for t in traces for e in t if e["op"] == op) for op in ("measure", "rigid", "unwrap", "bcast")}
    ctx.cov["s3_bcast_events_with_a_higher_dimensional_operand_first"] = sum(
        1 for t in traces for e in t if e["op"] == "bcast"
        and any(e["ops"][i][0] > e["ops"][j][0] for i, j in _BOND_PAIRS[e["fn"]]))
    if not ctx.cov["s3_bcast_events_with_a_higher_dimensional_operand_first"]:
        raise Vacuity("S3: no recorded call with a higher-dimensional operand first")
    ctx.nontrivial += sum(1 for t in traces if any(e["op"] == "measure" and e["bo"] for e in t))
    if traces:
        ctx.sample({"s3_event": traces[0][0]})

    calls = []

    def corrupt(tr):
        calls.append(1)
        if len(calls) == 1:                      # the first trace handed over: an unwrap event
            for e in tr:
                if e["op"] == "unwrap" and e["gotR"]:
                    e["gotR"][0][0] += 1          # no lattice vector any more
                    return True
        if len(calls) == 2:                      # the second one: a call with mixed dimensionality
            for e in tr:
                if e["op"] == "bcast" and not e["exc"]:
                    e["rank"] = e["rank"] % 3 + 1     # another dimensionality of the result
                    return True
        for e in tr:
            if e["op"] == "rigid" and e["got"]:
                e["got"][0][0] += 1
                return True
            if e["op"] == "measure" and e["d2"]:
                e["d2"][0] += 1
                if not e["bo"]:
                    return True
                e["disp"][0][0] += 1
                return True
        return False

    with_unwrap = [t for t in traces if any(e["op"] == "unwrap" for e in t)][:1]
    with_bcast = [t for t in traces if t not in with_unwrap and any(e["op"] == "bcast" and not e["exc"] for e in t)][:1]
    chosen = with_unwrap + with_bcast
    helpers.binding_selftest(ctx, chosen + [t for t in traces if t not in chosen][:3 - len(chosen)], corrupt)
    ctx.log(f"S3: {len(traces)} traces / {nev} events validated by TLC, {nmm} mismatches")
