"""C07 — PDB files round-trip structures and never emit shifted columns.

S1  TLC checks specs/C07: MCHybrid (hybrid-36: Dec(Enc(n)) = n, declarative enumeration order,
    refusals), MCAtom (one ATOM/HETATM record, every field through the boundary classes of its
    columns) and MCFile (models, CRYST1, CONECT scenarios) -- invariants RoundTrip, Columns,
    Acceptance (implemented digit test = "every field fits" except on the KB_* inputs), Models, Bonds.
S2  every input enumerated by TLC is executed against the real code: encode_hybrid36 /
    decode_hybrid36, PDBFile.set_structure (ATOM/HETATM lines compared character by character with
    the spec's line, refusals with the spec's "Rejected"), PDBFile.read + get_structure /
    get_structure(model=k) compared with the spec's reader.
S3  seeded random structures (<= 60 atoms, 1..3 models, bonds with the synthetic CCD, hybrid-36,
    values on and off the column limits) and random hybrid-36 numbers are recorded and re-computed
    event by event by TLC (specs/C07/Trace.tla); the written CONECT records are judged there too.
"""

from __future__ import annotations

import io
import json
import os
import random
import re
import warnings

PROPERTY = "C07"
CCD = "/verif/fixtures/ccd/components_synth.bcif"
TEXT_FIELDS = ("name", "resn", "chain", "icode", "elem")
EXTRA = ["atom_id", "b_factor", "occupancy", "charge"]
BIG = 2000000000  # projection of a non-finite number read back (never equal to a spec value)

FINDING = {
    "RoundCarry": "C07-round-carry-shifts-columns",
    "NegativeId": "C07-negative-number-overflows-column",
    "UncheckedWidth": "C07-unchecked-icode-element-width",
    "CrystOverflow": "C07-cryst1-overflow",
    "EmptyChain": "C07-empty-chain-shifts-columns",
}
REFUSAL_KB = ("RoundCarry", "NegativeId", "UncheckedWidth", "CrystOverflow")


# --------------------------------------------------------------------------- value mapping
def txt(v):
    """Spec text (list of characters, or an already collapsed str) -> str."""
    if isinstance(v, str):
        return v
    return "".join(v)


def rat(r):
    n, d = r
    if d == 0:
        return float("nan") if n == 0 else (float("inf") if n > 0 else float("-inf"))
    return n / d


def units(v, d):
    v = float(v)
    if v != v or v in (float("inf"), float("-inf")):
        return BIG
    return int(round(v * 10 ** d))


def norm_S(S):
    """Texts as str (the Python-side canonical form of a structure)."""
    S = json.loads(json.dumps(S))
    for a in S["atoms"]:
        for k in TEXT_FIELDS:
            a[k] = txt(a[k])
    return S


def explode_S(S):
    """Texts as lists of characters (the shape Trace.tla expects)."""
    S = json.loads(json.dumps(S))
    for a in S["atoms"]:
        for k in TEXT_FIELDS:
            a[k] = list(a[k])
    return S


# --------------------------------------------------------------------------- real side
_ready = False


def warmup():
    global _ready
    if not _ready:
        import biotite.structure  # noqa: F401
        import biotite.structure.info as info
        import biotite.structure.io.pdb  # noqa: F401

        info.set_ccd_path(CCD)
        _ready = True


def build(S, stack1=False):
    """Structure of the spec -> AtomArray / AtomArrayStack (exactly the same numbers)."""
    import numpy as np
    import biotite.structure as struc

    warmup()
    atoms, models, o = S["atoms"], S["models"], S["opt"]
    n, M = len(atoms), len(models)
    as_stack = M > 1 or stack1
    arr = struc.AtomArrayStack(M, n) if as_stack else struc.AtomArray(n)

    def sarr(key, width):
        vals = [a[key] for a in atoms]
        w = max([width] + [len(v) for v in vals])
        return np.array(vals, dtype=f"U{w}")

    arr.set_annotation("chain_id", sarr("chain", 4))
    arr.set_annotation("res_id", np.array([a["resi"] for a in atoms], dtype=int))
    arr.set_annotation("ins_code", sarr("icode", 1))
    arr.set_annotation("res_name", sarr("resn", 5))
    arr.set_annotation("hetero", np.array([bool(a["het"]) for a in atoms], dtype=bool))
    arr.set_annotation("atom_name", sarr("name", 6))
    arr.set_annotation("element", sarr("elem", 2))
    if o["ids"]:
        arr.set_annotation("atom_id", np.array([a["serial"] for a in atoms], dtype=int))
    if o["bf"]:
        arr.set_annotation("b_factor", np.array([rat(a["bf"]) for a in atoms], dtype=float))
    if o["occ"]:
        arr.set_annotation("occupancy", np.array([rat(a["occ"]) for a in atoms], dtype=float))
    if o["chg"]:
        arr.set_annotation("charge", np.array([a["chg"] for a in atoms], dtype=int))
    coord = np.array([[[rat(c) for c in xyz] for xyz in m] for m in models], dtype=np.float64)
    c32 = coord.astype(np.float32)
    if not np.array_equal(c32.astype(np.float64), coord, equal_nan=True):
        raise AssertionError("driver: coordinate not representable as float32")
    arr.coord = c32 if as_stack else c32[0]
    if S["box"]:
        b = np.diag([rat(x) for x in S["box"][0]]).astype(np.float32)
        arr.box = np.stack([b] * M) if as_stack else b
    if S["bonds"]:
        rows = np.array(S["bonds"][0], dtype=np.int64).reshape(-1, 3)
        arr.bonds = struc.BondList(n, rows) if len(rows) else struc.BondList(n)
    return arr


# "live object" histories: one PDBFile is kept across all cases of a pool item (the pool forks per
# item), so every set_structure() meets an object that already holds the previous structure and has
# served model=None reads; the specification judges each event from its own structure only, i.e. the
# content of a file is a function of the last structure set (PdbFile.tla, "history independence").
_LIVE = {"f": None}


def do_write(S, stack1=False, live=False):
    """-> (oc, lines, text)."""
    from biotite.structure.io.pdb import PDBFile

    arr = build(S, stack1)
    f = (_LIVE["f"] or PDBFile()) if live else PDBFile()
    _LIVE["f"] = None
    try:
        with warnings.catch_warnings():
            warnings.simplefilter("ignore")
            f.set_structure(arr, hybrid36=bool(S["opt"]["h36"]))
    except Exception as e:  # the property does not name the exception class
        return "Rejected", [], "", f"{type(e).__name__}: {e}"[:200]
    out = io.StringIO()
    f.write(out)
    if live:
        _LIVE["f"] = f
    return "ok", [str(x) for x in f.lines], out.getvalue(), ""


def _proj_atoms(arr):
    cats = arr.get_annotation_categories()
    out = []
    for i in range(arr.array_length()):
        out.append({
            "het": bool(arr.hetero[i]), "serial": int(arr.atom_id[i]) if "atom_id" in cats else 0,
            "name": str(arr.atom_name[i]), "resn": str(arr.res_name[i]), "chain": str(arr.chain_id[i]),
            "resi": int(arr.res_id[i]), "icode": str(arr.ins_code[i]), "elem": str(arr.element[i]),
            "chg": int(arr.charge[i]) if "charge" in cats else 0,
            "occ": units(arr.occupancy[i], 2) if "occupancy" in cats else 0,
            "bf": units(arr.b_factor[i], 2) if "b_factor" in cats else 0,
        })
    return out


def _xyz(coord2d):
    return [[units(v, 3) for v in row] for row in coord2d.tolist()]


EMPTY_BACK = {"ok": False, "nmodels": 0, "atoms": [], "coords": [], "box": [], "bonds": [], "err": ""}


def do_read(text, S, live=False):
    """PDBFile.read + get_structure(all models, all extra fields, bonds when written); in a live
    history the object that was written is read instead of a re-parsed one."""
    import numpy as np
    import biotite.structure as struc
    from biotite.structure.io.pdb import PDBFile

    try:
        with warnings.catch_warnings():
            warnings.simplefilter("ignore")
            f = _LIVE["f"] if live and _LIVE["f"] is not None else PDBFile.read(io.StringIO(text))
            st = f.get_structure(model=None, extra_fields=EXTRA, include_bonds=bool(S["bonds"]))
            nm = int(f.get_model_count())
            cc = f.get_coord()
            bb = f.get_b_factor()
    except Exception as e:
        return dict(EMPTY_BACK, err=f"{type(e).__name__}: {e}"[:200])
    back = {"ok": True, "nmodels": nm, "atoms": _proj_atoms(st),
            "coords": [_xyz(st.coord[m]) for m in range(st.stack_depth())], "box": [], "bonds": [], "err": ""}
    # the coordinate-only and B-factor-only readers must agree with get_structure
    if [_xyz(cc[m]) for m in range(cc.shape[0])] != back["coords"]:
        back["ok"] = False
        back["err"] = "get_coord() differs from get_structure().coord"
    if S["opt"]["bf"] and [[units(v, 2) for v in row] for row in bb.tolist()] != \
            [[a["bf"] for a in back["atoms"]] for _ in range(nm)]:
        back["ok"] = False
        back["err"] = "get_b_factor() differs from get_structure().b_factor"
    if st.box is not None:
        if any(not np.array_equal(st.box[0], st.box[m]) for m in range(st.stack_depth())):
            back["ok"] = False
            back["err"] = "boxes of the models differ"
        a, b, c, al, be, ga = struc.unitcell_from_vectors(st.box[0])
        back["box"] = [{"len": [units(a, 3), units(b, 3), units(c, 3)],
                        "ang": [units(np.rad2deg(al), 2), units(np.rad2deg(be), 2), units(np.rad2deg(ga), 2)]}]
    if st.bonds is not None:
        back["bonds"] = sorted([int(i), int(j), int(t)] for i, j, t in st.bonds.as_array().tolist())
    return back


def do_select(text, M):
    from biotite.structure.io.pdb import PDBFile

    sel = []
    with warnings.catch_warnings():
        warnings.simplefilter("ignore")
        f = PDBFile.read(io.StringIO(text))
        for k in range(-M - 1, M + 2):
            try:
                st = f.get_structure(model=k)
                cc = f.get_coord(model=k)
                x1, x2 = _xyz(st.coord), _xyz(cc)
                if x1 != x2:
                    sel.append({"k": k, "oc": "ok", "xyz": [], "err": "get_coord(model) differs from get_structure(model)"})
                else:
                    sel.append({"k": k, "oc": "ok", "xyz": x1})
            except Exception as e:
                sel.append({"k": k, "oc": "Rejected", "xyz": [], "err": f"{type(e).__name__}"})
    return sel


def run_case(S, stack1=False, live=False):
    """Execute one structure against the real code; returns the observed event."""
    oc, lines, text, err = do_write(S, stack1, live)
    ev = {"op": "file", "S": S, "oc": oc, "lines": lines, "err": err,
          "back": dict(EMPTY_BACK), "sel": []}
    if oc == "ok":
        ev["back"] = do_read(text, S, live)
        try:
            ev["sel"] = do_select(text, len(S["models"]))
        except Exception as e:
            ev["sel"] = []
            ev["back"] = dict(ev["back"], ok=False, err=f"select: {type(e).__name__}: {e}"[:200])
    return ev


def run_h36(n, w):
    from biotite.structure.io.pdb.hybrid36 import decode_hybrid36, encode_hybrid36

    try:
        s = encode_hybrid36(int(n), int(w))
    except Exception:
        return {"op": "h36", "n": n, "w": w, "oc": "Rejected", "s": "", "dec": 0}
    try:
        d = int(decode_hybrid36(s.rjust(w)))
        d2 = int(decode_hybrid36(s))
        if d2 != d:
            d = -BIG
    except Exception:
        d = -BIG
    return {"op": "h36", "n": n, "w": w, "oc": "ok", "s": s, "dec": d}


# --------------------------------------------------------------------------- comparison with TLC's values
def is_atom_line(s):
    return s.startswith(("ATOM", "HETATM"))


def atom_eq(g, x):
    for k in ("het", "serial", "name", "resn", "chain", "resi", "icode", "chg", "occ", "bf"):
        if g[k] != x[k]:
            return k
    if x["elem"] != "" and g["elem"] != x["elem"]:  # Dom_Element: empty element is re-guessed
        return "elem"
    return None


def compare(S, exp, ev):
    """exp: spec values (PdbFile!Expect, texts collapsed to str); ev: observed event.
    Returns (mismatch records, diagnostics)."""
    mm, diag = [], []
    base = {"S": S, "kb": exp["kb"], "lenient": exp["lenient"]}
    if ev["oc"] != exp["oc"] and not (exp["lenient"] and ev["oc"] == "Rejected"):
        mm.append(dict(base, kind="write", expected={"oc": exp["oc"], "lines": exp["lines"]},
                       observed={"oc": ev["oc"], "lines": ev["lines"], "err": ev.get("err", "")}))
        return mm, diag
    if ev["oc"] != "ok" or exp["oc"] != "ok":
        if ev["oc"] != exp["oc"]:
            diag.append("lenient-refusal")
        return mm, diag
    ea = [x for x in exp["lines"] if is_atom_line(x)]
    oa = [x for x in ev["lines"] if is_atom_line(x)]
    if ea != oa:
        bad = [i for i in range(max(len(ea), len(oa))) if i >= len(ea) or i >= len(oa) or ea[i] != oa[i]]
        mm.append(dict(base, kind="atomline", index=bad[0],
                       expected={"line": ea[bad[0]] if bad[0] < len(ea) else None, "n": len(ea)},
                       observed={"line": oa[bad[0]] if bad[0] < len(oa) else None, "n": len(oa)}))
        return mm, diag  # the reader did not see the expected records: nothing more to learn
    if [x.rstrip() for x in exp["lines"]] != [x.rstrip() for x in ev["lines"]]:
        diag.append("other-lines-differ")
    if S["bonds"] and not exp["dom"]:
        return mm, diag  # outside Dom_BondIds / Dom_Ids the reader may refuse the serial numbers
    g, x = ev["back"], exp["back"]
    bad = None
    if not g["ok"]:
        bad = "read failed: " + g.get("err", "")
    elif g["nmodels"] != x["nmodels"]:
        bad = "nmodels"
    elif len(g["atoms"]) != len(x["atoms"]):
        bad = "atom count"
    else:
        for i, (ga, xa) in enumerate(zip(g["atoms"], x["atoms"])):
            k = atom_eq(ga, xa)
            if k:
                bad = f"atom {i} field {k}"
                break
        if not bad and g["coords"] != x["coords"]:
            bad = "coords"
        if not bad and exp["domBox"] and len(g["box"]) != len(x["box"]):
            bad = "box presence"
        if not bad and exp["domBox"] and x["box"] and (g["box"][0]["len"] != x["box"][0]["len"] or g["box"][0]["ang"] != x["box"][0]["ang"]):
            bad = "box"
    if bad:
        mm.append(dict(base, kind="readback", what=bad, expected=x, observed=g))
        return mm, diag
    if S["bonds"] and exp["dom"]:
        got = sorted({(b[0], b[1]) for b in g["bonds"]})
        carry = sorted(tuple(p) for p in x["bonds"]["carry"])
        upper = {tuple(p) for p in x["bonds"]["upper"]}
        if not set(carry) <= set(got) or not set(got) <= upper:
            mm.append(dict(base, kind="bonds", expected=x["bonds"], observed=g["bonds"]))
        elif sorted(map(tuple, g["bonds"])) != sorted(map(tuple, x["bonds"]["exact"])):
            diag.append("bond-types-differ")
    M = len(S["models"])
    for s in ev["sel"]:
        k = s["k"]
        e = exp["sel"][k + M + 1]
        if k != 0 and -M <= k <= M:
            if s["oc"] != e["oc"] or s["xyz"] != e["xyz"]:
                mm.append(dict(base, kind="select", model=k, expected=e, observed=s))
        elif s["oc"] != "Rejected":
            diag.append(f"model-number-out-of-range-accepted:{k}")
    return mm, diag


# --------------------------------------------------------------------------- pool workers
def exec_cases(item):
    """S2: run TLC-enumerated structures; compare with the spec's values."""
    from harness.tlabind.pool import progress

    mism, events, diags = [], [], {}
    n = 0
    for case in item["cases"]:
        S, exp = case["S"], case["exp"]
        progress({"S": S, "kb": exp["kb"]})
        ev = run_case(S, stack1=case.get("stack1", False), live=bool(item.get("live")))
        n += 1
        mm, dg = compare(S, exp, ev)
        mism += mm
        for d in dg:
            diags[d] = diags.get(d, 0) + 1
        if S["bonds"]:
            events.append(ev)
    return {"mismatch": mism, "n": n, "events": events, "diag": diags}


def exec_h36(item):
    """S2: hybrid-36 numbers / blocks enumerated by TLC."""
    from biotite.structure.io.pdb.hybrid36 import decode_hybrid36, encode_hybrid36
    from harness.tlabind.pool import progress

    mism = []
    n = 0
    for kind, w, a, ok, s in item["cases"]:
        progress({"h36": [kind, w, a]})
        if kind == "num":
            r = run_h36(a, w)
            n += 1
            exp_oc = "ok" if ok else "Rejected"
            if r["oc"] != exp_oc or (ok and (r["s"] != s or r["dec"] != a)):
                mism.append({"kind": "h36", "n": a, "w": w, "expected": {"oc": exp_oc, "s": s, "dec": a},
                             "observed": r})
        else:  # block: s = concatenation of the right-justified numerals of a*B .. a*B+len-1
            B = item["block"]
            cnt = len(s) // w
            n += cnt
            got = []
            for k in range(cnt):
                v = a * B + k
                t = encode_hybrid36(v, w)
                got.append(t.rjust(w))
                if decode_hybrid36(t) != v or decode_hybrid36(t.rjust(w)) != v:
                    mism.append({"kind": "h36", "n": v, "w": w, "expected": {"dec": v},
                                 "observed": {"s": t, "dec": int(decode_hybrid36(t))}})
            if "".join(got) != s:
                k = next(i for i in range(cnt) if got[i] != s[i * w:(i + 1) * w])
                mism.append({"kind": "h36", "n": a * B + k, "w": w,
                             "expected": {"s": s[k * w:(k + 1) * w]}, "observed": {"s": got[k]}})
    return {"mismatch": mism, "n": n}


def record_cases(item):
    """S3: run seeded random structures / numbers; return the observed events."""
    from harness.tlabind.pool import progress

    rng = random.Random(item["seed"])
    events = []
    for _ in range(item["count"]):
        if rng.random() < item.get("p_h36", 0.2):
            w = rng.choice([4, 5, 4, 5, 3, 1, 2])
            top = 10 ** w + 52 * 36 ** (w - 1)
            n = rng.choice([rng.randrange(top), rng.randrange(10 ** w, top), rng.randrange(top - 40, top + 40),
                            rng.randrange(-3, 10 ** w + 40)])
            progress({"h36": [w, n]})
            events.append(run_h36(n, w))
        else:
            S = gen_structure(rng, item.get("max_atoms", 12))
            progress({"S": S})
            events.append(run_case(S, stack1=rng.random() < 0.3, live=bool(item.get("live"))))
    return {"events": events}


# --------------------------------------------------------------------------- S3 generator
RESIDUES = {
    "ALA": (False, [("N", "N"), ("CA", "C"), ("C", "C"), ("O", "O"), ("CB", "C"), ("OXT", "O")]),
    "GLY": (False, [("N", "N"), ("CA", "C"), ("C", "C"), ("O", "O")]),
    "SER": (False, [("N", "N"), ("CA", "C"), ("C", "C"), ("O", "O"), ("CB", "C"), ("OG", "O")]),
    "DA": (False, [("P", "P"), ("OP1", "O"), ("O5'", "O"), ("C5'", "C"), ("C3'", "C"), ("O3'", "O")]),
    "DG": (False, [("P", "P"), ("OP1", "O"), ("O5'", "O"), ("C5'", "C"), ("C3'", "C"), ("O3'", "O")]),
    "LIG": (True, [("C1", "C"), ("C2", "C"), ("O1", "O"), ("N1", "N")]),
    "RNG": (True, [("C1", "C"), ("C2", "C"), ("C3", "C"), ("C4", "C"), ("C5", "C"), ("C6", "C")]),
    "HOH": (True, [("O", "O")]),
    "NA": (True, [("NA", "NA")]),
    "XY": (True, [("FE", "FE"), ("HD11", "H"), ("C", "C"), ("1HB", "H"), ("CL1", "CL")]),
    "UNK": (False, [("N", "N"), ("CA", "C"), ("X", "C"), ("HG21", "H")]),
}
COORD_EDGE = [[0, 1], [1, 16], [3, 16], [-1, 4096], [10239999, 1024], [10239998, 1024], [10240000, 1024],
              [16383993, 16384], [-16383984, 16384], [-16383991, 16384], [-16383992, 16384],
              [-16383993, 16384], [-16384000, 16384], [0, 0], [1, 0], [-1023, 2]]
BF_EDGE = [[0, 1], [1, 8], [3, 8], [1023990, 1024], [1023994, 1024], [1023995, 1024], [1024000, 1024],
           [-102394, 1024], [-102395, 1024], [-102400, 1024], [0, 0]]


def gen_structure(rng, max_atoms):
    edge = rng.random() < 0.35          # this structure may carry values at / beyond the limits
    h36 = rng.random() < 0.3
    with_bonds = rng.random() < 0.5
    o = {"h36": h36, "ids": rng.random() < 0.5, "bf": rng.random() < 0.5, "occ": rng.random() < 0.5,
         "chg": rng.random() < 0.5}
    target = rng.randint(1, max_atoms)
    atoms = []
    chain = rng.choice(["A", "B", "X", "1"])
    resi = rng.choice([1, 1, 1, -5, 0, 998, 9995]) if not h36 else rng.choice([1, 9995, 10000, 1223050, 2436100])
    if edge and not h36 and rng.random() < 0.15:
        resi = rng.choice([-999, -1000, 9999, 10000])
    while len(atoms) < target:
        resn = rng.choice(list(RESIDUES))
        het, names = RESIDUES[resn]
        k = rng.randint(1, len(names))
        pick = sorted(rng.sample(range(len(names)), k))
        icode = rng.choice(["", "", "", "A", "B"])
        if edge and rng.random() < 0.03:
            icode = "AB"
        for p in pick:
            if len(atoms) >= target:
                break
            nm, el = names[p]
            if edge and rng.random() < 0.02:
                el = rng.choice(["", "ABC"])
            atoms.append({"het": het, "serial": 0, "name": nm, "resn": resn, "chain": chain, "resi": resi,
                          "icode": icode, "elem": el, "bf": [0, 1], "occ": [1, 1], "chg": 0})
        r = rng.random()
        if r < 0.12:
            chain = rng.choice(["A", "B", "C", "z"])
        if edge and r > 0.97:
            chain = ""
        resi += rng.choice([1, 1, 1, 1, 0, 2, 7])
    n = len(atoms)
    # serial numbers
    if o["ids"]:
        start = rng.choice([1, 1, 5, 99990, 100]) if not h36 else rng.choice([1, 99995, 43770010, 87440020])
        cur = start
        for a in atoms:
            a["serial"] = cur
            cur += rng.choice([1, 1, 1, 2, 10])
        if not with_bonds and rng.random() < 0.2:
            for a in atoms:
                a["serial"] = rng.choice([0, -1, -9999, -10000, 7, 7, 99999, 100000]) if edge else rng.randint(-50, 50)
    for a in atoms:
        if o["bf"]:
            a["bf"] = rng.choice(BF_EDGE) if edge and rng.random() < 0.15 else [rng.randrange(-99 * 1024, 999 * 1024), 1024]
        if o["occ"]:
            a["occ"] = rng.choice(BF_EDGE) if edge and rng.random() < 0.1 else [rng.randrange(0, 1025), 1024]
        if o["chg"]:
            a["chg"] = rng.choice([-10, 10]) if edge and rng.random() < 0.05 else rng.randint(-9, 9)
    M = rng.choice([1, 1, 2, 3])
    models = []
    for _m in range(M):
        mod = []
        for _a in range(n):
            xyz = []
            for _k in range(3):
                if edge and rng.random() < 0.06:
                    xyz.append(rng.choice(COORD_EDGE))
                else:
                    xyz.append(rng.choice([[rng.randrange(-999 * 1024, 9999 * 1024), 1024],
                                           [rng.randrange(-200 * 64, 200 * 64), 64]]))
            mod.append(xyz)
        models.append(mod)
    box = []
    if rng.random() < 0.4:
        box = [[[rng.randrange(1, 4096), 16] for _ in range(3)]]
        if edge and rng.random() < 0.1:
            box[0][rng.randrange(3)] = rng.choice([[100000, 1], [12799999, 128]])
    bonds = []
    if with_bonds:
        pairs = set()
        for _ in range(rng.randint(0, 2 * n)):
            if n < 2:
                break
            i, j = sorted(rng.sample(range(n), 2))
            if rng.random() < 0.5 and j - i > 3:
                j = i + rng.randint(1, 3)
            pairs.add((i, j))
        bonds = [[[i, j, rng.randint(0, 6)] for i, j in sorted(pairs)]]
    return {"atoms": atoms, "models": models, "opt": o, "box": box, "bonds": bonds}


# --------------------------------------------------------------------------- classification
def _chain_shift(exp_line, obs_line):
    """Observed line = expected line with the (blank) chain column removed."""
    if exp_line is None or obs_line is None or len(exp_line) != 80 or exp_line[21] != " ":
        return False
    return obs_line == exp_line[:21] + exp_line[22:27] + " " + exp_line[27:]


def classify(mm):
    kb = mm.get("kb") or []
    kind = mm.get("kind")
    if kind == "write":
        # the spec refuses, the code writes a file: one of the refusal predicates must hold
        if mm["expected"]["oc"] == "Rejected" and mm["observed"]["oc"] == "ok":
            hit = [k for k in REFUSAL_KB if k in kb]
            if hit:
                return FINDING[hit[0]]
        return None
    if kind == "atomline" and "EmptyChain" in kb:
        if _chain_shift(mm["expected"]["line"], mm["observed"]["line"]):
            return FINDING["EmptyChain"]
    return None


# --------------------------------------------------------------------------- dump reading
_CHARS = re.compile(r'<<\s*("(?:[^"\\])"(?:,\s*"(?:[^"\\])")*)\s*>>')


def _collapse(text):
    """<<"A", "T", "O", "M">> -> "ATOM" (tuples of one-character strings only)."""
    return _CHARS.sub(lambda m: '"' + "".join(re.findall(r'"(.)"', m.group(1))) + '"', text)


def load_states(path):
    from harness.tlabind.tlaval import parse_state, to_py

    with open(path) as f:
        text = _collapse(f.read())
    out = []
    for blk in re.split(r"^State \d+:\s*$", text, flags=re.M):
        blk = blk.strip()
        if blk:
            out.append({k: to_py(v) for k, v in parse_state(blk).items()})
    return out


def _t(v):
    return "" if v == [] else v


def fix_S(S):
    for a in S["atoms"]:
        for k in TEXT_FIELDS:
            a[k] = _t(a[k])
    return S


def fix_exp(e):
    e["lines"] = [_t(x) for x in e["lines"]]
    for a in e["back"]["atoms"]:
        for k in TEXT_FIELDS + ("altloc",):
            a[k] = _t(a[k])
    return e


_H36 = re.compile(r'inp = <<"(\w+)", (-?\d+), (-?\d+)>>\s*/\\ out = <<\s*(TRUE|FALSE),\s*(.*?)>>\s*(?=State|\Z)', re.S)


hcases_grp = [0]


def load_h36(path):
    hcases_grp[0] = 0
    with open(path) as f:
        text = f.read()
    cases = []
    for m in _H36.finditer(text):
        kind, w, a, ok, body = m.group(1), int(m.group(2)), int(m.group(3)), m.group(4) == "TRUE", m.group(5)
        if kind == "grp":
            hcases_grp[0] += 1
            continue
        s = "".join(re.findall(r'"(.)"', body))
        cases.append([kind, w, a, ok, s])
    return cases


# --------------------------------------------------------------------------- orchestration
def _chunks(seq, k):
    return [seq[i:i + k] for i in range(0, len(seq), k)]


def run(ctx):
    from harness.tlabind import helpers, tlc
    from harness.tlabind.core import Vacuity

    quick = ctx.quick
    suf = "" if quick else "_thorough"
    ctx.assumptions += [
        "Dom_Names: names, chain ids, insertion codes, elements contain no blanks",
        "Dom_Ids: without hybrid-36 the round trip is claimed for serials <= 99999 and residue numbers <= 9999; beyond them the documented wrap-around or a refusal are both accepted",
        "Dom_Element: an empty element is outside the round-trip claim (the reader re-guesses it, with a warning)",
        "Dom_Box: orthorhombic cells with edge lengths exact in float32, no edge shorter than 1/10000 of the sum of the edges (the reader clears such components as numerical noise); triclinic cells are not decided",
        "Dom_BondIds: bonds are read back only for strictly increasing positive serial numbers",
        "numbers are dyadic rationals exactly representable in float32 (coordinates) / float64 (B-factor, occupancy); -0.0 is not generated",
        "residue templates and link types are those of the synthetic CCD fixtures/ccd/components_synth.bcif",
        "exceptions are compared as 'Rejected' (any exception); hybrid-36 refuses negative numbers (documented)",
        "trusted: TLC, the TLA+ value parser, numpy, the projection (annotation arrays, unitcell_from_vectors, BondList.as_array)",
    ]
    ctx.cov["rule"] = ("non-trivial = a structure that is written (outcome ok) with >= 2 ATOM/HETATM records or "
                       "bonds, or a hybrid-36 number beyond the decimal range (n >= 10^w)")
    d = tlc.scratch_dir("c07")
    # ---------------------------------------------------------------- S1 (three models, dumped)
    # The three TLC runs and the recording of the S3 executions do not depend on each other:
    # they run side by side (threads only wait for child processes).
    from concurrent.futures import ThreadPoolExecutor

    hd, ad, fd = os.path.join(d, "h36"), os.path.join(d, "atom"), os.path.join(d, "file")
    nitems = 12 if quick else 160
    per = 25 if quick else 90
    s3items = [{"seed": ctx.rng.randrange(1 << 30), "count": per, "max_atoms": 12 if k % 4 else 60,
                "live": k % 2 == 1} for k in range(nitems)]
    import time

    with ThreadPoolExecutor(max_workers=4) as ex:
        # (tlc.scratch_dir names carry a millisecond stamp: start the runs a moment apart)
        fh = ex.submit(ctx.tlc, "MCHybrid", f"MCHybrid{suf}.cfg", stage="S1-hybrid36", dump=hd,
                       workers=6 if quick else 16, timeout=1500)
        time.sleep(0.2)
        fa = ex.submit(ctx.tlc, "MCAtom", f"MC{suf}.cfg", stage="S1-atom", dump=ad, workers=4, timeout=1500)
        time.sleep(0.2)
        ff = ex.submit(ctx.tlc, "MCFile", f"MCFile{suf}.cfg", stage="S1-file", dump=fd, workers=4, timeout=1500)
        time.sleep(0.2)
        f3 = ex.submit(helpers.run_pool, ctx, "harness.drivers.c07:record_cases", s3items, stage="S3",
                       item_timeout=300, procs=6 if quick else 16)
        rh, ra, rf, s3res = fh.result(), fa.result(), ff.result(), f3.result()
    ctx.exhaustive = True

    def dpath(p):
        return p + ".dump" if os.path.exists(p + ".dump") else p

    # ---------------------------------------------------------------- S2 hybrid-36
    hcases = load_h36(dpath(hd))
    hcases.sort(key=lambda c: (c[0], c[1], c[2]))
    if len(hcases) < 1000:
        raise Vacuity(f"hybrid-36 dump too small: {len(hcases)}")
    nnum = sum(1 for c in hcases if c[0] == "num")
    nblk = len(hcases) - nnum
    block = 128
    items = [{"cases": ch, "block": block} for ch in _chunks(hcases, 400 if quick else 600)]
    res = helpers.run_pool(ctx, "harness.drivers.c07:exec_h36", items, stage="S2-hybrid36", item_timeout=120)
    nh = sum(r.get("n", 0) for r in res if r)
    ctx.evaluations += nh
    ctx.traces_validated += len(hcases)
    ctx.nontrivial += sum(1 for c in hcases if c[0] == "num" and c[3] and c[2] >= 10 ** c[1])
    ctx.nontrivial += sum(len(c[4]) // c[1] for c in hcases if c[0] == "blk" and c[2] * block >= 10 ** c[1])
    ctx.cov["s2_h36_numbers"] = nh
    ctx.cov["s2_h36_states"] = {"num": nnum, "blk": nblk}
    if not any((not c[3]) for c in hcases if c[0] == "num"):
        raise Vacuity("no refused hybrid-36 number was enumerated")
    if nblk == 0 or nnum + nblk + hcases_grp[0] != rh.distinct:
        raise Vacuity(f"hybrid-36 dump incomplete: {nnum} numbers, {nblk} blocks, {rh.distinct} states")
    ctx.sample({"s2_h36": [c for c in hcases if c[0] == "num" and c[3] and c[2] >= 10 ** c[1]][:2]})
    ctx.log(f"S2 hybrid-36: {nh} numbers executed ({nnum} single, {nblk} blocks)")

    # ---------------------------------------------------------------- S2 records and files
    cases = []
    for p in (dpath(ad), dpath(fd)):
        for st in load_states(p):
            if st["done"]:
                cases.append({"S": fix_S(st["inp"]), "exp": fix_exp(st["out"])})
    # TLC's workers write the dump in a run-dependent order: fix the order before anything is selected
    cases.sort(key=lambda c: json.dumps(c["S"], sort_keys=True))
    if 2 * len(cases) != ra.distinct + rf.distinct:
        raise RuntimeError(f"dump/state mismatch: {len(cases)} cases, {ra.distinct + rf.distinct} states")
    ocs = {}
    kbs = {}
    for c in cases:
        ocs[c["exp"]["oc"]] = ocs.get(c["exp"]["oc"], 0) + 1
        for k in c["exp"]["kb"]:
            kbs[k] = kbs.get(k, 0) + 1
    ctx.cov["s2_expected_outcomes"] = ocs
    ctx.cov["s2_known_bad_inputs"] = kbs
    if ocs.get("ok", 0) == 0 or ocs.get("Rejected", 0) == 0:
        raise Vacuity(f"outcomes not all enumerated: {ocs}")
    if not any(len(c["S"]["models"]) > 1 for c in cases) or not any(c["S"]["bonds"] for c in cases):
        raise Vacuity("no multi-model / bonded structure enumerated")
    # single-model structures are also handed over as a stack of depth 1
    extra = [dict(c, stack1=True) for c in cases if len(c["S"]["models"]) == 1][:: (4 if quick else 1)]
    allc = cases + extra
    # every third item runs its cases as a history on one live PDBFile object
    items = [{"cases": ch, "live": k % 3 == 2} for k, ch in enumerate(_chunks(allc, 40))]
    ctx.cov["s2_live_object_items"] = sum(1 for it in items if it["live"])
    ctx.cov["s3_live_object_items"] = sum(1 for it in s3items if it["live"])
    res = helpers.run_pool(ctx, "harness.drivers.c07:exec_cases", items, stage="S2", item_timeout=120)
    nexec = sum(r.get("n", 0) for r in res if r)
    if nexec != len(allc):
        ctx.note(f"S2 executed {nexec} of {len(allc)} cases (crashed items are reported)")
    diags = {}
    s2events = []
    for r in res:
        for k, v in (r or {}).get("diag", {}).items():
            diags[k] = diags.get(k, 0) + v
        s2events += (r or {}).get("events", [])
    ctx.cov["s2_cases"] = nexec
    ctx.cov["s2_diagnostics"] = diags
    for k, v in sorted(diags.items()):
        ctx.note(f"diagnostic (not a verdict): {k} x{v}")
    ctx.traces_validated += nexec
    ctx.evaluations += nexec
    ctx.nontrivial += sum(1 for c in allc if c["exp"]["oc"] == "ok" and
                          (len(c["S"]["atoms"]) * len(c["S"]["models"]) >= 2 or c["S"]["bonds"]))
    for c in cases[:2]:
        ctx.sample({"s2_case": {"atom": c["S"]["atoms"][0], "xyz": c["S"]["models"][0][0], "opt": c["S"]["opt"],
                                "expected": c["exp"]["oc"], "line": (c["exp"]["lines"] or [""])[0]}})
    ctx.log(f"S2: {nexec} structures executed")

    # ---------------------------------------------------------------- S3 recorded executions
    res = s3res
    traces = [r["events"] for r in res if r and r.get("events")]
    traces += _chunks(s2events, 40)
    validate(ctx, traces)
    # binding self-test
    bad = []
    for tr in traces:
        for ev in tr:
            if ev["op"] == "file" and ev["oc"] == "ok" and ev["back"]["ok"] and len(bad) < 3:
                e2 = json.loads(json.dumps(ev))
                if len(bad) % 2 == 0:
                    ln = next(i for i, x in enumerate(e2["lines"]) if is_atom_line(x))
                    s = e2["lines"][ln]
                    e2["lines"][ln] = s[:30] + s[31:55] + " " + s[55:]      # shift the coordinate columns
                else:
                    e2["back"]["coords"][0][0][0] += 1
                bad.append([e2])
        if len(bad) >= 3:
            break
    if bad:
        n_bad = validate(ctx, bad, selftest=True)
        if n_bad < len(bad):
            raise Vacuity(f"binding self-test: {len(bad)} corrupted events, {n_bad} rejected")
        ctx.cov["selftest_corrupted_rejected"] = n_bad


def _event_json(ev):
    if ev["op"] == "h36":
        return {"op": "h36", "n": ev["n"], "w": ev["w"], "oc": ev["oc"], "s": list(ev["s"]), "dec": ev["dec"]}
    b = ev["back"]
    return {"op": "file", "S": explode_S(ev["S"]), "oc": ev["oc"], "lines": [list(x) for x in ev["lines"]],
            "back": {"ok": b["ok"], "nmodels": b["nmodels"],
                     "atoms": [dict(a, **{k: list(a[k]) for k in TEXT_FIELDS}) for a in b["atoms"]],
                     "coords": b["coords"], "box": b["box"], "bonds": b["bonds"]},
            "sel": [{"k": s["k"], "oc": s["oc"], "xyz": s["xyz"]} for s in ev["sel"]]}


def validate(ctx, traces, selftest=False):
    """TLC re-computes every recorded event; returns the number of mismatching events."""
    from harness.tlabind import helpers

    traces = [t for t in traces if t]
    if not traces:
        return 0
    jt = [[_event_json(ev) for ev in tr] for tr in traces]
    nmm = 0
    from harness.tlabind import tlc as T
    from harness.tlabind.tlaval import parse_value, to_py

    diag_names = ["line-kinds-differ", "bond-types-differ", "model-number-out-of-range-accepted"]
    diags = {}
    # batches keep the JSON of one TLC run moderate
    for batch_no, lo in enumerate(range(0, len(jt), 60)):
        part = jt[lo:lo + 60]
        dd = T.scratch_dir("c07tr")
        tf = os.path.join(dd, "traces.json")
        with open(tf, "w") as f:
            json.dump(part, f)
        res = ctx.tlc("Trace", "Trace.cfg", stage="S3-selftest" if selftest else "S3", workers=1,
                      env={"TRACE_FILE": tf}, count=not selftest, timeout=1500)
        expect = sum(len(t) + 1 for t in part)
        if res.distinct != expect:
            raise RuntimeError(f"C07 S3: trace validation visited {res.distinct} states, expected {expect}")
        mms = [to_py(parse_value(x)) for x in T.printed_values(res.out, "MISMATCH")]
        for x in T.printed_values(res.out, "DIAG"):
            v = to_py(parse_value(x))
            for nme, okf in zip(diag_names, v[3]):
                if not okf:
                    diags[nme] = diags.get(nme, 0) + 1
        nmm += len(mms)
        if selftest:
            continue
        for m in mms:
            _tag, tid, l, flags, kb, eoc, lenient, first_bad, exp_line = m[:9]
            ev = traces[lo + tid - 1][l - 1]
            names = ["oc", "atomlines", "readback", "bonds", "conect", "select"] if ev["op"] == "file" else ["oc", "s", "dec"]
            failed = [n for n, f in zip(names, flags) if not f]
            if ev["op"] == "h36":
                ctx.mismatch({"stage": "S3", "kind": "h36", "n": ev["n"], "w": ev["w"], "failed": failed,
                              "expected": {"oc": eoc}, "observed": ev})
                continue
            rec = {"stage": "S3", "S": ev["S"], "kb": sorted(kb), "lenient": lenient, "failed": failed,
                   "observed": {"oc": ev["oc"], "lines": ev["lines"], "back": ev["back"], "err": ev.get("err", "")}}
            if "oc" in failed:
                rec.update(kind="write", expected={"oc": eoc})
            elif "atomlines" in failed:
                oa = [x for x in ev["lines"] if is_atom_line(x)]
                rec.update(kind="atomline", index=first_bad - 1,
                           expected={"line": "".join(exp_line) if exp_line else None})
                rec["observed"]["line"] = oa[first_bad - 1] if 0 < first_bad <= len(oa) else None
            else:
                rec.update(kind=failed[0] if failed else "event", expected={"oc": eoc})
            ctx.mismatch(rec)
    if not selftest:
        ctx.cov["s3_diagnostics"] = diags
        for k, v in sorted(diags.items()):
            ctx.note(f"diagnostic (not a verdict), recorded executions: {k} x{v}")
        nev = sum(len(t) for t in traces)
        nfile = sum(1 for t in traces for e in t if e["op"] == "file")
        ctx.traces_validated += len(traces)
        ctx.evaluations += nev
        ctx.cov["s3_traces"] = len(traces)
        ctx.cov["s3_events"] = nev
        ctx.cov["s3_file_events"] = nfile
        ctx.cov["s3_written"] = sum(1 for t in traces for e in t if e["op"] == "file" and e["oc"] == "ok")
        ctx.cov["s3_refused"] = sum(1 for t in traces for e in t if e["op"] == "file" and e["oc"] != "ok")
        ctx.cov["s3_atoms_written"] = sum(len(e["S"]["atoms"]) * len(e["S"]["models"]) for t in traces for e in t
                                          if e["op"] == "file" and e["oc"] == "ok")
        ctx.nontrivial += sum(1 for t in traces for e in t if
                              (e["op"] == "file" and e["oc"] == "ok" and
                               (len(e["S"]["atoms"]) * len(e["S"]["models"]) >= 2 or e["S"]["bonds"])) or
                              (e["op"] == "h36" and e["oc"] == "ok" and e["n"] >= 10 ** e["w"]))
        for t in traces[:1]:
            for e in t[:2]:
                ctx.sample({"s3_event": {k: e[k] for k in e if k not in ("back", "sel")}})
    return nmm


def _tlc_judge(events, spec="C07"):
    """One TLC trace validation of freshly recorded events: returns the MISMATCH tuples."""
    from harness.tlabind import tlc as T
    from harness.tlabind.tlaval import parse_value, to_py

    dd = T.scratch_dir("replay")
    tf = os.path.join(dd, "traces.json")
    with open(tf, "w") as f:
        json.dump([[_event_json(ev) for ev in events]], f)
    res = T.run_tlc(os.path.join(T.VERIF, "specs", spec), "Trace", "Trace.cfg", workers=1, timeout=600,
                    env={"TRACE_FILE": tf})
    T.require_ok(res, "replay")
    return [to_py(parse_value(x)) for x in T.printed_values(res.out, "MISMATCH")]


def replay(record):
    """Re-execute one stored mismatch record against the current code and let TLC judge it again."""
    warmup()
    if record.get("kind") == "h36":
        ev = run_h36(record["n"], record["w"])
    elif "S" in record:
        ev = run_case(record["S"])
    else:
        return {"error": "record not replayable", "record": record}
    mms = _tlc_judge([ev])
    out = {"observed": {k: ev[k] for k in ev if k not in ("S", "sel")}, "mismatch": bool(mms)}
    if mms:
        m = mms[0]
        out["failed_flags"] = m[3]
        out["known_bad_predicates"] = m[4]
        out["expected_outcome"] = m[5]
        if len(m) > 8 and m[8]:
            out["expected_line"] = "".join(m[8])
    return out


MANIFEST = {
    "technique": "TLA+ reference codec of the PDB fixed-column records (specs/C07: FixedCols, Hybrid36, PdbColumns, PdbFile) model-checked by TLC; every TLC-enumerated input executed against PDBFile.set_structure/get_structure and encode/decode_hybrid36; recorded random round trips re-computed by TLC",
    "level_text": "TLC enumerates every hybrid-36 number of widths 1-3 (thorough: 4) and the carry neighbourhoods of widths 4 and 5, single ATOM/HETATM records whose fields run through the boundary classes of their columns (coordinates, B-factor, occupancy, serial and residue numbers incl. wrap points and hybrid-36 limits, name/element alignment, name lengths, charges), and whole files (1-3 models, CRYST1, all subsets of bond lists over a peptide/ligand/water fragment and a star ligand with continuation records); the spec's invariants (round trip at column precision, fields in their columns, implemented acceptance test = declarative fit except on named known-bad inputs, model selection, CONECT carriage) hold on all of them; each input is then executed against the real code comparing the refusal, every ATOM/HETATM line character by character, and the structure read back; seeded random structures (<=60 atoms, synthetic CCD) and numbers are recorded and re-computed event by event by TLC. Every third enumerated batch and every second recorded batch runs as a history on one live PDBFile object (set_structure on an object that holds the previous structure and has served model=None reads, then get_structure / get_coord / get_b_factor on that same object): the content of a file is a function of the last structure set.",
    "level_note": "Bounded: exhaustive only over the enumerated boundary classes and scenarios; beyond them recorded random executions. Numbers are dyadic rationals (exact in float32/float64); triclinic boxes, alternate locations, TER/REMARK records and files not written by biotite are not decided. Bond round trip is checked as carried pairs <= read pairs <= carried+template+implied (types are diagnostic). hybrid36.pyx cannot be rebuilt here (no Cython). Trusted: TLC, the TLA+ value parser, numpy, the annotation projection.",
}
