"""C05 — BinaryCIF encodings are invertible; compression stays within tolerance.

Specification (specs/C05): BcifEncoding.tla — the seven encodings of encoding.pyx with their
parameters (encode and decode, code shaped), chains, BinaryCIFData serialisation, the property
(Holds / AcceptArr / IdealOutcome), the twelve candidate chains of compress.py, the recorded
defects (KB_*).  MCEnc.tla enumerates (chain, array) cases; Trace.tla re-computes recorded runs.

S1  TLC: for every enumerated case the code-shaped model returns the array (exactly / inside the
    stated precision) when the representation can hold it and refuses it otherwise, except in the
    recorded classes; all twelve compress() candidates are exact on every integer array.
S2  every enumerated case is executed: BinaryCIFData(arr, chain).serialize() -> msgpack ->
    BinaryCIFData.deserialize; outcome and decoded values are compared with the specification's
    (exact values, or the acceptance interval computed by TLC).  Diagnostic: encoded bytes and
    filled-in parameters against the model's.
    compress() as an operation of its own (MCCompress.tla): float32 / float64 arrays of decimal
    floats of every magnitude class (1e-306 .. 1e300, the int32 boundary of the scaled values on both
    sides, one-sided overflow, zero, NaN, infinities) x tolerances 1e-1 .. 1e-8 (looser and stricter than
    the default 1e-6), and int32 arrays on the type boundaries of _to_smallest_integer_type, each case called
    at every container level compress() accepts (data / column / category / block / file); S1 checks that whatever the modelled search for
    the decimals + range check + fall-back may return is inside the relative tolerance; every case is
    executed and judged by TLC (Trace.tla, kinds "compressx" / "compress").
    Memory representations (BcifEncoding.tla "memory representation of the input array"): every enumerated
    case is executed with its array held natively, with non-native byte order, as a strided / reversed view,
    read-only, unaligned, all of that at once, in the 64-bit integer carrier and as a Python list (RepsOf);
    the specification's result does not depend on it, S1 checks that the code-shaped first encoding step
    (_safe_cast shortcut, tobytes in the byte order of the array) does not either.
    Columns with histories (BcifColumn.tla, MCColumn.tla): (column with mask, sequence of <= 2 read accesses:
    as_array with every dtype choice with / without masked_value, as_item, serialize, compress, write);
    S1: the code-shaped as_array (astype copies, placeholders written into the copy) never changes the
    column; every case is executed: the column in memory and the column read back from a written file are
    compared with the specification's.
S3  random arrays of every dtype (length <= 60) in random memory representations, random chains and
    parameters, compress() with several tolerances (fixed-point universe, and decimal floats of any
    magnitude), whole files with masks, random read accesses before writing and on the file that was read
    before writing it again: recorded and re-computed by TLC.
"""

from __future__ import annotations

import io
import json
import os
import random
from fractions import Fraction

PROPERTY = "C05"

SCALE = 1 << 20
TYPES = {1: "int8", 2: "int16", 3: "int32", 4: "uint8", 5: "uint16", 6: "uint32", 32: "float32", 33: "float64"}
STR_T = 100
CHARS = {"u1": "é", "u2": "Ω", "u3": "中", "sp": " ", "sq": "'", "dq": '"', "bs": "\\"}
CHARS_INV = {v: k for k, v in CHARS.items()}


# --------------------------------------------------------------------------- abstract <-> numpy
def apply_rep(a, rep):
    """The same values in another memory representation (BcifEncoding.tla, Reps)."""
    import numpy as np

    n = len(a)
    if rep == "native":
        return a
    if rep == "swapped":
        return a.astype(a.dtype.newbyteorder("S"))
    if rep in ("strided", "foreign"):
        step = 2 if rep == "strided" else 3
        src = a.astype(a.dtype.newbyteorder("S")) if rep == "foreign" else a
        big = np.empty(step * n + 1, dtype=src.dtype)
        for off in range(step):                      # the gaps hold other values of the array, not zeros
            big[off::step][:n] = np.roll(src, off + 1) if n else src
        big[1::step][:n] = src
        view = big[1::step][:n]
        if rep == "foreign":
            view.flags.writeable = False
        return view
    if rep == "reversed":
        return a[::-1].copy()[::-1]
    if rep == "readonly":
        r = a.copy()
        r.flags.writeable = False
        return r
    if rep == "unaligned":
        buf = np.zeros(n * a.dtype.itemsize + 1, dtype=np.uint8)
        u = buf[1:].view(a.dtype)
        u[:] = a
        return u
    if rep == "wide":
        return a.astype(np.int64 if a.dtype.kind == "i" else np.uint64)
    if rep == "list":
        return a.tolist()
    raise ValueError(rep)


def reps_of(A):
    """BcifEncoding.tla RepsOf, for the generators of recorded runs (TLC checks the membership: NOTDOM)."""
    t = A["t"]
    width = {1: 1, 4: 1, 2: 2, 5: 2}.get(t, 4)
    r = ["native", "strided", "reversed", "readonly"]
    if t == STR_T or width > 1:
        r += ["swapped", "foreign"]
    if t != STR_T and width > 1:
        r += ["unaligned"]
    if t in (3, 6):
        r += ["wide"]
    if t in (3, 33, STR_T) and A["v"]:
        r += ["list"]
    return r


def rep_safe(chain, A, rep):
    """BcifEncoding.tla Dom_RepSafe: the INT_MIN values of the recorded uint64 Delta defect are not packed."""
    if not (chain and chain[0][0] == "DE" and A["t"] == 6 and rep == "wide" and A["v"]):
        return True
    og = chain[0][2][0] if chain[0][2] else A["v"][0]
    return not (any(v < og for v in A["v"]) and any(e[0] == "IP" for e in chain))


def to_numpy(A, rep="native"):
    return apply_rep(_to_numpy(A), rep)


def _to_numpy(A):
    import numpy as np

    t, v = A["t"], A["v"]
    if t == STR_T:
        return np.array(["".join(CHARS.get(c, c) for c in s) for s in v], dtype=str) if v else np.array([], dtype="U1")
    if t in (32, 33):
        out = []
        for x in v:
            k = x["k"]
            if k == "fin":
                out.append(x["fx"] / SCALE)          # exact: fx < 2^31, power-of-two divisor
            elif k == "whole":
                out.append(float(x["fx"]))
            elif k == "nan":
                out.append(float("nan"))
            elif k == "pinf":
                out.append(float("inf"))
            elif k == "ninf":
                out.append(float("-inf"))
            else:
                raise ValueError(k)
        return np.array(out, dtype=np.float64).astype(TYPES[t])
    return np.array([int(x) for x in v], dtype=TYPES[t])


def _felem(x):
    import math

    x = float(x)
    if math.isnan(x):
        return {"k": "nan", "fx": 0, "ex": True}
    if math.isinf(x):
        return {"k": "pinf" if x > 0 else "ninf", "fx": 0, "ex": True}
    if abs(x) <= 1024:
        f = Fraction(x) * SCALE
        fx = round(f)
        return {"k": "fin", "fx": int(fx), "ex": f.denominator == 1}
    if abs(x) < 2 ** 31 - 1:
        return {"k": "whole", "fx": int(round(x)), "ex": x == int(x)}
    return {"k": "junk", "fx": 0, "ex": False}


def from_numpy(arr):
    """Projection of a decoded array to the specification's values."""
    import numpy as np

    if np.issubdtype(arr.dtype, np.str_):
        return {"t": STR_T, "v": [[CHARS_INV.get(c, c) for c in s] for s in arr.tolist()]}
    if np.issubdtype(arr.dtype, np.floating):
        t = 32 if arr.dtype == np.float32 else 33
        return {"t": t, "v": [_felem(x) for x in arr.tolist()]}
    if np.issubdtype(arr.dtype, np.integer):
        code = {v: k for k, v in TYPES.items()}.get(arr.dtype.name, 3)
        vals = [int(x) for x in arr.tolist()]
        if any(x < -(2 ** 31) or x >= 2 ** 31 for x in vals):
            return {"t": -1, "v": []}                # cannot cross the 32-bit boundary of TLC
        return {"t": code, "v": vals}
    return {"t": -1, "v": []}


def _opt(o):
    return None if len(o) == 0 else o[0]


def mk_encoding(e):
    import numpy as np
    import biotite.structure.io.pdbx as px

    k = e[0]
    ty = lambda o: None if _opt(o) is None else px.TypeCode(_opt(o))  # noqa: E731
    if k == "BA":
        return px.ByteArrayEncoding(ty(e[1]))
    if k == "FP":
        return px.FixedPointEncoding(e[1], ty(e[2]))
    if k == "IQ":
        return px.IntervalQuantizationEncoding(e[1] / SCALE, e[2] / SCALE, e[3], ty(e[4]))
    if k == "RL":
        return px.RunLengthEncoding(_opt(e[1]), ty(e[2]))
    if k == "DE":
        return px.DeltaEncoding(ty(e[1]), _opt(e[2]))
    if k == "IP":
        return px.IntegerPackingEncoding(e[1], _opt(e[2]), _opt(e[3]))
    if k == "SA":
        st = _opt(e[1])
        strings = None if st is None else (np.array(["".join(CHARS.get(c, c) for c in s) for s in st], dtype=str)
                                            if st else np.array([], dtype="U1"))
        return px.StringArrayEncoding(strings, [mk_encoding(x) for x in e[2]], [mk_encoding(x) for x in e[3]])
    raise ValueError(k)


def abstract_encoding(enc):
    """A real encoding object (after the encoding pass) in the specification's notation."""
    import biotite.structure.io.pdbx as px

    def o(x):
        return [] if x is None else [int(x) if not isinstance(x, bool) else x]
    if isinstance(enc, px.ByteArrayEncoding):
        return ["BA", o(enc.type)]
    if isinstance(enc, px.FixedPointEncoding):
        f = enc.factor
        return ["FP", int(f) if float(f) == int(f) and abs(f) < 2 ** 31 else -1, o(enc.src_type)]
    if isinstance(enc, px.IntervalQuantizationEncoding):
        return ["IQ", int(round(enc.min * SCALE)), int(round(enc.max * SCALE)), int(enc.num_steps), o(enc.src_type)]
    if isinstance(enc, px.RunLengthEncoding):
        return ["RL", o(enc.src_size), o(enc.src_type)]
    if isinstance(enc, px.DeltaEncoding):
        return ["DE", o(enc.src_type), o(enc.origin)]
    if isinstance(enc, px.IntegerPackingEncoding):
        return ["IP", int(enc.byte_count), o(enc.src_size), [] if enc.is_unsigned is None else [bool(enc.is_unsigned)]]
    if isinstance(enc, px.StringArrayEncoding):
        st = [] if enc.strings is None else [[[CHARS_INV.get(c, c) for c in s] for s in enc.strings.tolist()]]
        return ["SA", st, [abstract_encoding(x) for x in enc.data_encoding],
                [abstract_encoding(x) for x in enc.offset_encoding]]
    raise ValueError(type(enc).__name__)


def write_read(data):
    """BinaryCIFData -> dict -> msgpack bytes -> dict -> BinaryCIFData"""
    import msgpack
    from biotite.structure.io.pdbx import BinaryCIFData
    from biotite.structure.io.pdbx.bcif import _encode_numpy

    ser = data.serialize()
    packed = msgpack.packb(ser, use_bin_type=True, default=_encode_numpy)
    return ser, BinaryCIFData.deserialize(msgpack.unpackb(packed, use_list=True, raw=False))


def run_chain(A, chain, rep="native"):
    """-> dict(oc, B, ser_eq, data_eq, bytes, chain2)"""
    import warnings
    from biotite.structure.io.pdbx import BinaryCIFData
    from biotite.structure.io.pdbx.encoding import deserialize_encoding

    out = {"oc": "Rejected", "B": {"t": 0, "v": []}, "ser_eq": True, "data_eq": True, "bytes": None, "chain2": None}
    with warnings.catch_warnings():
        warnings.simplefilter("ignore")
        try:
            arr = to_numpy(A, rep)
            encs = [mk_encoding(e) for e in chain]
            d = BinaryCIFData(arr, encs)
            ser, d2 = write_read(d)
        except Exception:  # noqa: BLE001  any refusal
            return out
        out["oc"] = "ok"
        out["B"] = from_numpy(d2.array)
        try:
            out["ser_eq"] = all(bool(deserialize_encoding(e.serialize()) == e) for e in d.encoding)
            out["data_eq"] = bool(d2 == d)
            out["chain2"] = [abstract_encoding(e) for e in d.encoding]
        except Exception:  # noqa: BLE001
            out["ser_eq"] = False
        out["bytes"] = list(ser["data"]) if A["t"] in (1, 2, 3, 4, 5, 6, STR_T) else None
    return out


LEVELS = ["data", "column", "category", "block", "file"]


def compress_at(level, arr, tol):
    """compress() called on the container of the given level around the array; -> the compressed BinaryCIFData."""
    import biotite.structure.io.pdbx as px

    data = px.BinaryCIFData(arr)
    if level == "data":
        return px.compress(data, float_tolerance=tol)
    col = px.BinaryCIFColumn(data)
    if level == "column":
        return px.compress(col, float_tolerance=tol).data
    cat = px.BinaryCIFCategory({"x": col})
    if level == "category":
        return px.compress(cat, float_tolerance=tol)["x"].data
    blk = px.BinaryCIFBlock({"c": cat})
    if level == "block":
        return px.compress(blk, float_tolerance=tol)["c"]["x"].data
    if level == "file":
        return px.compress(px.BinaryCIFFile({"b": blk}), float_tolerance=tol)["b"]["c"]["x"].data
    raise ValueError(level)


def run_compress(A, T, rep="native", level="data"):
    import warnings
    from biotite.structure.io.pdbx import BinaryCIFData, compress
    import biotite.structure.io.pdbx as px

    out = {"oc": "Rejected", "B": {"t": 0, "v": []}, "chain": [], "hasFP": False, "d": 0}
    with warnings.catch_warnings():
        warnings.simplefilter("ignore")
        try:
            c = compress_at(level, to_numpy(A, rep), 1.0 / T)
            _ser, d2 = write_read(c)
        except Exception:  # noqa: BLE001
            return out
        out["oc"] = "ok"
        out["B"] = from_numpy(d2.array)
        enc = c.encoding
        if enc and isinstance(enc[0], px.FixedPointEncoding):
            import math

            out["hasFP"] = True
            out["d"] = int(round(math.log10(float(enc[0].factor))))
            enc = enc[1:]
        try:
            out["chain"] = [abstract_encoding(e) for e in enc] if A["t"] in (1, 2, 3, 4, 5, 6) else []
        except Exception:  # noqa: BLE001
            out["chain"] = []
    return out


# --------------------------------------------------------------------------- decimal floats (compress)
CPU_LIMIT = 0.5      # seconds of CPU time of this process; an ordinary compress() call takes ~1 ms


class _Diverges(BaseException):
    pass


def _on_vtalrm(_sig, _frm):
    raise _Diverges()


def sci_to_numpy(A, rep="native"):
    """Arr(t, [k, m, p]) -> numpy array: the nearest float of m * 10^p."""
    import numpy as np

    out = []
    for x in A["v"]:
        k = x["k"]
        if k == "num":
            out.append(float(Fraction(x["m"]) * Fraction(10) ** x["p"]))      # correctly rounded
        else:
            out.append({"nan": float("nan"), "pinf": float("inf"), "ninf": float("-inf")}[k])
    return apply_rep(np.array(out, dtype=np.float64).astype(TYPES[A["t"]]), rep)


def sci_project(arr, A):
    """Decoded array -> element i in units 10^p of the input element i."""
    import math
    import numpy as np

    if not np.issubdtype(arr.dtype, np.floating) or arr.dtype.name not in ("float32", "float64"):
        return {"t": -1, "v": []}
    vals = arr.tolist()
    out = []
    for j, y in enumerate(vals):
        y = float(y)
        if math.isnan(y):
            out.append({"k": "nan", "fx": 0, "ex": True})
        elif math.isinf(y):
            out.append({"k": "pinf" if y > 0 else "ninf", "fx": 0, "ex": True})
        else:
            p = A["v"][j]["p"] if j < len(A["v"]) else 0
            f = Fraction(y) / Fraction(10) ** p
            fx = round(f)
            if abs(fx) >= 2 ** 31:
                out.append({"k": "junk", "fx": 0, "ex": False})
            else:
                out.append({"k": "num", "fx": int(fx), "ex": f.denominator == 1})
    return {"t": 32 if arr.dtype.name == "float32" else 33, "v": out}


def run_compress_sci(A, T, rep="native", level="data"):
    """compress(BinaryCIFData(A), 1/T) -> serialize -> deserialize, under a CPU-time limit."""
    import math
    import signal
    import warnings
    import numpy as np
    from biotite.structure.io.pdbx import BinaryCIFData, compress
    import biotite.structure.io.pdbx as px

    out = {"oc": "Rejected", "B": {"t": 0, "v": []}, "packed": "Rejected", "hasFP": False, "d": 0}
    arr = sci_to_numpy(A, rep)
    old = signal.signal(signal.SIGVTALRM, _on_vtalrm)
    with warnings.catch_warnings():
        warnings.simplefilter("ignore")
        try:
            signal.setitimer(signal.ITIMER_VIRTUAL, CPU_LIMIT)
            try:
                c = compress_at(level, arr, 1.0 / T)
            finally:
                signal.setitimer(signal.ITIMER_VIRTUAL, 0)
            d2 = BinaryCIFData.deserialize(c.serialize())
        except _Diverges:
            out["oc"] = "Diverges"
            return out
        except Exception:  # noqa: BLE001  any refusal
            return out
        finally:
            signal.setitimer(signal.ITIMER_VIRTUAL, 0)
            signal.signal(signal.SIGVTALRM, old)
        out["oc"] = "ok"
        out["B"] = sci_project(d2.array, A)
        enc = c.encoding
        if enc and isinstance(enc[0], px.FixedPointEncoding):
            out["hasFP"] = True
            out["d"] = int(round(math.log10(enc[0].factor)))
        try:
            _ser, d3 = write_read(c)
            same = d3.array.dtype == d2.array.dtype and np.array_equal(d3.array, d2.array, equal_nan=True)
            out["packed"] = "ok" if same else "differs"
        except Exception:  # noqa: BLE001
            out["packed"] = "Rejected"
    return out


def sci_event(A, T, rep="native", level="data"):
    r = run_compress_sci(A, T, rep, level)
    return {"kind": "compressx", "A": A, "T": T, "rep": rep, "level": level, "oc": r["oc"], "B": r["B"], "packed": r["packed"],
            "hasFP": r["hasFP"], "d": r["d"]}


def int_compress_event(A, T, rep="native", level="data"):
    r = run_compress(A, T, rep, level)
    return {"kind": "compress", "A": A, "T": T, "rep": rep, "level": level, "chain": r["chain"], "hasFP": r["hasFP"], "d": r["d"],
            "oc": r["oc"], "B": r["B"]}


def exec_compress_cases(item):
    """S2 of the compress() family: execute the cases TLC enumerated; the events are judged by TLC."""
    from harness.tlabind.pool import progress

    events = []
    for case in item["cases"]:
        for level, rep in case["plan"]:
            progress({"fam": case["fam"], "A": case["arr"], "T": case["tol"], "rep": rep, "level": level})
            if case["fam"] == "sci":
                events.append(sci_event(case["arr"], case["tol"], rep, level))
            else:
                events.append(int_compress_event(case["arr"], case["tol"], rep, level))
    return {"events": events}


# --------------------------------------------------------------------------- S2 child
def _accepted(case, B):
    A = case["arr"]
    if len(B["v"]) != len(A["v"]):
        return False
    if A["t"] in (32, 33):
        if B["t"] not in (32, 33):
            return False
        for s, y in zip(case["acc"], B["v"]):
            if y["k"] != s["k"] or not (s["lo"] <= y["fx"] <= s["hi"]) or (s["ex"] and not y["ex"]):
                return False
        return True
    return B["v"] == A["v"]


def exec_cases(item):
    from harness.tlabind.pool import progress

    mism = []
    n = formdiff = paramdiff = 0
    per_rep = {}
    # the specification's outcome and values do not depend on the representation of the array:
    # one expectation per case, executed under every member of reps
    for case, rep in ((c, r) for c in item["cases"] for r in c["reps"]):
        progress({"chain": case["chain"], "arr": case["arr"], "rep": rep})
        r = run_chain(case["arr"], case["chain"], rep)
        n += 1
        per_rep[rep] = per_rep.get(rep, 0) + 1
        exp = case["exp"]
        ok = (r["oc"] == "ok" and _accepted(case, r["B"]) and r["ser_eq"]) if exp == "ok" else r["oc"] == "Rejected"
        if ok:
            form = case["form"]
            if r["oc"] == "ok" and form["oc"] == "ok":
                if r["bytes"] is not None and form["a"]["t"] == 0 and r["bytes"] != form["a"]["v"]:
                    formdiff += 1
                if r["chain2"] is not None and r["chain2"] != form["e"]:
                    paramdiff += 1
            continue
        # recorded classes of this representation only, with the outcome of the code-shaped model
        kbr = [(k, oc) for rr, k, oc in case["kbrep"] if rr == rep]
        mism.append({"kind": "case", "chain": case["chain"], "A": case["arr"], "rep": rep,
                     "kb": case["kb"] + [k for k, _ in kbr],
                     "known_shape": (bool(case["kb"]) and exp == "Rejected" and r["oc"] == "ok")
                     or (bool(kbr) and exp == "ok" and all(r["oc"] == oc for _, oc in kbr)),
                     "expected": {"oc": exp, "accept": case["acc"] if exp == "ok" else []},
                     "observed": {"oc": r["oc"], "B": r["B"], "ser_eq": r["ser_eq"]}})
    return {"mismatch": mism, "n": n, "formdiff": formdiff, "paramdiff": paramdiff, "per_rep": per_rep}


# --------------------------------------------------------------------------- columns with histories
def _op_dtype(stored, dt):
    """The dtype argument of as_array for the choice dt (BcifColumn.tla, TargetOf)."""
    import numpy as np

    if dt == "none":
        return None
    if dt == "same":
        return stored
    if dt == "str":
        return str
    if dt == "kind":
        return {"i1": np.int16, "i2": np.int32, "i4": np.int64, "u1": np.uint16, "u2": np.uint32, "u4": np.uint16,
                "f4": np.float64, "f8": np.float32}.get(stored.str[1:], "U8")
    return np.float64 if stored.kind in "iu" else np.int32          # cross


def apply_read_op(col, op):
    """One read access of a column; -> "ok" / "Rejected" (not judged: only the column afterwards is)."""
    import warnings
    import numpy as np
    import biotite.structure.io.pdbx as px

    name, dt, fill = op
    with warnings.catch_warnings():
        warnings.simplefilter("ignore")
        try:
            if name == "as_array":
                dtype = _op_dtype(col.data.array.dtype, dt)
                target = np.dtype(col.data.array.dtype if dtype is None else dtype)
                mv = None if not fill else ("-" if target.kind == "U" else -1.0 if target.kind == "f" else -1)
                col.as_array(dtype, mv)
            elif name == "as_item":
                col.as_item()
            elif name == "serialize":
                col.serialize()
            elif name == "compress":
                px.compress(col)
            elif name == "write":
                px.BinaryCIFFile({"b": px.BinaryCIFBlock({"c": px.BinaryCIFCategory({"x": col})})}).write(io.BytesIO())
            else:
                raise KeyError(name)
        except KeyError:
            raise
        except Exception:  # noqa: BLE001
            return "Rejected"
    return "ok"


def _project_col(column):
    return {"d": from_numpy(column.data.array),
            "m": [] if column.mask is None else [[int(x) for x in column.mask.array.tolist()]]}


WRITE_OPS = [["set_data", "none", False], ["set_data", "none", True], ["set_mask", "none", False],
             ["set_mask", "none", True], ["assign", "none", False]]
T_HI = {1: 127, 2: 32767, 3: 2 ** 31 - 1, 4: 255, 5: 65535, 6: 2 ** 31 - 1}


def _bumped(values, t):
    """BcifColumn.tla Bump on the rows `values` (a numpy array) of a column of BinaryCIF type t: a value of the same
    dtype that differs and needs no rounding arithmetic."""
    import numpy as np

    if t == STR_T:
        return np.array([("c" if not x else ("a" if x[0] == "c" else "c") + x[1:]) for x in values.tolist()],
                        dtype=values.dtype)
    if t in (32, 33):
        out = values.copy()
        for i, x in enumerate(values.tolist()):
            out[i] = 0.0 if x != x else 1.0 if x == 0 else -x
        return out
    out = values.copy()
    for i, x in enumerate(values.tolist()):
        out[i] = x - 1 if x >= T_HI[t] else x + 1
    return out


def can_write_in_place(col, op):
    """Whether the in-place write `op` can be performed on the arrays the column holds (a read-only array, e.g. one
    decoded from a file, cannot; the generator of S3 then re-assigns the column instead)."""
    if op[0] == "set_data":
        return bool(col.data.array.flags.writeable)
    if op[0] == "set_mask":
        return col.mask is None or bool(col.mask.array.flags.writeable)
    return True


def apply_op(cat, name, t, op):
    """One operation of BcifColumn.tla Ops on column `name` of the category `cat` (t: BinaryCIF type of its data).
    -> (outcome, out): out = what the operation serialised, read back and projected ({"oc": "ok", "c": column} /
    {"oc": "Rejected"}), or {"oc": "none"} for operations that serialise nothing."""
    import warnings
    import numpy as np
    import biotite.structure.io.pdbx as px

    kind = op[0]
    col = cat[name]
    none = {"oc": "none", "c": None}
    if kind in ("as_array", "as_item"):
        return apply_read_op(col, op), none
    if kind in ("serialize", "write", "compress"):
        with warnings.catch_warnings():
            warnings.simplefilter("ignore")
            try:
                if kind == "serialize":
                    back = px.BinaryCIFColumn.deserialize(col.serialize())
                elif kind == "compress":
                    back = px.BinaryCIFColumn.deserialize(px.compress(col).serialize())
                else:
                    buf = io.BytesIO()
                    px.BinaryCIFFile({"b": px.BinaryCIFBlock({"c": px.BinaryCIFCategory({"x": col})})}).write(buf)
                    buf.seek(0)
                    back = px.BinaryCIFFile.read(buf)["b"]["c"]["x"]
                return "ok", {"oc": "ok", "c": _project_col(back)}
            except Exception:  # noqa: BLE001
                return "Rejected", {"oc": "Rejected", "c": None}
    # write operations of the owner: exceptions are errors of the driver (the generators only choose possible ones)
    if kind == "set_data":
        a = col.data.array
        idx = slice(None) if op[2] else slice(len(a) - 1, len(a))
        a[idx] = _bumped(a[idx], t)
    elif kind == "set_mask":
        if col.mask is not None:
            m = col.mask.array
            idx = slice(None) if op[2] else slice(len(m) - 1, len(m))
            m[idx] = (m[idx] + 1) % 3
    elif kind == "assign":
        a = col.data.array
        cat[name] = px.BinaryCIFColumn(
            px.BinaryCIFData(_bumped(np.array(a, copy=True), t)),
            None if col.mask is None else px.BinaryCIFData((np.array(col.mask.array, copy=True) + 1) % 3))
    else:
        raise KeyError(kind)
    return "ok", none


def run_column(C, hist):
    """Build the column inside a file, perform the operations; -> the outcome of every operation, what every
    serialisation among them gave back, the column in memory afterwards and as read back from the written file."""
    import biotite.structure.io.pdbx as px

    col = px.BinaryCIFColumn(px.BinaryCIFData(to_numpy(C["d"])),
                             None if not C["m"] else px.BinaryCIFData(to_numpy({"t": 4, "v": C["m"][0]})))
    cat = px.BinaryCIFCategory({"x": col})
    f = px.BinaryCIFFile({"b": px.BinaryCIFBlock({"c": cat})})
    ocs, outs = [], []
    for op in hist:
        oc, o = apply_op(cat, "x", C["d"]["t"], op)
        ocs.append(oc)
        outs.append(o)
    out = {"ocs": ocs, "outs": outs, "mem": _project_col(cat["x"]), "fin": None}
    try:
        buf = io.BytesIO()
        f.write(buf)
        buf.seek(0)
        out["fin"] = {"oc": "ok", "c": _project_col(px.BinaryCIFFile.read(buf)["b"]["c"]["x"])}
    except Exception as e:  # noqa: BLE001
        out["fin"] = {"oc": "Rejected", "c": None, "error": type(e).__name__}
    return out


def _same_out(want, got):
    if want["oc"] == "values":
        # compress(): the rows and the mask; integer data in whichever integer type compress() chose
        w, g = want["c"], got["c"]
        return got["oc"] == "ok" and w["m"] == g["m"] and w["d"]["v"] == g["d"]["v"] and (
            w["d"]["t"] == g["d"]["t"] or (w["d"]["t"] in range(1, 7) and g["d"]["t"] in range(1, 7)))
    return want["oc"] == got["oc"] and (want["oc"] != "ok" or want["c"] == got["c"])


def column_case_agrees(exp, r):
    """exp = {"mem", "outs", "fin"} from the specification, r = run_column(...)."""
    return (r["mem"] == exp["mem"] and len(r["outs"]) == len(exp["outs"])
            and all(_same_out(w, g) for w, g in zip(exp["outs"], r["outs"])) and _same_out(exp["fin"], r["fin"]))


def exec_column_cases(item):
    from harness.tlabind.pool import progress

    mism, n, ocs = [], 0, {}
    for case in item["cases"]:
        progress({"col": case["col"], "hist": case["hist"]})
        r = run_column(case["col"], case["hist"])
        n += 1
        for op, oc in zip(case["hist"], r["ocs"]):
            key = f"{op[0]}:{oc}"
            ocs[key] = ocs.get(key, 0) + 1
        ocs[f"final_write:{r['fin']['oc']}"] = ocs.get(f"final_write:{r['fin']['oc']}", 0) + 1
        exp = {"mem": case["exp"], "outs": case["outs"], "fin": case["fin"]}
        if not column_case_agrees(exp, r):
            mism.append({"kind": "column", "col": case["col"], "hist": case["hist"], "sit": case["sit"],
                         "expected": exp, "observed": r})
    return {"mismatch": mism, "n": n, "ocs": ocs}


def warmup():
    import biotite.structure.io.pdbx  # noqa: F401
    import msgpack  # noqa: F401


# --------------------------------------------------------------------------- S3 generators
def _fin(fx):
    return {"k": "fin", "fx": int(fx), "ex": True}


def _rand_int_array(rng, t, n, small):
    lo = {1: -128, 2: -32768, 3: -2 ** 29, 4: 0, 5: 0, 6: 0}[t]
    hi = {1: 127, 2: 32767, 3: 2 ** 29, 4: 255, 5: 65535, 6: 2 ** 29}[t]
    if small is not None:
        lo, hi = max(lo, -small), min(hi, small)
    mode = rng.random()
    vals = []
    cur = rng.randint(lo, hi)
    for _ in range(n):
        if mode < 0.3:                       # runs
            if rng.random() < 0.3:
                cur = rng.randint(lo, hi)
        elif mode < 0.55:                    # slowly varying
            cur = min(hi, max(lo, cur + rng.randint(-3, 3)))
        elif mode < 0.8:                     # boundaries
            cur = rng.choice([lo, lo + 1, hi, hi - 1, 0, 1, -1 if lo < 0 else 0, 127, 128, 255, 256, -128, -129])
            cur = min(hi, max(lo, cur))
        else:
            cur = rng.randint(lo, hi)
        vals.append(cur)
    return {"t": t, "v": vals}


def _rand_float_elem(rng, t, F, special):
    r = rng.random()
    if special and r < 0.04:
        return {"k": rng.choice(["nan", "pinf", "ninf"]), "fx": 0, "ex": True}
    if special and r < 0.08:
        w = rng.choice([1025, -2048, 5000]) if t == 32 else rng.choice([1025, 5000, 3000000, -3000000, 2 ** 30])
        return {"k": "whole", "fx": int(w), "ex": True}
    # dyadic value with few significant bits so that x * F is exact in the float type
    bits = 12 if t == 32 else 20
    cap = ((1 << 24) // max(F, 1) - 1) if t == 32 else (1 << 30) - 1
    m = rng.randint(-(1 << bits), 1 << bits)
    sh = rng.choice([0, 4, 7, 10, 14, 17, 20]) if t == 33 else rng.choice([7, 10, 14, 17])
    fx = m << sh
    while abs(fx) >= (1 << 30) or (t == 32 and (abs(fx) >> 7 if fx % 128 == 0 else abs(fx)) > cap):
        m //= 2
        fx = m << sh
    return _fin(fx)


def _rand_int_chain(rng, t, vals):
    chain = []
    mx = max([abs(v) for v in vals] + [0])
    if rng.random() < 0.45:
        og = [] if rng.random() < 0.7 or not vals else [rng.choice(vals)]
        chain.append(["DE", [] if rng.random() < 0.6 else [t], og])
    if rng.random() < 0.45:
        chain.append(["RL", [] if rng.random() < 0.8 else [len(vals) + rng.choice([0, 0, 1])], []])
    if rng.random() < 0.45 and mx <= 20000:
        bc = rng.choice([1, 2, 2, 3]) if mx <= 3000 else 2
        uns = [] if rng.random() < 0.7 else [rng.random() < 0.5]
        chain.append(["IP", bc, [], uns])
    last = [] if rng.random() < 0.6 or (chain and chain[-1][0] == "IP") else [rng.choice([1, 2, 3, 4, 5, 6])]
    chain.append(["BA", last])       # Dom_Chain: the ByteArray after IntegerPacking keeps the packed type
    return chain


def _sci_elem(rng, t, sig_digits, exp10):
    """A Dom_SciElem value with `sig_digits` random significant digits and leading digit at 10^exp10
    (None when the draw is not in the domain: too close to a power of ten / outside the normal range)."""
    sig = rng.randint(10 ** (sig_digits - 1), 10 ** sig_digits - 1) if sig_digits > 1 else rng.randint(2, 9)
    m = sig * 10 ** (9 - sig_digits)
    p = exp10 - 8
    maxdec = 38 if t == 32 else 308
    if not (100100000 <= m <= 999000000) or 9 + p > maxdec - 1 or 8 + p < -(33 if t == 32 else 307):
        return None
    return {"k": "num", "m": m if rng.random() < 0.6 else -m, "p": p}


def _rand_sci_array(rng, t, n):
    """Float arrays of decimal floats: one magnitude profile per array."""
    profile = rng.choice(["tiny", "tiny", "coords", "fractions", "onesided", "onesided", "boundary", "boundary",
                          "large", "wide"])
    lowest = -30 if t == 32 else rng.choice([-30, -120, -290])
    base = rng.randint(lowest, -8)
    vals = []
    while len(vals) < n:
        r = rng.random()
        if r < 0.03:
            vals.append({"k": rng.choice(["nan", "pinf", "ninf"]), "m": 0, "p": 0})
            continue
        if r < 0.08:
            vals.append({"k": "num", "m": 0, "p": 0})
            continue
        if profile == "tiny":
            x = _sci_elem(rng, t, rng.randint(1, 6), base + rng.randint(-2, 2))
        elif profile == "coords":
            e = rng.randint(-1, 2)
            x = _sci_elem(rng, t, e + 4, e)                      # three decimals
        elif profile == "fractions":
            x = _sci_elem(rng, t, rng.randint(1, 4), rng.randint(-6, -1))
        elif profile == "large":
            x = _sci_elem(rng, t, rng.randint(1, 7), rng.randint(5, 30 if t == 32 else 200))
        elif profile == "wide":
            x = _sci_elem(rng, t, rng.randint(1, 5), rng.randint(-36, 36) if t == 32 else rng.randint(-300, 300))
        else:
            x = _sci_elem(rng, t, rng.randint(1, 4), rng.randint(-4, 1))
        if x is not None:
            vals.append(x)
    if profile == "onesided" and n >= 2:
        # values of one sign far beyond the others: only one side can leave int32 after scaling
        sign = rng.choice([1, -1])
        for _ in range(rng.choice([1, 1, 2])):
            x = None
            while x is None:
                x = _sci_elem(rng, t, rng.randint(1, 3), rng.randint(6, 12))
            x["m"] = sign * abs(x["m"])
            vals[rng.randrange(n)] = x
    if profile == "boundary" and n >= 2:
        # a partner that needs `dec` decimals, and a value whose scaled magnitude is around int32 max
        dec = rng.randint(1, 5)
        two = rng.choice([k for k in range(11, 100) if k % 10])
        vals[0] = {"k": "num", "m": two * 10 ** 7, "p": -dec - 7}
        m = 214748365 + rng.choice([-1, 0, 1, rng.randint(-400, 400), rng.randint(-40000, 40000)])
        vals[rng.randrange(1, n)] = {"k": "num", "m": m * rng.choice([1, -1]), "p": 1 - dec}
    return {"t": t, "v": vals}


def gen_trace(item):
    from harness.tlabind.pool import progress

    rng = random.Random(item["seed"])
    events = []
    for _ in range(item["n"]):
        kind = rng.choice(["chain"] * 6 + ["compress"] * 3 + ["compressx"] * 3 + ["file"] * 2)
        n = rng.choice([0, 1, 1, 2, 3, 5, 8, 13, 21, 40, 60])
        family = rng.choice(["int", "int", "float", "float", "str"])
        if kind == "file":
            events.append(_file_event(rng))
            continue
        if kind == "compressx":
            t = rng.choice([32, 33])
            A = _rand_sci_array(rng, t, max(n, 1) if rng.random() < 0.9 else 2)
            T = rng.choice([10, 100, 1000, 10000] + ([100000, 1000000, 10000000, 100000000] if t == 33 else []))
            if T > 1000000:          # Dom_SciDeepTol: no values near the bottom of the float range
                A["v"] = [x if x["k"] != "num" or x["m"] == 0 or 8 + x["p"] >= -290 else {"k": "num", "m": 0, "p": 0}
                          for x in A["v"]]
            rep = rng.choice(reps_of(A))
            level = rng.choice(LEVELS)
            progress({"kind": kind, "A": A, "T": T, "rep": rep, "level": level})
            events.append(sci_event(A, T, rep, level))
            continue
        if family == "int" and kind == "compress" and rng.random() < 0.5:
            # arrays on which one of the candidate chains of compress() clearly wins:
            # ramps (Delta), long runs (RunLength), small numbers in a wide type (IntegerPacking)
            m = rng.randint(30, 60)
            shape = rng.choice(["ramp", "climb", "climb", "runs", "small", "sawtooth", "edge", "edge"])
            base = rng.choice([0, 1000, 70000, -70000, -500, 2 ** 28, -(2 ** 28)])
            if shape == "ramp":
                vals = [base + k * rng.choice([1, 1, 2, 3]) for k in range(m)]
            elif shape == "climb":       # irregular positive steps: Delta + unsigned packing wins
                vals, cur = [], base
                for _k in range(m):
                    vals.append(cur)
                    cur += rng.randint(1, 90)
            elif shape == "runs":
                vals = []
                while len(vals) < m:
                    vals += [base + rng.randint(0, 3) * 1000] * rng.randint(5, 20)
                vals = vals[:m]
            elif shape == "edge":
                # the largest / smallest element sits exactly on a type boundary of _to_smallest_integer_type
                top = rng.choice([255, 256, 65535, 65536, 127, 128, 32767, 32768])
                neg = rng.random() < 0.4
                lo_ = rng.choice([-128, -129, -32768, -32769]) if neg else 0
                m = rng.randint(2, 12)
                vals = [rng.randint(lo_, top) for _ in range(m - 2)] + [top, lo_]
                rng.shuffle(vals)
            elif shape == "small":
                vals = [rng.randint(-100, 100) for _ in range(m - 1)] + [base]
            else:
                vals = [base + (k % 7) for k in range(m)]
            A = {"t": 3, "v": vals}
            chain = []
        elif family == "int":
            t = rng.choice([1, 2, 3, 4, 5, 6])
            A = _rand_int_array(rng, t, n, rng.choice([None, 300, 3000]))
            chain = _rand_int_chain(rng, t, A["v"])
        elif family == "float":
            t = rng.choice([32, 33])
            mode = rng.random()
            if mode < 0.5 or kind == "compress":
                F = rng.choice([1, 2, 8, 10, 100, 1000])
                A = {"t": t, "v": [_rand_float_elem(rng, t, F, True) for _ in range(n)]}
                chain = [["FP", F, [] if rng.random() < 0.7 else [t]]]
                safe = all(x["k"] == "fin" for x in A["v"])
                if safe and rng.random() < 0.5:
                    chain += _rand_int_chain(rng, 3, [x["fx"] * F // SCALE for x in A["v"]])
                    chain = [e for e in chain if not (e[0] == "DE" and e[1] not in ([], [3]))]
                    if chain[-1][1] not in ([], [3]) or chain[-2][0] == "IP":
                        chain[-1][1] = []
                else:
                    chain.append(["BA", []])
            elif mode < 0.8:
                lo, hi, k = rng.choice([(0, 1, 3), (0, 1, 5), (-2, 2, 9), (10, 20, 21), (0, 8, 65)])
                A = {"t": t, "v": [_fin(rng.randint((lo - 1) * 8, (hi + 1) * 8) * (SCALE // 8)) if rng.random() < 0.9
                                   else _rand_float_elem(rng, t, 1, True) for _ in range(n)]}
                chain = [["IQ", lo * SCALE, hi * SCALE, k, []], ["BA", []]]
            else:
                A = {"t": t, "v": [_rand_float_elem(rng, t, 1, True) for _ in range(n)]}
                chain = [["BA", [] if rng.random() < 0.5 else [t]]]
        else:
            alpha = ["a", "b", "c", "1", "u1", "u2", "u3", "sp", "sq", "dq", "_"]
            pool_ = [[rng.choice(alpha) for _ in range(rng.choice([0, 1, 1, 2, 3, 6]))] for _ in range(rng.randint(1, 6))]
            A = {"t": STR_T, "v": [rng.choice(pool_) for _ in range(n)]}
            uniq = []
            for s in A["v"]:
                if s not in uniq:
                    uniq.append(s)
            st = [] if rng.random() < 0.7 else [uniq if rng.random() < 0.6 else uniq[:-1] + [["z", "z"]]]
            de = _rand_int_chain(rng, 3, list(range(len(uniq))))
            oe = _rand_int_chain(rng, 3, [0, 1])
            de = [e for e in de if not (e[0] == "DE" and e[1] not in ([], [3]))]
            oe = [e for e in oe if e[0] not in ("RL", "IP") and not (e[0] == "DE" and e[1] != [])]
            if oe[-1][1] not in ([], [3]):
                oe[-1][1] = [3]
            if len(de) >= 2 and de[-2][0] == "IP":
                de[-1][1] = []
            chain = [["SA", st, de, oe]]
        progress({"kind": kind, "A": A, "chain": chain})
        if kind == "chain":
            rep = rng.choice([x for x in reps_of(A) if rep_safe(chain, A, x)])
            r = run_chain(A, chain, rep)
            events.append({"kind": "chain", "A": A, "chain": chain, "rep": rep, "oc": r["oc"], "B": r["B"],
                           "ser_eq": r["ser_eq"], "data_eq": r["data_eq"]})
        else:
            if family == "float":
                T = rng.choice([10, 100, 1000])
                # values too close to zero make tol * |x| smaller than the resolution of the check
                # ... and values close to 1024 may leave the fixed-point universe within the tolerance
                A = {"t": A["t"], "v": [x for x in A["v"] if x["k"] != "fin" or x["fx"] == 0
                                        or 2 * T <= abs(x["fx"]) < 900 * SCALE]}
                A["v"] = [x if x["k"] != "whole" or abs(x["fx"]) >= 2048 else {"k": "whole", "fx": 2048, "ex": True}
                          for x in A["v"]]
            else:
                T = 1000
            if family == "int" and A["t"] == 6:
                A = {"t": 6, "v": [min(v, 2 ** 29) for v in A["v"]]}
            if len(A["v"]) == 0:
                continue                                 # compress() of an empty array is refused (min of nothing)
            rep = rng.choice(reps_of(A))
            level = rng.choice(LEVELS)
            r = run_compress(A, T, rep, level)
            events.append({"kind": "compress", "A": A, "T": T, "rep": rep, "level": level, "chain": r["chain"],
                           "hasFP": r["hasFP"],
                           "d": r["d"], "oc": r["oc"], "B": r["B"]})
    return {"events": events}


READ_OPS = [["as_array", dt, fill] for dt in ("none", "same", "kind", "cross", "str") for fill in (False, True)] + [
    [op, "none", False] for op in ("as_item", "serialize", "compress", "write")]


def _file_event(rng):
    """A file with columns in random memory representations; read accesses; write -> read; read accesses on the
    file that was read; write -> read."""
    import biotite.structure.io.pdbx as px

    cin, reps = [], []
    cats = {}
    n = rng.randint(1, 6)
    for j in range(rng.randint(1, 4)):
        fam = rng.choice(["int", "float", "str"])
        if fam == "int":
            A = _rand_int_array(rng, rng.choice([1, 2, 3, 4, 5]), n, 3000)
        elif fam == "float":
            t = rng.choice([32, 33])
            A = {"t": t, "v": [_rand_float_elem(rng, t, 1, True) for _ in range(n)]}
            A["v"] = [x if x["k"] != "nan" else _fin(0) for x in A["v"]]     # NaN != NaN in numpy equality
        else:
            A = {"t": STR_T, "v": [[rng.choice("abc") for _ in range(rng.randint(0, 3))] for _ in range(n)]}
        M = [] if rng.random() < 0.4 else [{"t": 4, "v": [rng.choice([0, 0, 1, 2]) for _ in range(n)]}]
        name = f"k{j}"
        rp = [rng.choice(reps_of(A)), rng.choice(reps_of(M[0])) if M else "native"]
        cin.append({"name": name, "A": A, "M": M})
        reps.append(rp)
        cats[name] = px.BinaryCIFColumn(px.BinaryCIFData(to_numpy(A, rp[0])),
                                        None if not M else px.BinaryCIFData(to_numpy(M[0], rp[1])))
    # names of the block and the category in several forms (a category's own name may begin with the
    # underscore that the serialised form puts in front of every category name)
    bn = rng.choice(["b", "b", "_b", "1ABC", "b_"])
    cn = rng.choice(["c", "c", "_c", "__c", "c_x", "_c_", "C"])
    f = px.BinaryCIFFile({bn: px.BinaryCIFBlock({cn: px.BinaryCIFCategory(cats)})})

    def operations(file):
        """0-4 operations on random columns: read accesses, in-place writes of the data / mask array, re-assignment;
        every serialize / write among them is read back."""
        hist, outs = [], []
        cat = file[list(file.keys())[0]]
        cat = cat[list(cat.keys())[0]]
        for _ in range(rng.choice([0, 1, 2, 3, 4])):
            j = rng.randrange(len(cin))
            op = rng.choice(READ_OPS) if rng.random() < 0.55 else rng.choice(WRITE_OPS)
            name = cin[j]["name"]
            if not can_write_in_place(cat[name], op):
                op = WRITE_OPS[-1]
            _oc, o = apply_op(cat, name, cin[j]["A"]["t"], op)
            hist.append([j + 1, op])
            if op[0] in ("serialize", "write"):
                c = o["c"] or {"d": {"t": 0, "v": []}, "m": []}
                outs.append({"k": len(hist), "oc": o["oc"], "A": c["d"],
                             "M": [] if not c["m"] else [{"t": 4, "v": c["m"][0]}]})
        return hist, outs

    def written(file):
        buf = io.BytesIO()
        file.write(buf)
        buf.seek(0)
        g = px.BinaryCIFFile.read(buf)
        bnames = [str(k) for k in g.keys()]
        cnames = [str(k) for k in g[bnames[0]].keys()]
        cat = g[bnames[0]][cnames[0]]
        cout = [{"name": k, "A": from_numpy(cat[k].data.array),
                 "M": [] if cat[k].mask is None else [from_numpy(cat[k].mask.array)]} for k in cat]
        return g, cout, bool(g == file) and bool(file == g), [bnames, cnames]

    err = lambda e: [{"name": "<%s>" % type(e).__name__, "A": {"t": 0, "v": []}, "M": []}]  # noqa: E731
    ev = {"kind": "file", "cin": cin, "reps": reps, "hist": [], "outs": [], "werr": False, "cout": [], "eq": False,
          "hist2": [], "outs2": [], "werr2": False, "cout2": [], "eq2": False,
          "nm": [[bn], [cn]], "nm1": [[bn], [cn]], "nm2": [[bn], [cn]]}
    ev["hist"], ev["outs"] = operations(f)
    try:
        g, ev["cout"], ev["eq"], ev["nm1"] = written(f)
    except Exception as e:  # noqa: BLE001
        ev["werr"] = True
        ev["cout"] = ev["cout2"] = err(e)
        return ev
    ev["hist2"], ev["outs2"] = operations(g)
    try:
        _h, ev["cout2"], ev["eq2"], ev["nm2"] = written(g)
    except Exception as e:  # noqa: BLE001
        ev["werr2"] = True
        ev["cout2"] = err(e)
    return ev


# --------------------------------------------------------------------------- classification / replay
ALL_REPS = {"native", "swapped", "strided", "reversed", "readonly", "unaligned", "foreign", "wide", "list"}
KB2FINDING = {"FixedPointUnchecked": "C05-fixedpoint-unchecked", "IntervalUnchecked": "C05-interval-unchecked",
              "DeltaUint64Promoted": "C05-delta-uint64-promoted",
              "CompressFloatUnchecked": "C05-compress-float-unchecked",
              "CompressDecimalsUnbounded": "C05-compress-decimals-unbounded",
              "CompressFactorUnserialisable": "C05-compress-factor-unserialisable",
              "CompressFloat32RangeCheck": "C05-compress-float32-range-check"}


def classify(mm):
    kb = mm.get("kb") or []
    if not kb:
        return None
    if mm.get("kind") == "case" and not mm.get("known_shape"):
        return None
    if mm.get("kind") == "event" and not mm.get("tlc_known"):
        return None
    if mm.get("kind") not in ("case", "event"):
        return None
    if mm.get("ekind") == "compressx":
        # Trace.tla names a class only when the event has exactly its shape; one class per event
        return KB2FINDING.get(kb[0]) if len(kb) == 1 and kb[0].startswith("Compress") else None
    for k in ("CompressFloatUnchecked", "FixedPointUnchecked", "IntervalUnchecked"):
        if k in kb:
            return KB2FINDING[k]
    if kb == ["DeltaUint64Promoted"] and mm.get("rep") == "wide" and mm.get("expected", {}).get("oc") == "ok":
        return KB2FINDING[kb[0]]
    return None


def replay(record):
    if record.get("kind") == "case" or (record.get("kind") == "event" and record.get("ekind") == "chain"):
        r = run_chain(record["A"], record["chain"], record.get("rep", "native"))
        exp = record["expected"]["oc"]
        return {"observed": r, "expected": record["expected"],
                "mismatch": (r["oc"] != exp) or (exp == "ok" and record.get("kind") == "event")}
    if record.get("kind") == "event" and record.get("ekind") == "compress":
        r = run_compress(record["A"], record["T"], record.get("rep", "native"), record.get("level", "data"))
        return {"observed": r, "input": record["A"], "mismatch": r["B"] != record["A"]}
    if record.get("kind") == "column":
        r = run_column(record["col"], record["hist"])
        return {"observed": r, "expected": record["expected"],
                "mismatch": not column_case_agrees(record["expected"], r)}
    if record.get("kind") == "event" and record.get("ekind") == "compressx":
        r = run_compress_sci(record["A"], record["T"], record.get("rep", "native"), record.get("level", "data"))
        return {"observed": r, "input": record["A"], "recorded": {k: record.get(k) for k in ("oc", "B", "packed")},
                "mismatch": r["oc"] != "ok" or r["packed"] != "ok" or r["B"] == record.get("B")}
    return {"error": "record kind not replayable", "record": record}


# --------------------------------------------------------------------------- orchestration
def run(ctx):
    from harness.tlabind import helpers, pool, tlc
    from harness.tlabind.core import Vacuity
    from harness.tlabind.tlaval import parse_value, to_py

    quick = ctx.quick
    ctx.assumptions += [
        "float elements are dyadic numbers with 20 fractional bits and |x| < 1024, integer-valued floats below 2^31, "
        "NaN and the infinities; FixedPoint factors are integers <= 1000 and x*factor is exact in the float type "
        "(Dom_FixedExact); IntervalQuantization steps are exact (Dom_IQ); decoded values are compared with one unit "
        "(2^-20) of slack plus the float32 representation error",
        "integers: all BinaryCIF widths; 32-bit values stay within +-2^29 where Delta / packing arithmetic is "
        "involved (TLC integers are 32 bit), the 32-bit boundary values only through ByteArray / RunLength; "
        "UINT32 only below 2^31; int64 input is not modelled",
        "type-correct chains: RunLength / Delta / IntegerPacking receive integer arrays, ByteArray of a float array "
        "keeps its type, Delta's src_type (if given) is the type of the data",
        "empty arrays: encodings that read their parameters from the first element (RunLength, Delta without origin, "
        "IntegerPacking without is_unsigned) refuse them; modelled as refusals",
        "compress(): relative tolerances 1e-1 .. 1e-3 on values with |x| >= 2*T*2^-20; the chain it chooses is read "
        "from the returned object",
        "compress() on floats of any magnitude: decimal floats m*10^p with a nine-digit mantissa that is not within "
        "0.1 % of a power of ten, normal numbers of the float type below 10^(MaxDec-1) (MaxDec = 38 / 308), zero, NaN, "
        "infinities; tolerances 1/T with 2 <= T <= 1e8 (float32: 1e4; above 1e6 only on values >= 1e-282); compress() called "
        "on the data, a column, a category, a block or a file holding the array (the tolerance clause is the same); "
        "decoded values are compared in units of 10^p "
        "with two units of slack (float32: plus 2^-20 relative); arrays on which float rounding noise could decide "
        "the search for the decimals differently from decimal arithmetic (Dom_SciDecisive) are skipped and counted; "
        "a call that uses more than 0.5 s of CPU time (an ordinary call: < 10 ms) is recorded as 'Diverges'",
        "memory representations of the input array: native, non-native byte order, strided and reversed views, "
        "read-only, unaligned, all at once, 32-bit values in int64 / uint64, Python lists (non-empty) - RepsOf; the "
        "machine is little-endian; the INT_MIN values of the recorded uint64 Delta defect are not pushed through "
        "IntegerPacking (Dom_RepSafe)",
        "columns with histories: int8 / int32 / float32 / float64 / string columns of 1-2 (thorough 3) rows with every "
        "mask pattern class, histories of at most 2 (thorough 3) operations: read accesses, in-place writes into the "
        "data / mask array the column holds (through column.data.array / column.mask.array; one row or all rows; the new "
        "value is Bump: neighbouring integer, negated float, first character replaced), re-assignment of the column; the "
        "outcome and the returned value of a read access are not judged, only the column after it; every serialize / "
        "write / compress in a history is read back and must give the content of that moment; a serialize / write of a "
        "string column whose data hold a string outside the table an earlier serialisation filled into its encoding is "
        "refused (outcome of the model, the property allows refusals); float columns hold multiples of 1/4, on which "
        "compress() at its default tolerance is exact; in recorded files in-place writes are only chosen on writable arrays",
        "trusted: TLC, the TLA+ value parser, the float <-> fixed-point projection (fractions.Fraction), numpy, msgpack",
    ]
    ctx.cov["rule"] = ("non-trivial = case whose chain has >= 2 encodings or a lossy encoding, or whose array has "
                       ">= 2 distinct values / recorded event with an array of >= 2 elements / column case with a "
                       "non-empty history and a mask that marks a row")
    done = []
    # thorough: the rich value sets at length <= 2, and the quick value sets at length <= 3
    for cfg in (["MC.cfg"] if quick else ["MC_thorough.cfg", "MC_thorough3.cfg"]):
        res, states = helpers.dump_states(ctx, "MCEnc", cfg, stage="S1", workers=12, timeout=2400)
        part = [s for s in states if s["done"]]
        if not part or 2 * len(part) != res.distinct:
            raise RuntimeError(f"MCEnc/{cfg}: {len(part)} evaluated states of {res.distinct}")
        seen = {json.dumps([s["chain"], s["arr"]], sort_keys=True) for s in done}
        done += [s for s in part if json.dumps([s["chain"], s["arr"]], sort_keys=True) not in seen]
    ctx.exhaustive = True
    # the order of a TLC dump depends on the scheduling of its workers: canonical order first, so that the seeded
    # shuffles / draws below give the same run for the same VERIF_SEED
    done.sort(key=lambda s: json.dumps([s["chain"], s["arr"]], sort_keys=True))
    per_exp, per_kb, per_kind = {}, {}, {}
    for s in done:
        per_exp[s["exp"]] = per_exp.get(s["exp"], 0) + 1
        for k in s["kb"]:
            per_kb[k] = per_kb.get(k, 0) + 1
        for e in s["chain"]:
            per_kind[e[0]] = per_kind.get(e[0], 0) + 1
    ctx.cov["cases"] = len(done)
    ctx.cov["cases_per_expected_outcome"] = per_exp
    ctx.cov["cases_per_kb_class"] = per_kb
    ctx.cov["cases_per_encoding_kind"] = per_kind
    per_kbrep = {}
    for s in done:
        for _rep, k, oc in s["kbrep"]:
            per_kbrep[f"{k}:{oc}"] = per_kbrep.get(f"{k}:{oc}", 0) + 1
    ctx.cov["cases_per_representation_dependent_kb_class"] = per_kbrep
    if not any(k.startswith("DeltaUint64Promoted:") for k in per_kbrep):
        raise Vacuity(f"the representation-dependent recorded class is not enumerated: {per_kbrep}")
    if set(per_exp) != {"ok", "Rejected"} or not {"FixedPointUnchecked", "IntervalUnchecked"} <= set(per_kb):
        raise Vacuity(f"outcomes / recorded classes not all enumerated: {per_exp} {per_kb}")
    if not {"BA", "FP", "IQ", "RL", "DE", "IP", "SA"} <= set(per_kind):
        raise Vacuity(f"encoding kinds not all enumerated: {per_kind}")
    cases = [{k: s[k] for k in ("chain", "arr", "exp", "acc", "kb", "form", "reps", "kbrep")} for s in done]
    ctx.rng.shuffle(cases)
    items = [{"cases": c} for c in helpers.chunked(cases, 60)]
    results = helpers.run_pool(ctx, "harness.drivers.c05:exec_cases", items, stage="S2")
    n = sum(r.get("n", 0) for r in results)
    ctx.traces_validated += n
    ctx.evaluations += n
    ctx.cov["s2_cases_executed"] = n
    # every case is executed under every memory representation the specification lists for its array (reps)
    per_rep = {}
    for r in results:
        for k, v in r.get("per_rep", {}).items():
            per_rep[k] = per_rep.get(k, 0) + v
    ctx.cov["s2_executions_per_representation"] = per_rep
    if set(per_rep) != ALL_REPS or n != sum(len(c["reps"]) for c in cases):
        raise Vacuity(f"S2: not every memory representation was executed: {per_rep}")
    ctx.cov["s2_encoded_bytes_differ_from_model"] = sum(r.get("formdiff", 0) for r in results)
    ctx.cov["s2_filled_parameters_differ_from_model"] = sum(r.get("paramdiff", 0) for r in results)
    for key, what in (("s2_encoded_bytes_differ_from_model", "encoded bytes"),
                      ("s2_filled_parameters_differ_from_model", "filled-in encoding parameters")):
        if ctx.cov[key]:
            ctx.note(f"diagnostic: {what} differ from the model's in {ctx.cov[key]} executed cases "
                     "(decoded values agree)")
    ctx.nontrivial += sum(1 for s in done if len(s["chain"]) >= 2 or s["chain"][0][0] in ("FP", "IQ", "SA")
                          or len({json.dumps(x, sort_keys=True) for x in s["arr"]["v"]}) >= 2)
    for c in cases[:3]:
        ctx.sample({"s2_case": {"chain": c["chain"], "arr": c["arr"], "expected": c["exp"]}})

    # ================================================================= compress() as an enumerated operation
    cdone = []
    for cfg in (["MCC.cfg"] if quick else ["MCC_thorough.cfg", "MCC_thorough3.cfg"]):
        res, states = helpers.dump_states(ctx, "MCCompress", cfg, stage="S1", workers=12, timeout=2400)
        part = [s for s in states if s["done"]]
        if not part or 2 * len(part) != res.distinct:
            raise RuntimeError(f"MCCompress/{cfg}: {len(part)} evaluated states of {res.distinct}")
        ctx.cov["compress_cases_outside_domain"] = ctx.cov.get("compress_cases_outside_domain", 0) + sum(
            1 for s in part if not s["dom"])
        seen = {json.dumps([s["arr"], s["tol"]], sort_keys=True) for s in cdone}
        cdone += [s for s in part if s["dom"] and json.dumps([s["arr"], s["tol"]], sort_keys=True) not in seen]
    if 10 * ctx.cov["compress_cases_outside_domain"] > len(cdone):
        raise Vacuity(f"MCCompress: {ctx.cov['compress_cases_outside_domain']} enumerated cases outside the domain")
    cdone.sort(key=lambda s: json.dumps([s["fam"], s["arr"], s["tol"]], sort_keys=True))
    per_ckb, per_fam, per_sit = {}, {}, {}
    for s in cdone:
        per_fam[s["fam"]] = per_fam.get(s["fam"], 0) + 1
        for k in s["kb"]:
            per_ckb[k] = per_ckb.get(k, 0) + 1
        for k in s["sit"]:
            per_sit[k] = per_sit.get(k, 0) + 1
    ctx.cov["compress_cases"] = len(cdone)
    ctx.cov["compress_cases_per_family"] = per_fam
    ctx.cov["compress_cases_per_kb_class"] = per_ckb
    ctx.cov["compress_cases_per_situation"] = per_sit
    ctx.cov["compress_cases_decimals_range"] = [f([s["dstar"] for s in cdone if s["fam"] == "sci" and s["impl"]["fits"]])
                                                for f in (min, max)]
    # the situations in which defects of the float branch were found (MCCompress.tla Situations) must be
    # enumerated whether or not the defect is still there; the recorded classes only while they are not repaired
    # (CompressDecimalsUnbounded, CompressFactorUnserialisable, CompressFloat32RangeCheck: all three repaired,
    # KB_SciUnbounded = KB_SciFactor = KB_SciFloat32Range = FALSE, so per_ckb is expected to be empty)
    if set(per_fam) != {"sci", "int"} or not {
            "DecimalsUnreachable", "FactorBeyondUint64", "Float32Boundary"} <= set(per_sit):
        raise Vacuity(f"compress() families / situations / recorded classes not all enumerated: "
                      f"{per_fam} {per_sit} {per_ckb}")
    # classes of the model's float branch that the enumeration must contain (decided by the specification,
    # not by what the implementation did): many decimals with a lossy fixed-point result, negative decimals,
    # a scaled value beyond int32 on the negative side only / the positive side only (fall-back)
    sci = [s for s in cdone if s["fam"] == "sci" and s["impl"]["oc"] == "ok" and len(s["arr"]["v"]) > 1]
    fixed = [s for s in sci if s["impl"]["fits"]]
    fallback = [s for s in sci if not s["impl"]["fits"] and all(x["k"] == "num" for x in s["arr"]["v"])
                and "DecimalsUnreachable" not in s["sit"]]

    def beyond(s, sign):      # SciOverflow, re-stated only to count the classes
        return any(x["m"] * sign > 0 and x["p"] + s["dstar"] >= 1 and
                   (x["p"] + s["dstar"] > 9 or abs(x["m"]) * 10 ** (x["p"] + s["dstar"]) > 2 ** 31 - 1)
                   for x in s["arr"]["v"])
    classes = {"fixed_point_16_to_19_decimals": sum(1 for s in fixed if 15 < s["dstar"] < 20),
               "fixed_point_16_to_19_decimals_rounded": sum(1 for s in fixed if 15 < s["dstar"] < 20
                                                            and len(s["impl"]["ys"]) == 2),
               "fixed_point_negative_decimals": sum(1 for s in fixed if s["dstar"] < 0),
               "fallback_negative_side_only": sum(1 for s in fallback if beyond(s, -1) and not beyond(s, 1)),
               "fallback_positive_side_only": sum(1 for s in fallback if beyond(s, 1) and not beyond(s, -1)),
               "fallback_non_finite": sum(1 for s in sci if any(x["k"] != "num" for x in s["arr"]["v"])),
               "fallback_decimals_unreachable": sum(1 for s in sci if "DecimalsUnreachable" in s["sit"]
                                                    and not s["impl"]["fits"] and len(s["impl"]["ys"]) == 1)}
    ctx.cov["compress_model_classes"] = classes
    if min(classes.values()) == 0:
        raise Vacuity(f"MCCompress: a class of the float branch is not enumerated: {classes}")
    # every case is executed at every container level compress() accepts (levels); memory representations: the
    # native one at the data level, at the other levels representations drawn with the seed (all of them for every
    # level would multiply the events TLC judges by forty; every representation is drawn hundreds of times)
    ccases = [{k: s[k] for k in ("fam", "arr", "tol", "reps", "levels")} for s in cdone]
    crep, clev = {}, {}
    for c in ccases:
        if "native" not in c["reps"] or set(c["levels"]) != set(LEVELS):
            raise Vacuity("MCCompress: a case without the native representation / without all levels")
        others = [r for r in c["reps"] if r != "native"]
        # thorough (twenty times the cases): the data level and two more levels drawn with the seed
        lvs = LEVELS if quick else ["data"] + sorted(ctx.rng.sample(LEVELS[1:], 2), key=LEVELS.index)
        drawn = ctx.rng.sample(others, len(lvs) - 1)
        c["plan"] = [[lv, rp] for lv, rp in zip(lvs, ["native"] + drawn)]
        for lv, rp in c["plan"]:
            crep[rp] = crep.get(rp, 0) + 1
            clev[lv] = clev.get(lv, 0) + 1
    ctx.cov["s2_compress_executions_per_representation"] = crep
    ctx.cov["s2_compress_executions_per_level"] = clev
    ctx.cov["s2_compress_cases_per_tolerance"] = {str(t): sum(1 for c in ccases if c["fam"] == "sci" and c["tol"] == t)
                                                  for t in sorted({c["tol"] for c in ccases})}
    if not ALL_REPS <= set(crep) or set(clev) != set(LEVELS):
        raise Vacuity(f"S2 compress: memory representations / levels not all executed: {crep} {clev}")
    # tolerances on both sides of the default of compress() (1e-6): a call that does not use the tolerance it was
    # given differs from the specification only on the stricter side
    if not any(c["tol"] > 1000000 for c in ccases if c["fam"] == "sci") or not any(
            c["tol"] < 1000000 for c in ccases if c["fam"] == "sci"):
        raise Vacuity("MCCompress: tolerances stricter and looser than the default are not both enumerated")
    ctx.rng.shuffle(ccases)
    citems = [{"cases": c} for c in helpers.chunked(ccases, 40)]
    s2traces = []
    for it, r in zip(citems, pool.run_isolated("harness.drivers.c05:exec_compress_cases", citems, item_timeout=600)):
        if "driver_error" in r:
            raise RuntimeError(f"S2 compress driver error: {r['driver_error']}\n{r.get('tb', '')}")
        if "crash" in r:
            ctx.mismatch({"stage": "S2", "kind": "crash", "signal": r["crash"], "progress": r.get("progress"),
                          "item": it})
        elif len(r["events"]) != sum(len(c["plan"]) for c in it["cases"]):
            raise RuntimeError("S2 compress: an enumerated case was not executed")
        else:
            s2traces.append(r["events"])
    ctx.cov["s2_compress_cases_executed"] = sum(len(t) for t in s2traces)
    ctx.nontrivial += sum(1 for s in cdone if len(s["arr"]["v"]) >= 2)
    ctx.sample({"s2_compress_case": ccases[0]})

    # ================================================================= columns with histories of read accesses
    # thorough: more columns with histories of <= 2 accesses, and the quick columns with histories of <= 3
    hdone = []
    for cfg in (["MCCol.cfg"] if quick else ["MCCol_thorough.cfg", "MCCol_thorough3.cfg"]):
        res, states = helpers.dump_states(ctx, "MCColumn", cfg, stage="S1", workers=12, timeout=2400)
        part = [s for s in states if s["done"]]
        if not part or 2 * len(part) != res.distinct:
            raise RuntimeError(f"MCColumn/{cfg}: {len(part)} evaluated states of {res.distinct}")
        seen = {json.dumps([s["col"], s["hist"]], sort_keys=True) for s in hdone}
        hdone += [s for s in part if json.dumps([s["col"], s["hist"]], sort_keys=True) not in seen]
    hdone.sort(key=lambda s: json.dumps([s["col"], s["hist"]], sort_keys=True))
    per_hsit, per_len = {}, {}
    for s in hdone:
        per_len[len(s["hist"])] = per_len.get(len(s["hist"]), 0) + 1
        for k in s["sit"]:
            per_hsit[k] = per_hsit.get(k, 0) + 1
    ctx.cov["column_cases"] = len(hdone)
    ctx.cov["column_cases_per_history_length"] = per_len
    ctx.cov["column_cases_per_situation"] = per_hsit
    if not {"PlaceholderIntoStoredDtype", "PlaceholderIntoOtherDtype", "AccessWithoutWrite",
            "DataWrittenBetweenSerialisations", "MaskWrittenBetweenSerialisations", "ReassignedBetweenSerialisations",
            "RefusedStringOutsideTable"} <= set(per_hsit) or len(per_len) < 3:
        raise Vacuity(f"MCColumn: situations / history lengths not all enumerated: {per_hsit} {per_len}")
    per_out = {}
    for s in hdone:
        for op, o in zip(s["hist"] + [["final_write"]], s["outs"] + [s["fin"]]):
            if o["oc"] != "none":
                per_out[f"{op[0]}:{o['oc']}"] = per_out.get(f"{op[0]}:{o['oc']}", 0) + 1
    ctx.cov["column_serialisations_expected"] = per_out
    hcases = [{k: s[k] for k in ("col", "hist", "exp", "outs", "fin", "sit")} for s in hdone]
    ctx.rng.shuffle(hcases)
    hres = helpers.run_pool(ctx, "harness.drivers.c05:exec_column_cases",
                            [{"cases": c} for c in helpers.chunked(hcases, 150)], stage="S2")
    nh = sum(r.get("n", 0) for r in hres)
    hocs = {}
    for r in hres:
        for k, v in r.get("ocs", {}).items():
            hocs[k] = hocs.get(k, 0) + v
    ctx.cov["column_cases_executed"] = nh
    ctx.cov["column_access_outcomes"] = hocs
    if nh != len(hcases) or any(f"{op}:ok" not in hocs for op in (
            "as_array", "as_item", "serialize", "compress", "write", "set_data", "set_mask", "assign", "final_write")):
        raise Vacuity(f"S2 columns: an access never succeeded / cases not executed: {nh} of {len(hcases)}, {hocs}")
    ctx.traces_validated += nh
    ctx.evaluations += nh
    ctx.nontrivial += sum(1 for s in hdone if s["hist"] and s["col"]["m"] and any(s["col"]["m"][0]))
    ctx.sample({"s2_column_case": hcases[0]})

    # ================================================================= S3
    ntr = 32 if quick else 1000
    per = 32 if quick else 64
    titems = [{"seed": ctx.rng.randrange(1 << 30), "n": per} for _ in range(ntr)]
    traces = []
    for it, r in zip(titems, pool.run_isolated("harness.drivers.c05:gen_trace", titems, item_timeout=300)):
        if "driver_error" in r:
            raise RuntimeError(f"S3 driver error: {r['driver_error']}\n{r.get('tb', '')}")
        if "crash" in r:
            ctx.mismatch({"stage": "S3", "kind": "crash", "signal": r["crash"], "progress": r.get("progress"),
                          "item": it})
        elif r["events"]:
            traces.append(r["events"])
    # the executed S2 cases of the compress() family are judged by the same TLC run: traces 1 .. n_s2
    n_s2 = len(s2traces)
    s3traces = traces
    traces = s2traces + s3traces
    d = tlc.scratch_dir("c05tr")
    tf = os.path.join(d, "traces.json")
    with open(tf, "w") as fh:
        json.dump(traces, fh)
    res = ctx.tlc("Trace", "Trace.cfg", stage="S2+S3", workers=1, env={"TRACE_FILE": tf}, timeout=2400)
    expect = sum(len(t) + 1 for t in traces)
    if res.distinct != expect:
        raise RuntimeError(f"C05 S3: trace validation visited {res.distinct} states, expected {expect}")

    def vals(tag):
        seen, out = set(), []
        for txt in tlc.printed_values(res.out, tag):
            v = to_py(parse_value(txt))
            if (v[1], v[2]) not in seen:
                seen.add((v[1], v[2]))
                out.append(v)
        return out
    notdom = vals("NOTDOM")
    if notdom:
        e = traces[notdom[0][1] - 1][notdom[0][2] - 1]
        raise RuntimeError(f"C05 S3: generator left the domain in {len(notdom)} events, e.g. "
                           f"{json.dumps({k: e[k] for k in ('A', 'chain') if k in e})[:600]}")
    nev = sum(len(t) for t in traces)
    ctx.traces_validated += sum(len(t) for t in s2traces) + len(s3traces)
    ctx.evaluations += nev
    kinds = {}
    for t in s3traces:
        for e in t:
            kinds[e["kind"]] = kinds.get(e["kind"], 0) + 1
    ctx.cov["s3_traces"] = len(s3traces)
    ctx.cov["s3_events_per_kind"] = kinds
    ctx.cov["s3_outcomes"] = {oc: sum(1 for t in s3traces for e in t if e.get("oc") == oc)
                              for oc in ("ok", "Rejected", "Diverges")}
    ctx.cov["s3_compress_chain_not_a_candidate"] = len(vals("NOTCAND"))
    if ctx.cov["s3_compress_chain_not_a_candidate"]:
        ctx.note(f"diagnostic: compress() chose a chain outside Candidates in "
                 f"{ctx.cov['s3_compress_chain_not_a_candidate']} events")
    # decimal floats: events outside Dom_SciDecisive are skipped by the specification (counted)
    outdom = vals("OUTDOM")
    if any(v[1] <= n_s2 for v in outdom):
        raise RuntimeError("C05 S2: an enumerated compress() case is outside Dom_SciDecisive")
    nx = kinds.get("compressx", 0)
    ctx.cov["s3_compressx_outside_decisive_domain"] = len(outdom)
    ctx.cov["compressx_decimals_differ_from_model"] = len(vals("DDIFF"))
    if ctx.cov["compressx_decimals_differ_from_model"]:
        ctx.note(f"diagnostic: compress() chose another number of decimals than the model in "
                 f"{ctx.cov['compressx_decimals_differ_from_model']} events")
    xev = [e for t in traces for e in t if e["kind"] == "compressx"]
    ctx.cov["compressx_decimals_observed_range"] = [min([e["d"] for e in xev if e["hasFP"]] + [0]),
                                                    max([e["d"] for e in xev if e["hasFP"]] + [0])]
    ctx.cov["compressx_fixed_point_chosen"] = sum(1 for e in xev if e["hasFP"])
    # measured, not required (compress() is free to prefer raw bytes): results with a factor 10^d >= 2^64
    # (handed over as a float) that went through msgpack
    ctx.cov["compressx_fixed_point_20_or_more_decimals_written"] = sum(
        1 for e in xev if e["hasFP"] and e["d"] >= 20 and e["packed"] == "ok")
    if set(kinds) != {"chain", "compress", "compressx", "file"} or min(
            ctx.cov["s3_outcomes"][oc] for oc in ("ok", "Rejected")) == 0:
        raise Vacuity(f"S3 did not exercise every event kind / outcome: {kinds} {ctx.cov['s3_outcomes']}")
    if 4 * len(outdom) > nx:
        raise Vacuity(f"S3: {len(outdom)} of {nx} compressx events outside the decisive domain")
    ctx.nontrivial += sum(1 for t in s3traces for e in t if e["kind"] != "file" and len(e["A"]["v"]) >= 2)
    ctx.sample({"s3_event": {k: s3traces[0][0][k] for k in s3traces[0][0] if k in ("kind", "A", "chain", "oc", "B")}})
    dirty = set()
    for v in vals("MISMATCH"):
        tid, l, verdict, kb, exp = v[1], v[2], v[3], v[4], v[5]
        dirty.add(tid - 1)
        e = traces[tid - 1][l - 1]
        rec = {"stage": "S2" if tid <= n_s2 else "S3", "kind": "event", "ekind": e["kind"],
               "tlc_known": verdict == "known", "kb": kb, "expected": {"oc": exp}, "trace": tid, "event": l}
        for k in ("A", "chain", "T", "rep", "level", "B", "oc", "cin", "reps", "hist", "cout", "eq", "hist2", "cout2", "eq2",
                  "outs", "werr", "outs2", "werr2",
                  "hasFP", "d", "packed"):
            if k in e:
                rec[k] = e[k]
        ctx.mismatch(rec)
    # binding self-test: corrupt the decoded array of clean traces
    flagged = {(v[1], v[2]) for v in vals("MISMATCH")} | {(v[1], v[2]) for v in outdom}
    clean = [[e for j, e in enumerate(t) if (i + 1, j + 1) not in flagged] for i, t in enumerate(traces)]
    clean = [t for t in clean[n_s2:] if t] + [t for t in clean[:n_s2] if t][:1]

    def corrupt(tr):
        for e in tr:
            if e["kind"] in ("chain", "compress") and e["oc"] == "ok" and e["A"]["t"] in (1, 2, 3, 4, 5, 6) \
                    and e["B"]["v"]:
                e["B"]["v"][0] += 1
                return True
        return False

    def corrupt_x(tr):
        # a decoded decimal float moved by three times the tolerance
        for e in tr:
            if e["kind"] == "compressx" and e["oc"] == "ok":
                for x, y in zip(e["A"]["v"], e["B"]["v"]):
                    if x["k"] == "num" and x["m"] != 0 and y["k"] == "num" and e["T"] >= 100:
                        y["fx"] += 3 * (abs(x["m"]) // e["T"]) + 2000
                        return True
        return False
    def corrupt_f(tr):
        # a masked row of a column that was read back the second time holds a placeholder
        for e in tr:
            if e["kind"] == "file" and not e["werr"] and not e["werr2"]:
                for c in e["cout2"]:
                    if c["A"]["t"] in (1, 2, 3, 4, 5, 6) and c["A"]["v"]:
                        c["A"]["v"][-1] = 0 if c["A"]["v"][-1] else 1
                        return True
        return False
    if clean:
        # one TLC run: three traces with a corrupted integer result, three with a corrupted decimal float,
        # two with a corrupted column of a file
        sel = clean[:3]
        sel = sel + [t for t in clean if any(e["kind"] == "compressx" for e in t) and not any(t is u for u in sel)][:3]
        nx = len(sel)
        sel = sel + [t for t in clean if any(e["kind"] == "file" and not e["werr"] and not e["werr2"]
                                             and any(c["A"]["t"] in (1, 2, 3, 4, 5) for c in e["cin"])
                                             for e in t) and not any(t is u for u in sel)][:2]
        calls = []

        def corrupt_both(tr):
            calls.append(1)
            return corrupt(tr) if len(calls) <= 3 else corrupt_x(tr) if len(calls) <= nx else corrupt_f(tr)
        helpers.binding_selftest(ctx, sel, corrupt_both, max_traces=8)
    else:
        ctx.note("binding self-test skipped: no trace without disagreement")


MANIFEST = {
    "technique": "TLA+ specification of the seven BinaryCIF encodings, their chains, BinaryCIFData serialisation and the candidate chains of compress() (specs/C05) model-checked by TLC; every enumerated (chain, array) case executed through BinaryCIFData.serialize -> msgpack -> deserialize; every case under every memory representation of its array; columns with masks under enumerated histories of read accesses, in-place writes and re-assignments with every serialisation in between read back; recorded random arrays, chains, compress() calls and files with access histories re-computed by TLC",
    "level_text": "TLC enumerates integer arrays of every 8/16-bit type over their boundary values (length <=2, thorough 3, plus runs) and 32-bit arrays, float32/float64 arrays over dyadic values, NaN, infinities and large integers, and string arrays with empty and duplicate strings, each under the twelve chains compress() tries and explicit-parameter variants (narrow target types, wrong sizes, unsigned packing of negatives, given origins, fixed point with 4 factors, interval quantisation with 3 grids, string arrays with nested chains), and checks that the code-shaped model returns the array exactly / within half a fixed-point step / within the documented quantisation bin whenever the representation can hold it and refuses it otherwise, except in the two recorded classes; every case is then executed against the real encoders through msgpack and compared with the specification's outcome and acceptance interval. compress() is also enumerated as an operation: float32/float64 arrays (length <=2, thorough 3, optionally with a repeated tail) over decimal floats of every magnitude class from 1e-306 to 1e300 (more than 15 decimals, fractions, coordinates, the int32 boundary of the scaled values on both sides, one-sided overflow, zero, NaN, infinities, nine significant digits) x tolerances 1e-1..1e-8 (looser than, equal to and stricter than the default of compress()) and int32 arrays on the integer type boundaries, each case called at every container level (data, column, category, block, file); TLC checks that the modelled search for the decimals + int32 range check + lossless fall-back stays inside the relative tolerance, every case is executed through compress -> serialize -> (msgpack) -> deserialize and judged by TLC. Every enumerated case is executed under every memory representation the specification lists for its array (native, non-native byte order, strided, reversed, read-only, unaligned, all at once, 64-bit carrier, Python list), with one expectation; TLC checks that the code-shaped first encoding step does not depend on it outside one recorded class. Columns (int8/int32/float32/float64/string, 1-2 rows, every class of mask) are enumerated with every history of at most two operations - read accesses (as_array with five dtype choices with/without masked_value, as_item, serialize, compress, write), in-place writes of one / all rows of the data array or the mask array the column holds, re-assignment of the column: TLC checks that the code-shaped accessors never change the column and that every serialisation gives the content of its moment (the write operations so far applied to what was built) or is refused because of the string table an earlier serialisation left in the encoding; the driver performs the history, reads back every serialize / write / compress in it and the final file, and compares them and the column in memory with the specification's. Random arrays up to 60 elements of all dtypes in random representations with random chains and parameters, compress() at random container levels with tolerances 1e-1..1e-8 (fixed-point universe and decimal floats of any magnitude) and whole files with masks (0-4 random read accesses, in-place writes and re-assignments before writing, and on the file read back before writing it again, every column serialisation in between read back) are recorded and re-computed by TLC. Whole-file events name the block and the category in several forms (leading, doubled and trailing underscores, digits, upper case) and the names read back are judged by the specification.",
    "level_note": "Bounded: exhaustive only for arrays of <=2 (thorough 3) elements over boundary value sets; longer arrays only through recorded runs. Floats are restricted to dyadic values on which float arithmetic is exact (plus NaN/inf/large integers); fixed-point factors <=1000. Delta / IntegerPacking arithmetic crossing +-2^31, UINT32 values >= 2^31 and int64 input are not decided (TLC integers are 32 bit). The encoded byte form is compared with the model as a diagnostic only. Histories longer than 2 (thorough 3: read-only histories and histories with a write operation in the middle) operations and columns longer than 2 (3) rows only through recorded runs; the values an accessor returns are not judged. Recorded defects (unchecked float->int32 cast in FixedPoint, IntervalQuantization outside [min,max], Delta on a uint64 array with an element below the origin; all in encoding.pyx) are accepted only in their predicted shape; the four defects of compress() (unchecked cast reached through compress(), endless search for the decimals beyond the float range, factor 10^d >= 2^64 not serialisable, float32 range check at 2^31) are repaired in /repo, their predicates are FALSE and the situations they occurred in are still required to be enumerated. compress() of floats is judged on decimal floats where float rounding noise cannot change the number of decimals chosen (other arrays are skipped, counted); which of fixed point / raw bytes compress() picks is not modelled. Trusted: TLC, the TLA+ value parser, the float<->fixed-point projection, numpy, msgpack.",
}
