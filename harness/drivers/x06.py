"""X06 -- assembly operation expressions and assemblies are the documented Cartesian products.

Specification: specs/X06/Assembly.tla (token strings of oper_expression, the documented grammar as
trees, the parser as coded, affine operations and chains, repeat(), the file as a record with one
operator per call: GetAssembly, ListAssemblies, Edit).

S1  TLC checks the laws on every expression tree in the bounds (MCExpr: parser as coded =
    declarative chains, product order, grammar <-> tree), on every token string up to a length
    (MCTokens: grammar accepted, refusals are malformed), on every file x call of a small family
    (MC: refusals, copies, positions = composite of the written operations, annotations, bonds, list),
    on repeat() (MCRepeat) and on histories of calls on one file object (MCSession).
S2  every enumerated expression / token string / file x call / repeat input is given to the real
    API and compared with the value TLC computed; every transition of the session graph is
    replayed on real CIFFile / BinaryCIFFile objects (edits of the categories, queries, spoiled
    results).
S3  seeded random histories on random files (beyond the bounds), random expressions and repeat()
    calls, and the calls of the repository's own assembly tests are recorded and judged by TLC
    (specs/X06/Trace.tla); corrupted records must be rejected.
"""

from __future__ import annotations

import json
import os
import random
import re

PROPERTY = "X06"

BLOCK_NAME = "x06"
CAT_ASM = "pdbx_struct_assembly"
CAT_GEN = "pdbx_struct_assembly_gen"
CAT_OPER = "pdbx_struct_oper_list"
CATS = [CAT_ASM, CAT_GEN, CAT_OPER]
KINDS = ["cif", "bcif", "cif_text"]            # in-memory CIF, in-memory BinaryCIF, CIF parsed from its own text
STYLES = ["file", "block", "named"]            # file object, block object, file + data_block (behind a decoy block)
CCD = "/verif/fixtures/ccd/components_synth.bcif"
BADNUM = 99999                                 # projection of a number that is not a small integer


# --------------------------------------------------------------------------- text <-> tokens
_TOK = re.compile(r"[(),\-]|[^(),\-]+")


def join_tokens(toks):
    return "".join(toks)


def tokenize(s):
    return _TOK.findall(s)


def warmup():
    import biotite.structure.info as info
    import biotite.structure.io.pdbx  # noqa: F401

    info.set_ccd_path(CCD)
    if "X06_GRAPH" in os.environ:
        _graph()


_G = None


def _graph():
    global _G
    if _G is None:
        with open(os.environ["X06_GRAPH"]) as f:
            _G = json.load(f)
    return _G


# --------------------------------------------------------------------------- building the real file
def _classes(kind):
    import biotite.structure.io.pdbx as pdbx

    if kind == "bcif":
        return pdbx.BinaryCIFFile, pdbx.BinaryCIFBlock, pdbx.BinaryCIFCategory
    return pdbx.CIFFile, pdbx.CIFBlock, pdbx.CIFCategory


def _gen_category(Category, gens):
    import numpy as np

    return Category({
        "assembly_id": np.array([g["aid"] for g in gens]),
        "oper_expression": np.array([join_tokens(g["expr"]) for g in gens]),
        "asym_id_list": np.array([",".join(g["asyms"]) for g in gens]),
    })


def _oper_category(Category, opers, typed):
    import numpy as np

    cols = {"id": np.array([o["id"] for o in opers])}
    for i in (1, 2, 3):
        for j in (1, 2, 3):
            v = [o["R"][i - 1][j - 1] for o in opers]
            cols[f"matrix[{i}][{j}]"] = np.array(v, dtype=np.float64) if typed else np.array([f"{x:.10f}" for x in v])
        v = [o["t"][i - 1] for o in opers]
        cols[f"vector[{i}]"] = np.array(v, dtype=np.float64) if typed else np.array([f"{x:.10f}" for x in v])
    return Category(cols)


def _asm_category(Category, asms):
    import numpy as np

    return Category({"id": np.array([a["id"] for a in asms]), "details": np.array([a["details"] for a in asms])})


def build_file(block, kind, decoy=False):
    """Specification block -> real file object with the block BLOCK_NAME.
    One residue (GLY, atom CA) per atom; atom i has label_seq_id = auth_seq_id = i, which is how the
    projection finds the source of an atom of the assembly."""
    import numpy as np

    File, Block, Category = _classes(kind)
    typed = kind == "bcif"
    b = Block()
    names = ["group_PDB", "id", "type_symbol", "label_atom_id", "label_alt_id", "label_comp_id", "label_asym_id",
             "label_entity_id", "label_seq_id", "pdbx_PDB_ins_code", "Cartn_x", "Cartn_y", "Cartn_z", "occupancy",
             "B_iso_or_equiv", "pdbx_formal_charge", "auth_seq_id", "auth_comp_id", "auth_asym_id", "auth_atom_id",
             "pdbx_PDB_model_num"]
    cols = {k: [] for k in names}
    serial = 0
    for m, coords in enumerate(block["coord"], start=1):
        for i, (atom, xyz) in enumerate(zip(block["atoms"], coords), start=1):
            serial += 1
            row = {"group_PDB": "ATOM", "id": serial, "type_symbol": "C", "label_atom_id": "CA", "label_alt_id": ".",
                   "label_comp_id": "GLY", "label_asym_id": atom["asym"], "label_entity_id": "1", "label_seq_id": i,
                   "pdbx_PDB_ins_code": "?", "Cartn_x": xyz[0], "Cartn_y": xyz[1], "Cartn_z": xyz[2],
                   "occupancy": 1.0, "B_iso_or_equiv": 0.0, "pdbx_formal_charge": "?", "auth_seq_id": i,
                   "auth_comp_id": "GLY", "auth_asym_id": atom["auth"], "auth_atom_id": "CA", "pdbx_PDB_model_num": m}
            for k in names:
                cols[k].append(row[k])
    if serial:
        arrays = {}
        for k in names:
            if k in ("Cartn_x", "Cartn_y", "Cartn_z"):
                arrays[k] = np.array(cols[k], dtype=np.float32) if typed else np.array([f"{x:.3f}" for x in cols[k]])
            elif k in ("occupancy", "B_iso_or_equiv"):
                arrays[k] = np.array(cols[k], dtype=np.float32) if typed else np.array([f"{x:.2f}" for x in cols[k]])
            elif k in ("id", "label_seq_id", "auth_seq_id", "pdbx_PDB_model_num"):
                arrays[k] = np.array(cols[k], dtype=np.int32) if typed else np.array([str(x) for x in cols[k]])
            else:
                arrays[k] = np.array(cols[k])
        b["atom_site"] = Category(arrays)
    if block["bonds"]:
        pairs = block["bonds"]
        sc = {"id": [f"covale{k + 1}" for k in range(len(pairs))], "conn_type_id": ["covale"] * len(pairs)}
        for p in (1, 2):
            sc[f"ptnr{p}_label_asym_id"] = [block["atoms"][pr[p - 1] - 1]["asym"] for pr in pairs]
            sc[f"ptnr{p}_label_comp_id"] = ["GLY"] * len(pairs)
            sc[f"ptnr{p}_label_seq_id"] = [str(pr[p - 1]) for pr in pairs]
            sc[f"ptnr{p}_label_atom_id"] = ["CA"] * len(pairs)
        b["struct_conn"] = Category({k: np.array(v) for k, v in sc.items()})
    missing = set(block["missing"])
    if CAT_OPER not in missing:
        b[CAT_OPER] = _oper_category(Category, block["opers"], typed)
    if CAT_GEN not in missing:
        b[CAT_GEN] = _gen_category(Category, block["gens"])
    if CAT_ASM not in missing:
        b[CAT_ASM] = _asm_category(Category, block["asms"])
    f = File()
    if decoy:
        d = Block()
        d[CAT_ASM] = _asm_category(Category, [{"id": "decoy", "details": "not this block"}])
        f["decoy"] = d
    f[BLOCK_NAME] = b
    if kind == "cif_text":
        f = File.deserialize(f.serialize())
    # categories that are absent now but may be put back by a "restore" edit
    stash = {}
    for c in missing:
        stash[c] = {CAT_OPER: lambda: _oper_category(Category, block["opers"], typed),
                    CAT_GEN: lambda: _gen_category(Category, block["gens"]),
                    CAT_ASM: lambda: _asm_category(Category, block["asms"])}[c]()
    return {"file": f, "kind": kind, "stash": stash, "last": None, "typed": typed}


def _intval(x):
    try:
        v = float(x)
    except (TypeError, ValueError):
        return BADNUM
    if v != v or abs(v) > 1e7 or v != round(v):
        return BADNUM
    return int(round(v))


def read_back(h):
    """The three categories as the file holds them now (projection of the file)."""
    blk = h["file"][BLOCK_NAME]
    out = {"missing": sorted(c for c in CATS if c not in blk), "gens": [], "opers": [], "asms": []}
    if CAT_GEN in blk:
        cat = blk[CAT_GEN]
        for a, e, s in zip(cat["assembly_id"].as_array(str), cat["oper_expression"].as_array(str),
                           cat["asym_id_list"].as_array(str)):
            out["gens"].append({"aid": str(a), "expr": tokenize(str(e)), "asyms": str(s).split(",")})
    if CAT_OPER in blk:
        cat = blk[CAT_OPER]
        ids = cat["id"].as_array(str)
        mats = {(i, j): cat[f"matrix[{i}][{j}]"].as_array(float) for i in (1, 2, 3) for j in (1, 2, 3)}
        vecs = {i: cat[f"vector[{i}]"].as_array(float) for i in (1, 2, 3)}
        for k, oid in enumerate(ids):
            out["opers"].append({"id": str(oid), "R": [[_intval(mats[(i, j)][k]) for j in (1, 2, 3)] for i in (1, 2, 3)],
                                 "t": [_intval(vecs[i][k]) for i in (1, 2, 3)]})
    if CAT_ASM in blk:
        cat = blk[CAT_ASM]
        for a, d in zip(cat["id"].as_array(str), cat["details"].as_array(str)):
            out["asms"].append({"id": str(a), "details": str(d)})
    return out


# --------------------------------------------------------------------------- projections
def rejected():
    return {"oc": "Rejected", "stack": False, "depth": 0, "atoms": [], "hasAsym": False, "hasBonds": False,
            "bonds": [], "map": []}


def project_assembly(obj):
    import biotite.structure as struc

    stack = isinstance(obj, struc.AtomArrayStack)
    if not stack and not isinstance(obj, struc.AtomArray):
        return dict(rejected(), oc="ok", depth=-1)          # something else was returned: equals no expected value
    cats = obj.get_annotation_categories()
    n = obj.array_length()
    coord = obj.coord if stack else obj.coord[None]
    if coord.shape[1:] != (n, 3):
        return dict(rejected(), oc="ok", depth=-2)
    sym = obj.sym_id if "sym_id" in cats else [-1] * n
    has_asym = "label_asym_id" in cats
    atoms = []
    for j in range(n):
        atoms.append({"src": int(obj.res_id[j]), "sym": int(sym[j]), "chain": str(obj.chain_id[j]),
                      "asym": str(obj.label_asym_id[j]) if has_asym else "",
                      "pos": [[_intval(c) for c in coord[m, j]] for m in range(coord.shape[0])]})
    # the other annotations must be those of the one kind of atom the driver writes
    plain = all(str(obj.atom_name[j]) == "CA" and str(obj.res_name[j]) == "GLY" and str(obj.element[j]) == "C"
                for j in range(n))
    if not plain:
        return dict(rejected(), oc="ok", depth=-3)
    bonds = []
    if obj.bonds is not None:
        if obj.bonds.get_atom_count() != n:
            return dict(rejected(), oc="ok", depth=-4)
        bonds = sorted([min(int(a), int(b)) + 1, max(int(a), int(b)) + 1] for a, b, _t in obj.bonds.as_array())
    return {"oc": "ok", "stack": stack, "depth": int(coord.shape[0]), "atoms": atoms, "hasAsym": has_asym,
            "hasBonds": obj.bonds is not None, "bonds": bonds, "map": []}


def project_list(d):
    if not isinstance(d, dict):
        return dict(rejected(), oc="ok", depth=-1)
    return dict(rejected(), oc="ok", map=sorted([str(k), str(v)] for k, v in d.items()))


def _target(h, style):
    if style == "block":
        return h["file"][BLOCK_NAME], {}
    if style == "named":
        return h["file"], {"data_block": BLOCK_NAME}
    return h["file"], {}


def do_get(h, call, style):
    """call = {aid: [] | [id], model: [] | [k], keepAsym, useAuthor, bonds}"""
    import biotite.structure.io.pdbx as pdbx

    target, kw = _target(h, style)
    if call["keepAsym"]:
        kw["extra_fields"] = ["label_asym_id"]
    try:
        obj = pdbx.get_assembly(target, assembly_id=call["aid"][0] if call["aid"] else None,
                                model=call["model"][0] if call["model"] else None,
                                use_author_fields=bool(call["useAuthor"]), include_bonds=bool(call["bonds"]), **kw)
    except Exception as e:  # noqa: BLE001 - any exception is the outcome "Rejected"
        h["last"] = None
        h["exc"] = f"{type(e).__name__}: {e}"[:200]
        return rejected()
    h["last"] = obj
    return project_assembly(obj)


def do_list(h, style):
    import biotite.structure.io.pdbx as pdbx

    target, kw = _target(h, style)
    try:
        d = pdbx.list_assemblies(target, **kw)
    except Exception as e:  # noqa: BLE001
        h["last"] = None
        h["exc"] = f"{type(e).__name__}: {e}"[:200]
        return rejected()
    h["last"] = d
    return project_list(d)


def do_parse(toks):
    from biotite.structure.io.pdbx.convert import _parse_operation_expression

    try:
        r = _parse_operation_expression(join_tokens(toks))
    except Exception:  # noqa: BLE001
        return {"oc": "Rejected", "chains": []}
    return {"oc": "ok", "chains": [[str(x) for x in ch] for ch in r]}


def spoil(h):
    """Overwrite the object returned last, in place."""
    import biotite.structure as struc

    obj = h["last"]
    if isinstance(obj, dict):
        obj.clear()
        obj["1"] = "spoiled"
    elif isinstance(obj, (struc.AtomArray, struc.AtomArrayStack)):
        obj.coord[...] = 777.0
        for cat in obj.get_annotation_categories():
            arr = obj.get_annotation(cat)
            if arr.dtype.kind in "iu":
                arr[...] = 55
            elif arr.dtype.kind == "U":
                arr[...] = "Z"
        if obj.bonds is not None and obj.bonds.get_bond_count() > 0:
            obj.bonds.remove_bonds(obj.bonds.copy())


def apply_edit(h, ev):
    """An edit of the file as a user of the component API performs it: read the rows of the category,
    change them, store a new category (or delete / re-insert a category)."""
    _File, _Block, Category = _classes(h["kind"])
    blk = h["file"][BLOCK_NAME]
    op = ev["op"]
    if op in ("set_expr", "set_asyms", "set_aid", "add_row", "del_row"):
        gens = read_back(h)["gens"]
        if op == "set_expr":
            gens[ev["row"] - 1]["expr"] = list(ev["expr"])
        elif op == "set_asyms":
            gens[ev["row"] - 1]["asyms"] = list(ev["asyms"])
        elif op == "set_aid":
            gens[ev["row"] - 1]["aid"] = ev["aid"]
        elif op == "add_row":
            gens.append({"aid": ev["aid"], "expr": list(ev["expr"]), "asyms": list(ev["asyms"])})
        else:
            del gens[ev["row"] - 1]
        blk[CAT_GEN] = _gen_category(Category, gens)
    elif op == "set_oper":
        opers = read_back(h)["opers"]
        opers[ev["k"] - 1] = {"id": ev["oper"]["id"], "R": ev["oper"]["R"], "t": ev["oper"]["t"]}
        blk[CAT_OPER] = _oper_category(Category, opers, h["typed"])
    elif op == "drop":
        h["stash"][ev["cat"]] = blk[ev["cat"]]
        del blk[ev["cat"]]
    elif op == "restore":
        blk[ev["cat"]] = h["stash"].pop(ev["cat"])
    else:
        raise ValueError(op)


def do_repeat(ev):
    """biotite.structure.repeat on n plain atoms (res_id = index), coord[c][m][i]."""
    import biotite.structure as struc
    import numpy as np

    n, k, depth = ev["n"], ev["k"], ev["depth"]
    arr = struc.AtomArray(n)
    arr.res_id[:] = np.arange(1, n + 1)
    arr.coord[:] = 0.0
    if ev["hasBonds"]:
        arr.bonds = struc.BondList(n, np.array([[a - 1, b - 1, 1] for a, b in ev["bonds"]], dtype=np.int64).reshape(-1, 3))
    atoms = struc.stack([arr] * depth) if ev["stack"] else arr
    co = np.array(ev["coord"], dtype=np.float64).reshape((k, depth, n, 3))
    if not ev["stack"]:
        co = co.reshape((k, n, 3))
    try:
        r = struc.repeat(atoms, co)
    except Exception as e:  # noqa: BLE001
        return {"oc": "Rejected", "atoms": [], "hasBonds": False, "bonds": [], "exc": f"{type(e).__name__}: {e}"[:160]}
    c = r.coord if ev["stack"] else r.coord[None]
    out = {"oc": "ok", "atoms": [{"src": int(r.res_id[j]), "pos": [[_intval(x) for x in c[m, j]] for m in range(c.shape[0])]}
                                 for j in range(r.array_length())],
           "hasBonds": r.bonds is not None, "bonds": []}
    if r.bonds is not None:
        out["bonds"] = sorted([min(int(a), int(b)) + 1, max(int(a), int(b)) + 1] for a, b, _t in r.bonds.as_array())
    if isinstance(r, struc.AtomArrayStack) != bool(ev["stack"]) or c.shape[0] != depth:
        out["atoms"] = out["atoms"] + [{"src": -1, "pos": []}]
    return out


# --------------------------------------------------------------------------- comparison of canonical forms
GET_FIELDS = ["oc", "stack", "depth", "atoms", "hasAsym", "hasBonds", "bonds"]


def first_difference(obs, exp, fields):
    for k in fields:
        if obs.get(k) != exp.get(k):
            if k == "atoms" and len(obs["atoms"]) == len(exp["atoms"]):
                for j, (a, b) in enumerate(zip(obs["atoms"], exp["atoms"])):
                    for f in ("src", "sym", "chain", "asym", "pos"):
                        if a.get(f) != b.get(f):
                            return f"atoms.{f}"
            return k
    return None


def judge_get(obs, exp, strict):
    """None when the observation is what the specification computed (or a refusal of a call that is
    outside the documented form); else the name of the first differing field."""
    if not strict and obs["oc"] == "Rejected":
        return None
    return first_difference(obs, exp, GET_FIELDS)


def same_file(after, blk):
    if sorted(after["missing"]) != sorted(blk["missing"]):
        return "missing"
    for cat, key in ((CAT_GEN, "gens"), (CAT_OPER, "opers"), (CAT_ASM, "asms")):
        if cat not in blk["missing"] and after[key] != blk[key]:
            return key
    return None


# --------------------------------------------------------------------------- S2 children
def _parse_states(texts):
    from harness.tlabind.tlaval import parse_state, to_py

    return [{k: to_py(v) for k, v in parse_state(t).items()} for t in texts]


def exec_expr_states(item):
    """States of MCExpr / MCTokens: token string -> the real parser."""
    mism = []
    n = acc = lenient = 0
    for st in _parse_states(item["texts"]):
        toks = st["res"]["toks"] if "ast" in st else st["toks"]
        if "dom" in st["res"] and not st["res"]["dom"]:
            continue                                   # two identifier tokens side by side: not one string
        exp, strict = st["res"]["parse"], st["res"]["strict"]
        obs = do_parse(toks)
        n += 1
        acc += obs["oc"] == "ok"
        lenient += obs["oc"] == "ok" and not st["res"].get("wf", True)
        if obs == exp or (not strict and obs["oc"] == "Rejected"):
            continue
        mism.append({"kind": "event", "op": "parse", "what": "oc" if obs["oc"] != exp["oc"] else "chains",
                     "event": {"op": "parse", "toks": toks, "ast": [], "string": join_tokens(toks)},
                     "strict": strict, "expected": exp, "observed": obs})
    return {"mismatch": mism, "n": n, "accepted": acc, "lenient": lenient}


def _get_event(call, obs, after):
    return {"op": "get", "aid": call["aid"], "model": call["model"], "keepAsym": call["keepAsym"],
            "useAuthor": call["useAuthor"], "bonds": call["bonds"], "obs": obs, "after": after}


def exec_asm_states(item):
    """States of MC: file x call -> get_assembly and list_assemblies on a real file."""
    from harness.tlabind.pool import progress

    mism = []
    cnt = {"n": 0, "ok": 0, "rejected": 0, "lenient_ok": 0, "multi_copy": 0, "multi_row": 0, "stack": 0, "bonds": 0}
    for idx, st in enumerate(_parse_states(item["texts"])):
        if st["phase"] != 1:
            continue
        call, res = st["call"], st["res"]
        blk = _par_block(item["const"], st["par"])
        k = item["base"] + idx
        kind, style = KINDS[k % 3], STYLES[(k // 3) % 3]
        progress({"stage": "S2-asm", "call": call, "gens": blk["gens"], "kind": kind, "style": style})
        h = build_file(blk, kind, decoy=(style == "named"))
        obs = do_get(h, call, style)
        after = read_back(h)
        cnt["n"] += 1
        cnt["ok" if obs["oc"] == "ok" else "rejected"] += 1
        cnt["lenient_ok"] += obs["oc"] == "ok" and not res["strict"]
        if obs["oc"] == "ok":
            cnt["multi_copy"] += any(a["sym"] >= 1 for a in obs["atoms"])
            cnt["multi_row"] += any(b["sym"] < a["sym"] for a, b in zip(obs["atoms"], obs["atoms"][1:]))
            cnt["stack"] += obs["stack"]
            cnt["bonds"] += bool(obs["bonds"])
        what = judge_get(obs, res["get"], res["strict"]) or same_file(after, blk)
        if what:
            mism.append({"kind": "event", "op": "get", "what": what, "file_kind": kind, "style": style,
                         "block": blk, "event": _get_event(call, obs, after), "strict": res["strict"],
                         "expected": _brief(res["get"]), "exception": h.get("exc")})
        obsl = do_list(h, style)
        afterl = read_back(h)
        what = first_difference(obsl, res["list"], ["oc", "map"]) or same_file(afterl, blk)
        if what:
            mism.append({"kind": "event", "op": "list", "what": what, "file_kind": kind, "style": style,
                         "block": blk, "event": {"op": "list", "obs": obsl, "after": afterl},
                         "expected": _brief(res["list"])})
    return {"mismatch": mism, **cnt}


def _par_block(const, par):
    """Parameters of a file of the MC family -> the block (constant parts as printed by TLC)."""
    return {"atoms": const["atoms"], "coord": const["coord"][par["nm"] - 1], "bonds": const["bonds"],
            "asms": const["asms"], "opers": const["tables"][par["tab"] - 1], "gens": par["gens"],
            "missing": par["missing"]}


def _brief(exp):
    return {"oc": exp["oc"], "stack": exp["stack"], "depth": exp["depth"], "natoms": len(exp["atoms"]),
            "atoms": [[a["src"], a["sym"], a["pos"]] for a in exp["atoms"][:40]], "bonds": exp["bonds"][:40],
            "map": exp["map"]}


def exec_repeat_states(item):
    mism = []
    n = 0
    for st in _parse_states(item["texts"]):
        if st["phase"] != 1:
            continue
        ev = dict(st["inp"])
        exp = st["res"]
        obs = do_repeat(ev)
        n += 1
        exc = obs.pop("exc", None)
        if obs != exp:
            what = next(k for k in ("oc", "atoms", "hasBonds", "bonds") if obs.get(k) != exp.get(k))
            mism.append({"kind": "event", "op": "repeat", "what": what, "event": dict(ev, obs=obs),
                         "expected": {"oc": exp["oc"], "natoms": len(exp["atoms"]), "bonds": exp["bonds"]},
                         "exception": exc})
    return {"mismatch": mism, "n": n}


def _label_event(lab):
    """Call tuple of the session model -> event of the same shape as the recorded ones."""
    op = lab[0]
    if op == "get":
        return {"op": "get", "aid": lab[1], "model": lab[2], "keepAsym": lab[3], "useAuthor": lab[4], "bonds": lab[5]}
    if op in ("list", "spoil"):
        return {"op": op}
    if op == "set_expr":
        return {"op": op, "row": lab[1], "expr": lab[2]}
    if op == "set_asyms":
        return {"op": op, "row": lab[1], "asyms": lab[2]}
    if op == "set_aid":
        return {"op": op, "row": lab[1], "aid": lab[2]}
    if op == "add_row":
        return {"op": op, "aid": lab[1], "expr": lab[2], "asyms": lab[3]}
    if op == "del_row":
        return {"op": op, "row": lab[1]}
    if op == "set_oper":
        return {"op": op, "k": lab[1], "oper": lab[2]}
    if op in ("drop", "restore"):
        return {"op": op, "cat": lab[1]}
    raise ValueError(op)


def _state_block(G, st):
    c = G["const"]
    return {"atoms": c["atoms"], "coord": c["coord"], "bonds": c["bonds"], "asms": c["asms"],
            "opers": st["opers"], "gens": st["gens"], "missing": st["missing"]}


def exec_paths(item):
    """Paths of the session graph on one real file object each."""
    from harness.tlabind.pool import progress

    G = _graph()
    states, labels = G["states"], G["labels"]
    mism = []
    steps = 0
    per_op = {}
    for p in item["paths"]:
        kind, style = KINDS[p["variant"] % 3], STYLES[(p["variant"] // 3) % 3]
        h = build_file(_state_block(G, states[p["init"]]), kind, decoy=(style == "named"))
        lastq = None
        hist = []
        edited = False
        for li, dst in p["steps"]:
            ev = _label_event(labels[li])
            exp = states[dst]
            blk = _state_block(G, exp)
            hist.append(ev)
            steps += 1
            per_op[ev["op"]] = per_op.get(ev["op"], 0) + 1
            progress({"stage": "S2-session", "kind": kind, "style": style, "history": hist[-4:]})
            what = None
            obs = None
            if ev["op"] == "spoil":
                spoil(h)
                if not edited:
                    ev = lastq                  # the same question again: the answer must not have changed
            if ev["op"] == "spoil":
                pass
            elif ev["op"] == "get":
                obs = do_get(h, ev, style)
                what = judge_get(obs, exp["res"], exp["strict"])
                lastq = ev
            elif ev["op"] == "list":
                obs = do_list(h, style)
                what = first_difference(obs, exp["res"], ["oc", "map"])
                lastq = ev
            else:
                apply_edit(h, ev)
                edited = True
            if ev["op"] in ("get", "list"):
                edited = False
            what = what or same_file(read_back(h), blk)
            if what:
                mism.append({"kind": "event", "op": "session", "what": what, "step": hist[-1]["op"],
                             "file_kind": kind, "style": style, "block": _state_block(G, states[p["init"]]),
                             "history": hist[:], "observed": obs, "expected": _brief(exp["res"]),
                             "expected_file": {k: blk[k] for k in ("gens", "opers", "missing")}})
                break
    return {"mismatch": mism, "steps": steps, "per_op": per_op}


# --------------------------------------------------------------------------- S3 generators
NAMED_IDS = ["X0", "P", "Q1"]


def rand_matrix(rng):
    if rng.random() < 0.8:                      # signed permutation (rotation / mirror)
        perm = [0, 1, 2]
        rng.shuffle(perm)
        return [[(rng.choice([1, -1]) if perm[i] == j else 0) for j in range(3)] for i in range(3)]
    return [[rng.choice([-1, 0, 0, 1]) for _ in range(3)] for _ in range(3)]


def rand_ast(rng, nnum, names, max_groups=3, max_items=3, wild=0.04):
    """Random tree of the grammar over the numeric ids 1..nnum and the named ids; now and then an id
    outside the table or a descending range."""
    paren = rng.random() < 0.7
    ngroups = rng.randint(1, max_groups) if paren else 1
    groups = []
    for _ in range(ngroups):
        items = []
        for _ in range(rng.randint(1, max_items)):
            r = rng.random()
            if r < 0.4:
                lo = rng.randint(1, nnum)
                hi = rng.randint(lo, min(nnum, lo + 5))
                if rng.random() < wild:
                    hi = hi + 1 if rng.random() < 0.5 else max(0, lo - rng.randint(1, 2))
                items.append({"k": "range", "id": "", "lo": lo, "hi": hi})
            else:
                ident = str(rng.randint(1, nnum)) if (r < 0.8 or not names) else rng.choice(names)
                if rng.random() < wild:
                    ident = rng.choice(["77", "Z9", str(nnum + 1)])
                items.append({"k": "id", "id": ident, "lo": 0, "hi": 0})
        groups.append(items)
    return {"paren": paren, "groups": groups}


def render_ast(ast):
    """Driver-side construction of the input string (TLC re-derives it with RenderExpr in 'parse' events)."""
    def group(g):
        out = []
        for k, it in enumerate(g):
            if k:
                out.append(",")
            out += [it["id"]] if it["k"] == "id" else [str(it["lo"]), "-", str(it["hi"])]
        return out
    if not ast["paren"]:
        return group(ast["groups"][0])
    out = []
    for g in ast["groups"]:
        out += ["("] + group(g) + [")"]
    return out


def product_size(ast):
    n = 1
    for g in ast["groups"]:
        n *= sum(1 if it["k"] == "id" else max(0, it["hi"] - it["lo"] + 1) for it in g)
    return n


def in_token_domain(toks):
    """Generator-side mirror of Assembly!Dom_Tokens (TLC re-checks it on every recorded string)."""
    punct = "(),-"
    if any(t == "" for t in toks) or any(a not in punct and b not in punct for a, b in zip(toks, toks[1:])):
        return False
    nc = [t for t in toks if t != ")"]
    for k in range(len(nc) - 1):
        if nc[k] not in punct and nc[k + 1] not in punct:
            if k + 2 < len(nc) and nc[k + 2] not in punct:
                return False
            if nc[k].isdigit() and not 1 <= int(nc[k]) <= 9:
                return False
            if nc[k + 1].isdigit() and not 0 <= int(nc[k + 1]) <= 9:
                return False
    return True


def rand_tokens(rng, nnum, names):
    """Random token string (mostly malformed) inside Dom_Tokens."""
    while True:
        out = []
        for _ in range(rng.randint(0, 8)):
            t = rng.choice(["(", ")", ",", "-", "(", ")", str(rng.randint(1, nnum)), str(rng.randint(1, nnum))] + names[:1])
            if out and out[-1] not in "(),-" and t not in "(),-":
                continue
            out.append(t)
        if in_token_domain(out) and out.count("(") <= 4:         # Dom_ChainLength
            return out


def rand_expr(rng, nnum, names, max_product=24):
    if rng.random() < 0.05:
        toks = rand_tokens(rng, nnum, names)
        if toks:
            return toks
    while True:
        ast = rand_ast(rng, nnum, names)
        if product_size(ast) <= max_product:
            return render_ast(ast)


def rand_block(rng):
    natoms = rng.randint(1, 9)
    asyms = ["A", "B", "C", "D", "AA"][: rng.randint(1, 5)]
    auth = {a: rng.choice(["X", "Y", "Z", a]) for a in asyms}
    atoms = []
    cur = rng.choice(asyms)
    for _ in range(natoms):
        if rng.random() < 0.4:
            cur = rng.choice(asyms)
        atoms.append({"asym": cur, "auth": auth[cur]})
    nm = rng.choice([1, 1, 2, 3])
    coord = [[[rng.randint(-20, 20) for _ in range(3)] for _ in range(natoms)] for _ in range(nm)]
    pairs = [(i, j) for i in range(1, natoms + 1) for j in range(i + 1, natoms + 1)]
    bonds = sorted(list(p) for p in rng.sample(pairs, min(len(pairs), rng.randint(0, 4))))
    nnum = rng.randint(2, 7)
    names = rng.sample(NAMED_IDS, rng.randint(0, 2))
    ids = [str(k) for k in range(1, nnum + 1)] + names
    if rng.random() < 0.2:
        ids.append(rng.choice(ids))             # an id given twice
    rng.shuffle(ids)
    opers = [{"id": i, "R": rand_matrix(rng), "t": [rng.randint(-9, 9) for _ in range(3)]} for i in ids]
    if rng.random() < 0.7:
        opers[0] = {"id": opers[0]["id"], "R": [[1, 0, 0], [0, 1, 0], [0, 0, 1]], "t": [0, 0, 0]}
    aids = ["1", "2", "3", "b"][: rng.randint(1, 3)]
    gens = []
    for _ in range(rng.randint(1, 4)):
        k = rng.randint(1, 3)
        al = rng.sample(asyms + ["Q"], min(k, len(asyms) + 1))
        gens.append({"aid": rng.choice(aids), "expr": rand_expr(rng, nnum, names), "asyms": al})
    asms = [{"id": a, "details": rng.choice(["author_defined_assembly", "software", "complete", "x"])} for a in aids]
    if rng.random() < 0.2:
        asms.append({"id": aids[0], "details": "given again"})
    return {"atoms": atoms, "coord": coord, "bonds": bonds, "opers": opers, "gens": gens, "asms": asms,
            "missing": []}, nnum, names


def gen_session(rng, length):
    """One history on one real file object, recorded."""
    from harness.tlabind.pool import progress

    blk, nnum, names = rand_block(rng)
    kind, style = rng.choice(KINDS), rng.choice(STYLES)
    h = build_file(blk, kind, decoy=(style == "named"))
    events = [{"op": "open", "block": blk}]
    aids = sorted({g["aid"] for g in blk["gens"]})
    asyms = sorted({a["asym"] for a in blk["atoms"]})
    nm = len(blk["coord"])
    nrows = len(blk["gens"])
    missing = set()
    for _ in range(length):
        r = rng.random()
        progress({"stage": "S3", "kind": kind, "style": style, "events": len(events)})
        if r < 0.55:
            call = {"aid": rng.choice([[], [], [], [rng.choice(aids)], [rng.choice(aids)], [rng.choice(aids)], ["none"]]),
                    "model": rng.choice([[], [], [], [1], [1], [nm], [-1], [-nm], [rng.randint(1, nm)], [nm + 1], [0], [-nm - 1]]),
                    "keepAsym": rng.random() < 0.4, "useAuthor": rng.random() < 0.6, "bonds": rng.random() < 0.4}
            obs = do_get(h, call, style)
            events.append(_get_event(call, obs, read_back(h)))
        elif r < 0.62:
            obs = do_list(h, style)
            events.append({"op": "list", "obs": obs, "after": read_back(h)})
        elif r < 0.68:
            if h["last"] is not None:
                spoil(h)
                events.append({"op": "spoil"})
        else:
            e = rng.random()
            ev = None
            gen_ok = CAT_GEN not in missing
            oper_ok = CAT_OPER not in missing
            if missing and rng.random() < 0.5:
                cat = rng.choice(sorted(missing))
                missing.discard(cat)
                ev = {"op": "restore", "cat": cat}
            elif e < 0.3 and gen_ok:
                ev = {"op": "set_expr", "row": rng.randint(1, nrows), "expr": rand_expr(rng, nnum, names)}
            elif e < 0.4 and gen_ok:
                ev = {"op": "set_asyms", "row": rng.randint(1, nrows),
                      "asyms": rng.sample(asyms + ["Q"], rng.randint(1, min(3, len(asyms) + 1)))}
            elif e < 0.5 and gen_ok:
                ev = {"op": "set_aid", "row": rng.randint(1, nrows), "aid": rng.choice(aids + ["9"])}
            elif e < 0.6 and gen_ok and nrows < 5:
                ev = {"op": "add_row", "aid": rng.choice(aids), "expr": rand_expr(rng, nnum, names),
                      "asyms": rng.sample(asyms, 1)}
                nrows += 1
            elif e < 0.68 and gen_ok and nrows >= 2:
                ev = {"op": "del_row", "row": rng.randint(1, nrows)}
                nrows -= 1
            elif e < 0.8 and oper_ok:
                k = rng.randint(1, len(blk["opers"]))
                ev = {"op": "set_oper", "k": k, "oper": {"id": rng.choice([blk["opers"][k - 1]["id"]] * 3 + ["77"]),
                                                         "R": rand_matrix(rng), "t": [rng.randint(-9, 9) for _ in range(3)]}}
            elif e < 0.88 and len(missing) < 3:
                cat = rng.choice([c for c in CATS if c not in missing])
                missing.add(cat)
                ev = {"op": "drop", "cat": cat}
            elif missing:
                cat = rng.choice(sorted(missing))
                missing.discard(cat)
                ev = {"op": "restore", "cat": cat}
            if ev is not None:
                apply_edit(h, ev)
                events.append(ev)
    return events, {"file_kind": kind, "style": style}


def gen_s3(item):
    rng = random.Random(item["seed"])
    what = item["what"]
    if what == "session":
        pairs = [gen_session(rng, item["length"]) for _ in range(item["n"])]
        return {"traces": [p[0] for p in pairs], "meta": [p[1] for p in pairs]}
    if what == "parse":
        events = []
        for _ in range(item["n"]):
            nnum = rng.choice([3, 9, 12, 60, 99])
            names = rng.sample(NAMED_IDS, rng.randint(0, 2))
            if rng.random() < 0.3:
                toks, ast = rand_tokens(rng, min(nnum, 12), names), []
            else:
                while True:
                    a = rand_ast(rng, nnum, names, max_groups=4, max_items=4, wild=0.05)
                    if product_size(a) <= 400:
                        break
                toks, ast = render_ast(a), [a]
            events.append({"op": "parse", "toks": toks, "ast": ast, "obs": do_parse(toks)})
        return {"traces": [events]}
    if what == "repeat":
        events = []
        for _ in range(item["n"]):
            n, k = rng.randint(0, 6), rng.choice([0, 1, 1, 2, 3, 4])
            stack = rng.random() < 0.5
            depth = rng.randint(1, 3) if stack else 1
            has_bonds = rng.random() < 0.5
            pairs = [(i, j) for i in range(1, n + 1) for j in range(i + 1, n + 1)]
            bonds = sorted(list(p) for p in rng.sample(pairs, min(len(pairs), rng.randint(0, 3)))) if has_bonds else []
            coord = [[[[rng.randint(-30, 30) for _ in range(3)] for _ in range(n)] for _ in range(depth)] for _ in range(k)]
            ev = {"op": "repeat", "n": n, "k": k, "depth": depth, "stack": stack, "hasBonds": has_bonds, "bonds": bonds,
                  "coord": coord}
            obs = do_repeat(ev)
            exc = obs.pop("exc", None)
            ev["obs"] = obs
            if exc:
                ev["exception"] = exc
            events.append(ev)
        return {"traces": [events]}
    raise ValueError(what)


def record_repo_tests(item):
    """Run the repository's own tests of the area with recording wrappers around
    _parse_operation_expression and list_assemblies; the outcome of the tests themselves is not
    used (several of them need a Chemical Component Dictionary that is not installed)."""
    import sys

    sys.dont_write_bytecode = True
    import biotite.structure.io.pdbx as pdbx
    import biotite.structure.io.pdbx.convert as conv
    import pytest

    parses, lists = [], []
    orig_parse, orig_list = conv._parse_operation_expression, conv.list_assemblies

    def parse(expression):
        toks = tokenize(str(expression))
        try:
            r = orig_parse(expression)
        except Exception:
            parses.append({"op": "parse", "toks": toks, "ast": [], "obs": {"oc": "Rejected", "chains": []}})
            raise
        parses.append({"op": "parse", "toks": toks, "ast": [], "obs": {"oc": "ok", "chains": [[str(x) for x in c] for c in r]}})
        return r

    def list_assemblies(pdbx_file, data_block=None):
        r = orig_list(pdbx_file, data_block)
        try:
            block = pdbx_file.block if hasattr(pdbx_file, "block") and data_block is None else (
                pdbx_file[data_block] if data_block is not None else pdbx_file)
            cat = block[CAT_ASM]
            asms = [{"id": str(a), "details": str(d)} for a, d in zip(cat["id"].as_array(str), cat["details"].as_array(str))]
            missing = [CAT_GEN, CAT_OPER]
            blk = {"atoms": [], "coord": [], "bonds": [], "opers": [], "gens": [], "asms": asms, "missing": missing}
            after = {"gens": [], "opers": [], "asms": asms, "missing": missing}
            lists.append([{"op": "open", "block": blk}, {"op": "list", "obs": project_list(r), "after": after}])
        except Exception:  # noqa: BLE001 - recording must never disturb the test
            pass
        return r

    conv._parse_operation_expression = parse
    pdbx.list_assemblies = list_assemblies
    conv.list_assemblies = list_assemblies
    os.chdir("/repo")
    sys.path.insert(0, "/repo")
    try:
        rc = pytest.main(["-q", "-p", "no:cacheprovider", "-k", "assembl", "tests/structure/io/test_pdbx.py"])
    finally:
        conv._parse_operation_expression = orig_parse
        pdbx.list_assemblies = orig_list
        conv.list_assemblies = orig_list
    # the same expression is parsed many times by the parametrised tests: keep one record of each
    seen, uniq = set(), []
    for e in parses:
        key = json.dumps(e, sort_keys=True)
        if key not in seen:
            seen.add(key)
            uniq.append(e)
    seenl, uniql = set(), []
    for t in lists:
        key = json.dumps(t, sort_keys=True)
        if key not in seenl:
            seenl.add(key)
            uniql.append(t)
    return {"traces": ([uniq] if uniq else []) + uniql, "pytest_rc": int(rc), "parse_calls": len(parses),
            "list_calls": len(lists)}


# --------------------------------------------------------------------------- classification / replay
def classify(mm):
    """X06-repeat-zero-copies-with-bonds: repeat() of atoms that carry a BondList with zero coordinate
    sets raises instead of returning the empty structure."""
    if mm.get("kind") != "event" or mm.get("op") != "repeat":
        return None
    ev = mm.get("event") or {}
    obs = ev.get("obs") or {}
    if (ev.get("k") == 0 and ev.get("hasBonds") is True and ev.get("n", 0) >= 1 and obs.get("oc") == "Rejected"
            and mm.get("what") in ("oc", "outcome") and "bond list has" in (mm.get("exception") or "")):
        return "X06-repeat-zero-copies-with-bonds"
    return None


def replay(record):
    """Re-execute a stored mismatch against the current code; mismatch=True when the recorded
    observation is reproduced."""
    warmup()
    op = record.get("op")
    ev = record.get("event") or {}
    if op == "parse":
        obs = do_parse(ev["toks"])
        return {"string": join_tokens(ev["toks"]), "observed": obs, "recorded": record.get("observed"),
                "expected": record.get("expected"), "mismatch": obs == record.get("observed")}
    if op == "repeat":
        obs = do_repeat({k: v for k, v in ev.items() if k != "obs"})
        obs.pop("exc", None)
        return {"observed": obs, "recorded": ev.get("obs"), "mismatch": obs == ev.get("obs")}
    if op in ("get", "list"):
        h = build_file(record["block"], record.get("file_kind", "cif"), decoy=(record.get("style") == "named"))
        style = record.get("style", "file")
        obs = do_get(h, ev, style) if op == "get" else do_list(h, style)
        return {"observed": obs, "recorded": ev.get("obs"), "expected": record.get("expected"),
                "exception": h.get("exc"), "mismatch": obs == ev.get("obs")}
    if op == "session":
        style = record.get("style", "file")
        h = build_file(record["block"], record.get("file_kind", "cif"), decoy=(style == "named"))
        obs, lastq = None, None
        for e in record["history"]:
            if e["op"] == "spoil":
                spoil(h)
                e = lastq
            if e["op"] == "get":
                obs, lastq = do_get(h, e, style), e
            elif e["op"] == "list":
                obs, lastq = do_list(h, style), e
            else:
                apply_edit(h, e)
        return {"observed": obs, "recorded": record.get("observed"), "expected": record.get("expected"),
                "file": read_back(h), "mismatch": obs == record.get("observed")}
    if op == "trace":
        tr = record["trace"]
        h, obs, style = None, None, record.get("style", "file")
        for e in tr[: record["index"]]:
            if e["op"] == "open":
                h = build_file(e["block"], record.get("file_kind", "cif"), decoy=(style == "named"))
            elif e["op"] == "spoil":
                spoil(h)
            elif e["op"] == "get":
                obs = do_get(h, e, style)
            elif e["op"] == "list":
                obs = do_list(h, style)
            elif e["op"] == "parse":
                obs = do_parse(e["toks"])
            elif e["op"] == "repeat":
                obs = do_repeat({k: v for k, v in e.items() if k not in ("obs", "exception")})
                obs.pop("exc", None)
            else:
                apply_edit(h, e)
        rec = tr[record["index"] - 1].get("obs")
        return {"observed": obs, "recorded": rec, "expected": record.get("expected"), "mismatch": obs == rec}
    return {"error": "unknown record", "record": record}


# --------------------------------------------------------------------------- orchestration
def _dump_texts(ctx, module, cfg, stage, tag, workers=8, must_contain="phase = 1"):
    from harness.tlabind import tlc as T

    d = T.scratch_dir(tag)
    prefix = os.path.join(d, "states")
    res = ctx.tlc(module, cfg, stage=stage, dump=prefix, timeout=1500, count=False, workers=workers)
    path = prefix + ".dump" if os.path.exists(prefix + ".dump") else prefix
    texts, cur = [], []
    with open(path) as f:
        for line in f:
            if line.startswith("State ") and line.rstrip().endswith(":"):
                if cur:
                    texts.append("".join(cur))
                cur = []
            else:
                cur.append(line)
    if cur:
        texts.append("".join(cur))
    texts = [t.strip() for t in texts if t.strip()]
    if must_contain:
        texts = [t for t in texts if must_contain in t]
    texts.sort()                    # the dump order depends on worker scheduling
    return res, texts


def _run_models(ctx, jobs, parallel):
    """Independent TLC runs, a few at a time. jobs: (key, fn) -> {key: result of fn()}"""
    import time
    from concurrent.futures import ThreadPoolExecutor

    def one(k):
        time.sleep(0.35 * (k % parallel))        # scratch directories of run_tlc are named by the millisecond
        return jobs[k][1]()

    with ThreadPoolExecutor(max_workers=parallel) as ex:
        results = list(ex.map(one, range(len(jobs))))
    return {jobs[k][0]: results[k] for k in range(len(jobs))}


FLAG_NAMES = {
    "get": ["file_in_domain", "outcome", "array_or_stack_and_length", "source_atoms_and_sym_id", "annotations",
            "positions", "bonds", "file_unchanged"],
    "list": ["outcome", "id_to_details", "file_unchanged"],
    "parse": ["tokens_in_domain", "tree_renders_to_tokens", "outcome", "chains"],
    "repeat": ["input_in_domain", "outcome", "length", "source_atoms", "positions", "bonds"],
}


def _validate(ctx, traces, stage, selftest=False):
    from harness.tlabind import helpers

    keep = None
    clean = [[{k: v for k, v in e.items() if k != "exception"} for e in tr] for tr in traces]
    out = []
    for part_start in range(0, len(clean), 400):
        part = clean[part_start:part_start + 400]
        mms = helpers.tlc_validate(ctx, part, stage=stage, selftest=selftest, keep=keep, timeout=1500)
        diag = []
        if not selftest:
            from harness.tlabind import tlc as T
            from harness.tlabind.tlaval import parse_value, to_py

            diag = [to_py(parse_value(x)) for x in T.printed_values(ctx._last_tlc_out, "DIAG")]
        for m in mms:
            m[1] += part_start
        out.append((mms, diag))
    return [m for mm, _ in out for m in mm], [d for _, dg in out for d in dg]


def _report(ctx, traces, mms, stage, meta=None):
    seen = set()
    for m in mms:
        _tag, tid, l, flags, exp = m[:5]
        if (tid, l) in seen:
            continue
        seen.add((tid, l))
        tr = traces[tid - 1]
        e = tr[l - 1]
        names = FLAG_NAMES.get(e["op"], ["edit_enabled"])
        failed = [names[k] for k, ok in enumerate(flags) if not ok and k < len(names)]
        if failed and failed[0] in ("file_in_domain", "tokens_in_domain", "input_in_domain", "edit_enabled",
                                    "tree_renders_to_tokens"):
            raise RuntimeError(f"X06 {stage}: generated input outside its domain ({failed[0]}): "
                               f"{json.dumps(e)[:600]}")
        rec = {"stage": stage, "kind": "event", "op": e["op"] if e["op"] in ("parse", "repeat") else "trace",
               "what": failed[0] if failed else "?", "failed": failed, "expected": exp, "event": e}
        if e["op"] == "repeat":
            rec["what"] = "oc" if failed and failed[0] == "outcome" else rec["what"]
            rec["exception"] = e.get("exception")
        elif e["op"] not in ("parse",):
            rec.update({"trace": tr[:l], "index": l})
            if meta:
                rec.update(meta[tid - 1])
        ctx.mismatch(rec)


def run(ctx):
    from harness.tlabind import dot, helpers
    from harness.tlabind import tlc as T
    from harness.tlabind.core import Vacuity
    from harness.tlabind.tlaval import parse_value, to_py

    quick = ctx.quick
    tier = "" if quick else "_thorough"
    ctx.assumptions += [
        "text is a sequence of tokens ( ) , - and identifiers; Dom_Tokens: no empty token, no two identifier tokens side by side; numerals are decimal 0..199 without leading zeros (int() of other spellings such as '01', '+1', ' 1' is not exercised)",
        "documented grammar (mmCIF dictionary item _pdbx_struct_assembly_gen.oper_expression + the code comments): id | comma list | lo-hi | parenthesised groups | product of groups applied from right to left; Strict = well-formed and every range ascending",
        "outside Strict (unbalanced / empty / nested parentheses, empty list items, descending ranges) the documentation is silent: the check accepts either a refusal or the one reading of the code modelled by CodeParse (assumption, modelled from the code)",
        "order of the copies (documentation silent, modelled from the code): rows of pdbx_struct_assembly_gen in file order; per row itertools.product over the groups taken from right to left, i.e. the group written last varies slowest; sym_id numbers the copies of each row from 0",
        "an operation id listed twice in pdbx_struct_oper_list: the later row counts (dict semantics of the code, documentation silent)",
        "Dom_Block: integer coordinates |x| <= 1000, matrix entries in -1..1, vector entries |t| <= 50, <= 4 groups per expression: every computed coordinate is an integer below 2^24 (exact in float32 and float64); every model has the same atoms",
        "one residue (GLY / CA) per atom, label_seq_id = auth_seq_id = index of the atom: the projection identifies the source atom of an output atom by res_id; bonds come from struct_conn (covale) and are compared as sets of index pairs",
        "any exception is the outcome Rejected (the docstrings name no exception classes); a refused call is only required to leave the file as it was",
        "files are built in memory (CIFFile, BinaryCIFFile with typed columns) or parsed from the CIF text the library itself serialises; reading arbitrary foreign CIF text is the subject of other properties",
        "trusted: TLC, the TLA+ value parser, the projections (project_assembly, read_back, tokenize), numpy",
    ]
    ctx.cov["rule"] = ("non-trivial = expression with >= 2 groups or a range; get_assembly accepted with >= 2 copies or "
                       ">= 2 rows; session path with an edit before a query; repeat with k >= 2 or k = 0")

    # ---------------------------------------------------------------- S1: all models
    d = T.scratch_dir("x06")
    dotf = os.path.join(d, "session.dot")

    def session():
        res = ctx.tlc("MCSession", f"MCSession{tier}.cfg", stage="S1-session", dump_dot=dotf, workers=1,
                      timeout=2400, count=False)
        return res

    jobs = [("expr", lambda: _dump_texts(ctx, "MCExpr", f"MCExpr{tier}.cfg", "S1-expr", "x06e")),
            ("tokens", lambda: _dump_texts(ctx, "MCTokens", f"MCTokens{tier}.cfg", "S1-tokens", "x06t")),
            ("asm", lambda: _dump_texts(ctx, "MC", f"MC{tier}.cfg", "S1-assembly", "x06a")),
            ("repeat", lambda: _dump_texts(ctx, "MCRepeat", f"MCRepeat{tier}.cfg", "S1-repeat", "x06r", workers=2)),
            ("session", session)]
    if not quick:
        jobs.append(("expr2", lambda: _dump_texts(ctx, "MCExpr", "MCExpr_thorough2.cfg", "S1-expr", "x06e2")))
    done = _run_models(ctx, jobs, parallel=3 if quick else 2)
    for key, val in done.items():
        res = val if key == "session" else val[0]
        ctx.states += res.distinct
        ctx.transitions += res.generated
    ctx.exhaustive = True
    ctx.cov["tlc_runs"].sort(key=lambda r: (r["stage"], r["module"], r["cfg"]))    # (the runs finish in any order)

    # ---------------------------------------------------------------- S2: expressions
    etexts = done["expr"][1] + (done["expr2"][1] if "expr2" in done else [])
    ttexts = done["tokens"][1]
    if not etexts or not ttexts:
        raise Vacuity("no expression states were dumped")
    items = [{"texts": ch} for ch in helpers.chunked(etexts, 600)] + [{"texts": ch} for ch in helpers.chunked(ttexts, 600)]
    results = helpers.run_pool(ctx, "harness.drivers.x06:exec_expr_states", items, stage="S2-expr", item_timeout=120)
    n = sum(r.get("n", 0) for r in results)
    acc = sum(r.get("accepted", 0) for r in results)
    lenient = sum(r.get("lenient", 0) for r in results)
    ctx.cov.update({"s2_expressions": n, "s2_expressions_accepted": acc, "s2_expressions_refused": n - acc,
                    "s2_malformed_but_accepted_by_the_code": lenient})
    ctx.log(f"S2-expr: {n} strings through the real parser ({acc} accepted, {n - acc} refused, "
            f"{lenient} malformed ones accepted)")
    if n < len(etexts) or acc == 0 or n - acc == 0 or lenient == 0:
        raise Vacuity(f"expressions: {n} executed, {acc} accepted, {n - acc} refused, {lenient} lenient")
    ctx.evaluations += n
    ctx.traces_validated += n
    ctx.nontrivial += sum(1 for t in etexts if t.count('"("') >= 2 or '"-"' in t)

    # ---------------------------------------------------------------- S2: files x calls
    atexts = done["asm"][1]
    chunks = helpers.chunked(atexts, 120)
    aconst = [to_py(parse_value(x)) for x in T.printed_values(done["asm"][0].out, "CONSTFILE")]
    if not aconst:
        raise RuntimeError("MC did not print the constant part of the files")
    items = [{"texts": ch, "base": 120 * k, "const": aconst[0][1]} for k, ch in enumerate(chunks)]
    results = helpers.run_pool(ctx, "harness.drivers.x06:exec_asm_states", items, stage="S2-assembly", item_timeout=300)
    tot = {}
    for r in results:
        for k, v in r.items():
            if k != "mismatch" and isinstance(v, int):
                tot[k] = tot.get(k, 0) + v
    ctx.cov["s2_assembly_calls"] = tot
    ctx.log(f"S2-assembly: {tot.get('n', 0)} file x call pairs through get_assembly and list_assemblies: {tot}")
    if tot.get("n", 0) < len(atexts) or any(tot.get(k, 0) == 0 for k in
                                            ("ok", "rejected", "lenient_ok", "multi_copy", "multi_row", "stack", "bonds")):
        raise Vacuity(f"assembly calls: a class of calls was never exercised: {tot}")
    ctx.evaluations += 2 * tot["n"]
    ctx.traces_validated += tot["n"]
    ctx.nontrivial += tot["multi_copy"]

    # ---------------------------------------------------------------- S2: repeat
    rtexts = done["repeat"][1]
    items = [{"texts": ch} for ch in helpers.chunked(rtexts, 200)]
    results = helpers.run_pool(ctx, "harness.drivers.x06:exec_repeat_states", items, stage="S2-repeat", item_timeout=120)
    nrep = sum(r.get("n", 0) for r in results)
    ctx.cov["s2_repeat_calls"] = nrep
    if nrep < len(rtexts) or nrep == 0:
        raise Vacuity("repeat: nothing executed")
    ctx.evaluations += nrep
    ctx.traces_validated += nrep

    # ---------------------------------------------------------------- S2: session graph
    sres = done["session"]
    const = [to_py(parse_value(x)) for x in T.printed_values(sres.out, "CONSTFILE")]
    if not const:
        raise RuntimeError("MCSession did not print the constant part of the file")
    g = dot.load(dotf)
    if not g.edges:
        raise RuntimeError("empty session graph")
    labels, lab_ix, ops_seen = [], {}, {}
    for (_s, lab, _d) in g.edges:
        if lab not in lab_ix:
            _name, args = dot.parse_label(lab)
            lab_ix[lab] = len(labels)
            labels.append(to_py(args[0]))
        op = labels[lab_ix[lab]][0]
        ops_seen[op] = ops_seen.get(op, 0) + 1
    need = {"get", "list", "spoil", "set_expr", "set_asyms", "set_aid", "add_row", "del_row", "set_oper", "drop", "restore"}
    if need - set(ops_seen):
        raise Vacuity(f"calls never taken in the session graph: {sorted(need - set(ops_seen))}")
    ctx.cov["session_transitions_per_call"] = ops_seen
    ids = {nid: k for k, nid in enumerate(g.state_text)}
    states = [None] * len(ids)
    for nid, k in ids.items():
        states[k] = {kk: to_py(v) for kk, v in g.state(nid).items()}
    gfile = os.path.join(d, "graph.json")
    with open(gfile, "w") as f:
        json.dump({"states": states, "labels": labels, "const": const[0][1]}, f)
    paths, covered = dot.covering_paths(g, max_len=8, limit=None if not quick else 20000, rng=ctx.rng)
    plist = [{"init": ids[root], "steps": [[lab_ix[lab], ids[dst]] for lab, dst in steps], "variant": k % 9}
             for k, (root, steps) in enumerate(paths)]
    items = [{"paths": ch} for ch in helpers.chunked(plist, 40)]
    ctx.log(f"S2-session: {len(plist)} paths covering {covered}/{len(g.edges)} transitions")
    results = helpers.run_pool(ctx, "harness.drivers.x06:exec_paths", items, stage="S2-session",
                               env={"X06_GRAPH": gfile}, item_timeout=300)
    steps = sum(r.get("steps", 0) for r in results)
    ctx.log(f"S2-session: {steps} calls replayed")
    per_op = {}
    for r in results:
        for k, v in (r.get("per_op") or {}).items():
            per_op[k] = per_op.get(k, 0) + v
    ctx.cov.update({"s2_session_paths": len(plist), "s2_session_steps": steps, "s2_session_transitions_covered": covered,
                    "s2_session_transitions_total": len(g.edges), "s2_session_steps_per_call": per_op})
    if covered < len(g.edges) and not quick:
        raise Vacuity(f"session graph: {covered} of {len(g.edges)} transitions covered")
    if need - set(per_op):
        raise Vacuity(f"session calls never executed: {sorted(need - set(per_op))}")
    ctx.traces_validated += len(plist)
    ctx.evaluations += steps
    ctx.nontrivial += sum(1 for p in plist if len(p["steps"]) >= 2)
    ctx.sample({"s2_session_path": [labels[li] for li, _ in plist[len(plist) // 2]["steps"]]})

    # ---------------------------------------------------------------- S3
    nsess = 10 if quick else 120
    per = 8 if quick else 12
    titems = [{"what": "session", "seed": ctx.rng.randrange(1 << 30), "n": per, "length": 7 if quick else 10}
              for _ in range(nsess)]
    titems += [{"what": "parse", "seed": ctx.rng.randrange(1 << 30), "n": 120 if quick else 400} for _ in range(2 if quick else 10)]
    titems += [{"what": "repeat", "seed": ctx.rng.randrange(1 << 30), "n": 60 if quick else 200} for _ in range(2 if quick else 6)]
    tres = helpers.run_pool(ctx, "harness.drivers.x06:gen_s3", titems, stage="S3", item_timeout=300)
    traces, meta = [], []
    for r in tres:
        ms = r.get("meta") or [{}] * len(r.get("traces", []))
        for t, m in zip(r.get("traces", []), ms):
            if t:
                traces.append(t)
                meta.append(m)
    ctx.log(f"S3: {len(traces)} histories recorded")
    rres = helpers.run_pool(ctx, "harness.drivers.x06:record_repo_tests", [{}], stage="S3-repo-tests", item_timeout=600)
    repo_traces = [t for r in rres for t in r.get("traces", []) if t]
    ctx.log(f"S3: {len(repo_traces)} traces recorded from the repository's tests")
    ctx.cov["s3_repo_tests"] = {k: rres[0].get(k) for k in ("pytest_rc", "parse_calls", "list_calls")} if rres and rres[0] else {}
    ctx.cov["s3_repo_test_events"] = sum(len(t) for t in repo_traces)
    if not repo_traces or not rres[0].get("parse_calls") or not rres[0].get("list_calls"):
        raise Vacuity(f"the repository's assembly tests produced no recorded calls: {ctx.cov['s3_repo_tests']}")
    all_traces = traces + repo_traces
    meta += [{}] * len(repo_traces)
    mms, diag = _validate(ctx, all_traces, "S3")
    _report(ctx, all_traces, mms, "S3", meta)
    per_kind, outcomes = {}, {"ok": 0, "Rejected": 0}
    for t in all_traces:
        for e in t:
            per_kind[e["op"]] = per_kind.get(e["op"], 0) + 1
            if e["op"] == "get":
                outcomes[e["obs"]["oc"]] += 1
    gets = [e for t in traces for e in t if e["op"] == "get" and e["obs"]["oc"] == "ok"]
    nev = sum(len(t) for t in all_traces)
    dcount = {}
    for dg in diag:
        dcount[dg[3]] = dcount.get(dg[3], 0) + 1
    ctx.cov.update({"s3_traces": len(all_traces), "s3_events": nev, "s3_events_per_kind": per_kind,
                    "s3_get_outcomes": outcomes, "s3_diag": dcount,
                    "s3_max_atoms_in_assembly": max([len(e["obs"]["atoms"]) for e in gets] or [0]),
                    "s3_max_copies": max([a["sym"] + 1 for e in gets for a in e["obs"]["atoms"]] or [0])})
    ctx.log(f"S3: {len(all_traces)} traces, {nev} events {per_kind}, get outcomes {outcomes}, diagnostics {dcount}")
    need_kinds = {"open", "get", "list", "parse", "repeat", "spoil", "set_expr", "set_oper", "drop", "restore"}
    if need_kinds - set(per_kind) or outcomes["ok"] == 0 or outcomes["Rejected"] == 0 or \
            not any(e["obs"]["stack"] for e in gets) or not any(e["obs"]["bonds"] for e in gets) or \
            ctx.cov["s3_max_copies"] < 3:
        raise Vacuity(f"S3: kinds {sorted(need_kinds - set(per_kind))} missing or outcomes {outcomes} / stacks / bonds / copies missing")
    ctx.traces_validated += len(all_traces)
    ctx.evaluations += nev
    ctx.nontrivial += sum(1 for e in gets if any(a["sym"] >= 1 for a in e["obs"]["atoms"]))
    ctx.sample({"s3_get": next((e for e in gets if len(e["obs"]["atoms"]) >= 4), gets[0])})
    ctx.sample({"s3_parse_from_repo_tests": repo_traces[0][:3]})

    # ---------------------------------------------------------------- binding self-test
    def corrupt_one(e):
        if e["op"] == "get" and e["obs"]["oc"] == "ok" and e["obs"]["atoms"]:
            a = e["obs"]["atoms"][-1]
            a["pos"][0][0] += 1
            return True
        if e["op"] == "list" and e["obs"]["oc"] == "ok" and e["obs"]["map"]:
            e["obs"]["map"][0][1] += "?"
            return True
        if e["op"] == "parse" and e["obs"]["oc"] == "ok" and len(e["obs"]["chains"]) >= 2 and \
                e["obs"]["chains"][0] != e["obs"]["chains"][1]:
            e["obs"]["chains"][0], e["obs"]["chains"][1] = e["obs"]["chains"][1], e["obs"]["chains"][0]
            return True
        if e["op"] == "repeat" and e["obs"]["oc"] == "ok" and len(e["obs"]["atoms"]) >= 2 and e["n"] >= 2:
            e["obs"]["atoms"][0]["src"], e["obs"]["atoms"][1]["src"] = e["obs"]["atoms"][1]["src"], e["obs"]["atoms"][0]["src"]
            return True
        return False

    bad = []
    for want in ("get", "list", "parse", "repeat"):
        found = False
        for t in all_traces:
            for li, e in enumerate(t):
                if e["op"] != want:
                    continue
                c = json.loads(json.dumps(t[: li + 1]))
                if corrupt_one(c[-1]):
                    bad.append(c)
                    found = True
                    break
            if found:
                break
    # a second kind of damage to an assembly: sym_id of one copy, and an atom dropped
    for t in traces:
        li = next((k for k, e in enumerate(t) if e["op"] == "get" and e["obs"]["oc"] == "ok" and len(e["obs"]["atoms"]) >= 2), None)
        if li is not None:
            c = json.loads(json.dumps(t[: li + 1]))
            c[-1]["obs"]["atoms"][0]["sym"] += 1
            bad.append(c)
            c = json.loads(json.dumps(t[: li + 1]))
            c[-1]["obs"]["atoms"].pop()
            bad.append(c)
            break
    if len(bad) < 6:
        raise Vacuity(f"binding self-test: only {len(bad)} of 6 corruptions possible")
    mm, _ = _validate(ctx, bad, "S3", selftest=True)
    hit = {m[1] for m in mm}
    if len(hit) < len(bad):
        raise Vacuity(f"binding self-test: {len(bad)} corrupted traces, {len(hit)} rejected")
    ctx.cov["selftest_corrupted_rejected"] = len(hit)


MANIFEST = {
    "technique": "TLA+ specification of oper_expression (token strings, the documented grammar as trees, the parser as coded), of affine operations and chains, of repeat() and of a PDBx file with get_assembly / list_assemblies and the edits of its three assembly categories (specs/X06) model-checked by TLC; every enumerated expression, token string, file x call pair and every transition of the session graph executed against the real API and compared with the values TLC computed; recorded random histories, random expressions, repeat() calls and the calls made by the repository's assembly tests judged by TLC (Trace.tla)",
    "level_text": "TLC checks on every expression tree with <= 2 groups of <= 2 items (ids 1, 2, X0; ranges over 1..3, descending and one-element ones included; 8,280 trees) that the parser as coded (replace / split / reverse / product) yields exactly the declarative chains (one tuple per combination, one step per group, group written last applied first and varying slowest), that itertools.product equals the positional definition, and that the grammar recogniser and the renderer are inverse; on every token string of <= 5 tokens over ( ) , - 1 3 X0 (19,608) that the grammar is accepted and every refusal is malformed; on 11,744 file x call pairs (4 atoms in 3 asym ids, 2 models, 5 operations with one id given twice, 1-2 rows of pdbx_struct_assembly_gen with 10 expressions incl. unknown ids, malformed and descending ones, assembly id None / known / unknown, model None / 1 / -1 / out of range, extra label_asym_id, author / label chain ids, bonds, absent categories) that refusals are exactly the documented reasons, that the atoms are exactly the listed atoms once per chain in file order with sym_id = number of the copy, that positions equal the composite of the written operations for every model, that annotations and bonds follow their source; the chain applied step by step equals one affine map for all chains of <= 3 steps. All of these inputs, every repeat() input with n, k <= 3 (k = 0 included) and every transition of a 3-call session graph on one file object (edits of expression / asym list / assembly id / rows / operations, dropped and restored categories, overwritten results; 4,636 transitions) are executed on real CIFFile, BinaryCIFFile and re-parsed CIF text, passed as file, block, or file + data_block, and compared with TLC's values. 80 random histories on random files (<= 9 atoms, <= 3 models, <= 10 operations, products up to 24 copies per row), 240 random expressions (numerals to 99, <= 4 groups), 120 repeat() calls and the expressions / list_assemblies calls of the repository's tests are recorded and judged by TLC (thorough: 74,528 + 8,440 trees, 137,257 token strings, 87,948 file x call pairs with 3 models and both tables, 65,812 session transitions of 4 calls, 1,440 histories).",
    "level_note": "Bounded: exhaustive only inside the stated bounds. Integer-valued operations and coordinates only (floating-point rotation matrices are not decided). Outside the documented grammar and for descending ranges a refusal or the code's reading are both accepted. The order of the copies, sym_id restarting per row and 'the later row of a repeated operation id counts' are modelled from the code (documentation silent). Other parameters of get_assembly (altloc, extra_fields other than label_asym_id) and reading foreign CIF text are not covered here. Exception classes are not compared. Trusted: TLC, the TLA+ value parser, the projections, numpy.",
}
