"""X11 — k-mer order permutations (64-bit LCG), selectors driven by them, bucket numbers.

S1  TLC checks specs/X11/MC.tla: on every word of the bounded families the schoolbook product
    modulo 2^64 equals the double-and-add product, the LCG is inverted by the certified inverse
    multiplier (so it is a bijection of the 64-bit words), the result is a 64-bit word.
S2  every dumped (x, Lcg(x)) pair is executed against RandomPermutation.permute, alone and in
    batches handed over in several array forms (int64, non-contiguous view, read-only, int32 /
    uint8 where the value fits); the caller's array is compared with a copy afterwards.
S3  seeded random events (permute on random 64-bit arrays, min/max, MinimizerSelector and
    SyncmerSelector driven by a RandomPermutation, the prime table and bucket_number with exact
    rational load factors) are recorded and re-computed by TLC (specs/X11/Trace.tla).
"""

from __future__ import annotations

import random

PROPERTY = "X11"
M64 = (1 << 64) - 1

MANIFEST = {
    "technique": "TLA+ specification of 64-bit modular arithmetic in byte limbs (specs/X11/Lcg64.tla: schoolbook and double-and-add products, the LCG of RandomPermutation with its certified inverse, the signed order, minimizers / syncmers over LCG keys, bucket_number over the prime table) model-checked by TLC; every enumerated word executed against RandomPermutation.permute; recorded random calls of permute, MinimizerSelector, SyncmerSelector and bucket_number judged by TLC with the same operators",
    "level_text": "TLC checks on every word of the bounded families (0..600, one limb set with the others 0 or 255, pairs of limbs, the int64 extremes, -1, the multiplier and its inverse; thorough: 0..5000 and larger value sets) that the two product routes agree, that LcgInverse(Lcg(x)) = x = Lcg(LcgInverse(x)) and that the result lies in the int64 range; each (x, Lcg(x)) is executed against RandomPermutation.permute in five array forms with the caller's array compared afterwards. Random events (arrays of random 64-bit values incl. negative ones, MinimizerSelector.select_from_kmers and SyncmerSelector.select with a RandomPermutation on DNA and protein sequences, the listed primes below 2^31 being ascending and - below 2^20 - prime, bucket_number for load factors 4/5 (the default 0.8), 1, 1/2, 1/4, 3/4) are judged by TLC.",
    "level_note": "Bounded; closes the gap stated for C10 (the 64-bit LCG inside RandomPermutation). MincodeSelector with a RandomPermutation (float threshold over a 2^64 range) and CachedSyncmerSelector are not decided here. bucket_number is judged only where n / load_factor is exact in binary64 or provably rounds to the floor of the rational quotient (see specs/X11/NOTES.md). Trusted: TLC, the TLA+ value parser, numpy's integer views.",
}


# --------------------------------------------------------------------------- value mapping
def w(v):
    v &= M64
    return [(v >> (8 * i)) & 255 for i in range(8)]


def unw(limbs):
    return sum(int(b) << (8 * i) for i, b in enumerate(limbs))


def signed(v):
    v &= M64
    return v - (1 << 64) if v >> 63 else v


def _np():
    import numpy as np

    return np


def warmup():
    import biotite.sequence.align  # noqa: F401


def _permute(arr):
    import biotite.sequence.align as align

    return align.RandomPermutation().permute(arr)


def _forms(vals):
    """(name, array) forms of a list of signed 64-bit values that numpy accepts for `kmers`."""
    np = _np()
    base = np.array(vals, dtype=np.int64)
    out = [("int64", base.copy())]
    wide = np.zeros(2 * len(vals), dtype=np.int64)
    wide[::2] = base
    out.append(("strided", wide[::2]))
    ro = base.copy()
    ro.setflags(write=False)
    out.append(("readonly", ro))
    if all(-(1 << 31) <= v < (1 << 31) for v in vals):
        out.append(("int32", base.astype(np.int32)))
    if all(0 <= v < 256 for v in vals):
        out.append(("uint8", base.astype(np.uint8)))
    return out


def exec_cases(item):
    np = _np()
    mm, n = [], 0
    cases = item["cases"]
    xs = [signed(unw(c[0])) for c in cases]
    for name, arr in _forms(xs):
        before = arr.copy()
        try:
            got = _permute(arr)
            obs = [w(int(g)) for g in np.asarray(got).astype(np.int64).tolist()]
            oc = "ok" if np.asarray(got).dtype == np.int64 else f"dtype {np.asarray(got).dtype}"
        except Exception as e:  # noqa: BLE001
            obs, oc = [], f"{type(e).__name__}: {e}"[:120]
        n += len(cases)
        frame = bool(np.array_equal(arr, before))
        for i, c in enumerate(cases):
            if oc != "ok" or i >= len(obs) or obs[i] != c[1] or not frame:
                mm.append({"kind": "permute", "form": name, "x": c[0], "expected": c[1],
                           "observed": obs[i] if i < len(obs) else None, "oc": oc, "frame": frame})
                break
    # one call per value (length-1 arrays) for the first few of the item
    for c in cases[:8]:
        arr = np.array([signed(unw(c[0]))], dtype=np.int64)
        got = w(int(_permute(arr)[0]))
        n += 1
        if got != c[1]:
            mm.append({"kind": "permute", "form": "single", "x": c[0], "expected": c[1], "observed": got,
                       "oc": "ok", "frame": True})
    return {"mismatch": mm, "n": n}


# --------------------------------------------------------------------------- S3 recording
_LOADS = [(4, 5, 0.8), (1, 1, 1.0), (1, 2, 0.5), (1, 4, 0.25), (3, 4, 0.75)]


def _primes_below(bound):
    import os

    import biotite.sequence.align as align

    path = os.path.join(os.path.dirname(align.__file__), "primes.txt")
    out = []
    for line in open(path).read().splitlines():
        if line and line[0] != "#":
            v = int(line)
            if v < bound:
                out.append(v)
    return out


def gen_trace(item):
    np = _np()
    import biotite.sequence as seq
    import biotite.sequence.align as align

    rng = random.Random(item["seed"])
    ev = []
    if item["kind"] == "bucket":
        primes = _primes_below(1 << 31)
        ev.append({"op": "primes", "list": primes, "bound": 1 << 20})
        for _ in range(item["length"]):
            num, den, lf = rng.choice(_LOADS)
            n = rng.choice([rng.randrange(0, 60), rng.randrange(0, 5000), rng.randrange(0, 400_000_000),
                            rng.choice(primes) * num // den + rng.randrange(-2, 3)])
            n = max(0, n)
            if n * den >= 2_000_000_000:
                n = n % 1000
            try:
                out = [int(align.bucket_number(n, lf) if rng.random() < 0.7 or lf != 0.8 else align.bucket_number(n))]
            except ValueError:
                out = []
            ev.append({"op": "bucket", "n": n, "num": num, "den": den, "out": out})
        return {"events": ev}
    perm = align.RandomPermutation()
    for _ in range(item["length"]):
        r = rng.random()
        if r < 0.35:
            n = rng.randrange(1, 7)
            vals = [rng.choice([rng.getrandbits(64), rng.getrandbits(16), (1 << 63) - rng.randrange(3),
                                (1 << 64) - 1 - rng.randrange(300), 1 << rng.randrange(64)]) for _ in range(n)]
            arr = np.array([signed(v) for v in vals], dtype=np.int64)
            got = perm.permute(arr)
            ev.append({"op": "permute", "x": [w(v) for v in vals],
                       "out": [w(int(g)) for g in got.tolist()], "after": [w(int(g)) for g in arr.tolist()]})
        elif r < 0.4:
            ev.append({"op": "minmax", "lo": w(int(perm.min)), "hi": w(int(perm.max))})
        elif r < 0.7:
            base = seq.NucleotideSequence.alphabet_unamb if rng.random() < 0.6 else seq.ProteinSequence.alphabet
            k = rng.randrange(2, 4)
            ka = align.KmerAlphabet(base, k)
            wdw = rng.randrange(2, 6)
            n = rng.randrange(wdw, wdw + 9)
            few = rng.random() < 0.4      # few distinct k-mers: ties between equal keys
            kmers = np.array([rng.randrange(min(len(ka), 3) if few else len(ka)) for _ in range(n)], dtype=np.int64)
            sel = align.MinimizerSelector(ka, wdw, align.RandomPermutation())
            pos, got = sel.select_from_kmers(kmers)
            ok = bool(np.array_equal(got, kmers[pos]))
            ev.append({"op": "minim", "k": [w(int(v)) for v in kmers.tolist()], "w": wdw,
                       "pos": [int(p) for p in pos.tolist()] if ok else [-1]})
        else:
            nuc = rng.random() < 0.6
            base = seq.NucleotideSequence.alphabet_unamb if nuc else seq.ProteinSequence.alphabet
            k = rng.randrange(3, 7)
            s = rng.randrange(2, k)
            win = k - s + 1
            offs = sorted(rng.sample(range(-win, win), rng.randrange(1, 3)))
            if len({o % win for o in offs}) < len(offs):
                offs = offs[:1]
            n = rng.randrange(k, k + 10)
            letters = "ACGT" if nuc else "ACDEFGHIKLMNPQRSTVWY"
            text = "".join(rng.choice(letters[: 2 if rng.random() < 0.3 else len(letters)]) for _ in range(n))
            sq = seq.NucleotideSequence(text) if nuc else seq.ProteinSequence(text)
            sel = align.SyncmerSelector(base, k, s, align.RandomPermutation(), tuple(offs))
            pos, got = sel.select(sq)
            smers = align.KmerAlphabet(base, s).create_kmers(sq.code)
            kmers = align.KmerAlphabet(base, k).create_kmers(sq.code)
            ok = bool(np.array_equal(got, kmers[pos]))
            ev.append({"op": "sync", "sm": [w(int(v)) for v in smers.tolist()], "k": k, "s": s, "off": offs,
                       "pos": [int(p) for p in pos.tolist()] if ok else [-1]})
    return {"events": ev}


# --------------------------------------------------------------------------- stages
def classify(mm):
    return None


def run(ctx):
    from harness.tlabind import helpers, pool
    from harness.tlabind.core import Vacuity

    quick = ctx.quick
    ctx.cov["rule"] = ("non-trivial = a word with at least two non-zero limbs (S2), an event whose "
                       "expected value is not empty (S3)")
    ctx.assumptions += [
        "64-bit values are exchanged as 8 little-endian byte limbs; numpy's int64/uint64 views are trusted",
        "bucket_number: only load factors 0.8, 1, 0.5, 0.25, 0.75 with n * den < 2e9 (binary64 quotient "
        "provably floors to the rational quotient there)",
    ]
    # S1 + dump
    res, states = helpers.dump_states(ctx, "MC", "MC.cfg" if quick else "MC_thorough.cfg", timeout=900)
    cases = sorted([s["x"], s["out"]] for s in states if s.get("phase") == 1)
    if len(cases) < 900:
        raise Vacuity(f"only {len(cases)} LCG cases dumped")
    ctx.exhaustive = True
    items = [{"cases": c} for c in helpers.chunked(cases, 60)]
    out = helpers.run_pool(ctx, "harness.drivers.x11:exec_cases", items, stage="S2", item_timeout=120)
    n = sum(r.get("n", 0) for r in out)
    ctx.traces_validated += len(cases)
    ctx.evaluations += n
    ctx.nontrivial += sum(1 for c in cases if sum(1 for b in c[0] if b) >= 2)
    ctx.cov["s2_words"] = len(cases)
    ctx.cov["s2_real_values_compared"] = n
    ctx.sample({"s2_case": cases[len(cases) // 2]})
    # S3
    ntr = 60 if quick else 600
    titems = [{"seed": ctx.rng.randrange(1 << 30), "length": 10 if quick else 14,
               "kind": "bucket" if i % 10 == 9 else "perm"} for i in range(ntr)]
    tres = pool.run_isolated("harness.drivers.x11:gen_trace", titems, item_timeout=120)
    traces = []
    for it, r in zip(titems, tres):
        if "driver_error" in r:
            raise RuntimeError(f"S3 driver error: {r['driver_error']}\n{r.get('tb', '')}")
        if "crash" in r:
            ctx.mismatch({"stage": "S3", "kind": "crash", "signal": r["crash"], "item": it})
            continue
        traces.append(r["events"])
    mms = helpers.tlc_validate(ctx, traces, timeout=1500)
    if any(v[3] == "DOMAIN" for v in mms):
        raise RuntimeError("S3 generator left the specification's domain")
    per = {}
    for t in traces:
        for e in t:
            per[e["op"]] = per.get(e["op"], 0) + 1
    ctx.cov["s3_events_per_op"] = per
    need = {"permute", "minmax", "minim", "sync", "primes", "bucket"}
    if need - set(per):
        raise Vacuity(f"S3 events never recorded: {sorted(need - set(per))}")
    nonempty = sum(1 for t in traces for e in t if e.get("pos") or e.get("out"))
    if nonempty == 0:
        raise Vacuity("S3: no event with a non-empty result")
    refused = sum(1 for t in traces for e in t if e["op"] == "bucket" and not e["out"])
    ctx.cov["s3_bucket_refusals"] = refused
    ctx.traces_validated += len(traces)
    ctx.evaluations += sum(len(t) for t in traces)
    ctx.nontrivial += nonempty
    ctx.sample({"s3_event": traces[0][0]})
    for v in mms:
        _tag, tid, l, op, exp = v
        e = traces[tid - 1][l - 1]
        ctx.mismatch({"stage": "S3", "kind": "event", "op": op, "event": {k: e[k] for k in e if k != "list"},
                      "expected": exp, "trace": tid, "index": l})

    def corrupt(tr):
        for e in tr:
            if e["op"] == "permute":
                e["out"][0][0] ^= 1
                return True
            if e["op"] == "bucket" and e["out"]:
                e["out"][0] += 2
                return True
        return False

    helpers.binding_selftest(ctx, traces, corrupt, max_traces=4)
    bt = [t for t in traces if t and t[0]["op"] == "primes"][:1]
    helpers.binding_selftest(ctx, bt, corrupt, max_traces=1)


def replay(record):
    np = _np()
    if record.get("kind") == "permute":
        arr = np.array([signed(unw(record["x"]))], dtype=np.int64)
        got = w(int(_permute(arr)[0]))
        return {"mismatch": got != record["expected"], "observed": got, "expected": record["expected"]}
    return {"mismatch": None, "note": "S3 events are replayed by re-running the check with the same VERIF_SEED"}
