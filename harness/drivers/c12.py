"""C12 — sequence file formats (FASTA, FASTQ, GenBank/GenPept, GFF3) return what was written;
editing a file object keeps its text and its parsed view consistent.

S1  TLC checks the four edit-history machines (specs/C12/Fasta, Fastq, GbFile, Gff: incremental
    index = full re-scan, live view = ideal mapping/list = meaning of the text, refusals are
    no-ops) and the three single-step codec specifications (SeqCodec, GbCodec, GffCodec:
    a correct codec exists, implementation-shaped writer+reader = identity or known-bad).
S2  every transition of the four state graphs is replayed into the real file classes (live
    view, view of the re-read text, iterator view, outcome, returned value after every call);
    every case of the codec dumps is executed against the real writers/readers.
S3  seeded random edit histories and random round trips beyond the exhaustive bounds are
    recorded and re-computed by TLC (specs/C12/Trace.tla) with the same operators.

Text is exchanged as lists of character codes (specs/C12/Text.tla)."""

from __future__ import annotations

import io
import json
import os
import random
import warnings

PROPERTY = "C12"

FIND_BR = "C12-gb-single-base-beyond-right"
FIND_VALUELESS = "C12-gb-only-valueless-qualifiers"
FIND_GBIDX = "C12-gb-index-below-minus-len"
FIND_GFFBLANK = "C12-gff-trailing-blank"
FIND_GFFHASH = "C12-gff-hash-seqid"
FIND_GENERAL = "C12-general-save-sequences-fastq-key"
FIND_EMPTY = "C12-gb-empty-annotation"


# --------------------------------------------------------------------------- text <-> codes
def s2c(s):
    return [ord(ch) for ch in s]


def c2s(c):
    return "".join(chr(int(x)) for x in c)


def ls2c(lines):
    return [s2c(l) for l in lines]


def c2ls(lines):
    return [c2s(l) for l in lines]


def _exc(e):
    return f"{type(e).__name__}: {e}"[:200]


# --------------------------------------------------------------------------- FASTA adapter
class Fasta:
    name = "fasta"

    @staticmethod
    def new(cfg):
        from biotite.sequence.io.fasta import FastaFile

        return FastaFile(chars_per_line=int(cfg["cpl"]))

    @staticmethod
    def apply(f, op, a, cfg):
        out = []
        if op == "set":
            f[c2s(a[0])] = c2s(a[1])
        elif op == "del":
            del f[c2s(a[0])]
        elif op == "get":
            out = s2c(f[c2s(a[0])])
        elif op == "read":
            from biotite.sequence.io.fasta import FastaFile

            f = FastaFile.read(io.StringIO("\n".join(c2ls(a[0])) + "\n"), int(a[1]))
        else:
            raise KeyError(op)
        return f, out

    @staticmethod
    def view(f):
        v = [[s2c(h), s2c(s)] for h, s in f.items()]
        if len(f) != len(v) or any(c2s(h) not in f for h, _ in v):
            return ["len/contains disagree with items()"]
        return v

    @staticmethod
    def project(f, cfg):
        from biotite.sequence.io.fasta import FastaFile

        t = io.StringIO()
        f.write(t)
        text = t.getvalue()
        p = {"view": Fasta.view(f), "lines": ls2c(f.lines)}
        try:
            g = FastaFile.read(io.StringIO(text), int(cfg["cpl"]))
            p["reread"] = {"oc": "ok", "view": Fasta.view(g)}
        except Exception as e:
            p["reread"] = {"oc": "Rejected", "view": [], "exc": _exc(e)}
        try:
            p["iter"] = [[s2c(h), s2c(s)] for h, s in FastaFile.read_iter(io.StringIO(text))]
        except Exception as e:
            p["iter"] = ["raised " + _exc(e)]
        return p


# --------------------------------------------------------------------------- FASTQ adapter
class Fastq:
    name = "fastq"

    @staticmethod
    def _mk(cfg):
        return int(cfg["off"]), (None if int(cfg["cpl"]) == 0 else int(cfg["cpl"]))

    @staticmethod
    def new(cfg):
        from biotite.sequence.io.fastq import FastqFile

        off, cpl = Fastq._mk(cfg)
        return FastqFile(off, chars_per_line=cpl)

    @staticmethod
    def val(v):
        s, q = v
        return [s2c(s), [int(x) for x in q.tolist()]]

    @staticmethod
    def apply(f, op, a, cfg):
        import numpy as np

        out = []
        if op == "set":
            f[c2s(a[0])] = (c2s(a[1]), np.array([int(x) for x in a[2]], dtype=int))
        elif op == "del":
            del f[c2s(a[0])]
        elif op == "get":
            out = Fastq.val(f[c2s(a[0])])
        elif op == "read":
            from biotite.sequence.io.fastq import FastqFile

            cpl = None if int(a[2]) == 0 else int(a[2])
            f = FastqFile.read(io.StringIO("\n".join(c2ls(a[0])) + "\n"), int(a[1]), cpl)
        else:
            raise KeyError(op)
        return f, out

    @staticmethod
    def view(f):
        v = [[s2c(h), Fastq.val(x)] for h, x in f.items()]
        if len(f) != len(v) or any(c2s(h) not in f for h, _ in v):
            return ["len/contains disagree with items()"]
        return v

    @staticmethod
    def project(f, cfg):
        from biotite.sequence.io.fastq import FastqFile

        off, cpl = Fastq._mk(cfg)
        t = io.StringIO()
        f.write(t)
        text = t.getvalue()
        p = {"view": Fastq.view(f), "lines": ls2c(f.lines)}
        try:
            g = FastqFile.read(io.StringIO(text), off, cpl)
            p["reread"] = {"oc": "ok", "view": Fastq.view(g)}
        except Exception as e:
            p["reread"] = {"oc": "Rejected", "view": [], "exc": _exc(e)}
        try:
            p["iter"] = [[s2c(h), Fastq.val(x)] for h, x in FastqFile.read_iter(io.StringIO(text), off)]
        except Exception as e:
            p["iter"] = ["raised " + _exc(e)]
        return p


# --------------------------------------------------------------------------- GenBank adapter
class Gb:
    name = "gb"

    @staticmethod
    def new(cfg):
        from biotite.sequence.io.genbank import GenBankFile

        return GenBankFile()

    @staticmethod
    def fld(v):
        """spec field <<name, content, sub>> -> (name, content, subfields dict)"""
        from collections import OrderedDict

        return c2s(v[0]), c2ls(v[1]), OrderedDict((c2s(k), c2ls(ls)) for k, ls in v[2])

    @staticmethod
    def unfld(t):
        name, content, sub = t
        return [s2c(name), ls2c(content), [[s2c(k), ls2c(ls)] for k, ls in sub.items()]]

    @staticmethod
    def apply(f, op, a, cfg):
        out = []
        if op == "insert":
            n, c, s = Gb.fld(a[1])
            if s:
                f.insert(int(a[0]), n, c, s)
            else:
                f.insert(int(a[0]), n, c)
        elif op == "append":
            n, c, s = Gb.fld(a[0])
            f.append(n, c, s if s else None)
        elif op == "setitem":
            n, c, s = Gb.fld(a[1])
            f[int(a[0])] = (n, c, s) if s else (n, c)
        elif op == "delitem":
            del f[int(a[0])]
        elif op == "getitem":
            out = Gb.unfld(f[int(a[0])])
        elif op == "set_field":
            n, c, s = Gb.fld(a[0])
            f.set_field(n, c, s if s else None)
        elif op == "indices":
            out = [int(i) for i in f.get_indices(c2s(a[0]))]
        elif op == "read":
            from biotite.sequence.io.genbank import GenBankFile

            f = GenBankFile.read(io.StringIO("\n".join(c2ls(a[0])) + "\n"))
        else:
            raise KeyError(op)
        return f, out

    @staticmethod
    def view(f):
        return [Gb.unfld(f[i]) for i in range(len(f))]

    @staticmethod
    def project(f, cfg):
        from biotite.sequence.io.genbank import GenBankFile

        p = {"lines": ls2c(f.lines)}
        try:
            p["view"] = Gb.view(f)
        except Exception as e:
            p["view"] = ["raised " + _exc(e)]
        t = io.StringIO()
        f.write(t)
        try:
            g = GenBankFile.read(io.StringIO(t.getvalue()))
            p["reread"] = {"oc": "ok", "view": Gb.view(g)}
        except Exception as e:
            p["reread"] = {"oc": "Rejected", "view": [], "exc": _exc(e)}
        return p


# --------------------------------------------------------------------------- GFF adapter
class Gff:
    name = "gff"

    @staticmethod
    def new(cfg):
        from biotite.sequence.io.gff import GFFFile

        return GFFFile()

    @staticmethod
    def ent(e):
        """spec entry -> argument tuple of the real API"""
        from biotite.sequence.annotation import Location

        strand = {"+": Location.Strand.FORWARD, "-": Location.Strand.REVERSE, ".": None}[e[6]]
        score = None if len(e[5]) == 0 else int(e[5][0]) / 2
        phase = None if len(e[7]) == 0 else int(e[7][0])
        attrs = {c2s(k): c2s(v) for k, v in e[8]}
        return (c2s(e[0]), c2s(e[1]), c2s(e[2]), int(e[3]), int(e[4]), score, strand, phase, attrs)

    @staticmethod
    def unent(t):
        from biotite.sequence.annotation import Location

        seqid, source, typ, start, end, score, strand, phase, attrs = t
        if score is None:
            sc = []
        elif float(score) * 2 == int(float(score) * 2):
            sc = [int(float(score) * 2)]
        else:
            sc = ["inexact", repr(score)]
        sd = "+" if strand == Location.Strand.FORWARD else "-" if strand == Location.Strand.REVERSE else "."
        return [s2c(seqid), s2c(source), s2c(typ), int(start), int(end), sc, sd,
                [] if phase is None else [int(phase)], [[s2c(k), s2c(v)] for k, v in attrs.items()]]

    @staticmethod
    def apply(f, op, a, cfg):
        out = []
        if op == "append":
            f.append(*Gff.ent(a[0]))
        elif op == "insert":
            f.insert(int(a[0]), *Gff.ent(a[1]))
        elif op == "setitem":
            f[int(a[0])] = Gff.ent(a[1])
        elif op == "delitem":
            del f[int(a[0])]
        elif op == "getitem":
            out = Gff.unent(f[int(a[0])])
        elif op == "directive":
            f.append_directive(c2s(a[0]), *c2ls(a[1]))
        elif op == "read":
            from biotite.sequence.io.gff import GFFFile

            with warnings.catch_warnings():
                warnings.simplefilter("ignore")
                f = GFFFile.read(io.StringIO("\n".join(c2ls(a[0])) + "\n"))
        else:
            raise KeyError(op)
        return f, out

    @staticmethod
    def view(f):
        v = []
        for i in range(len(f)):
            try:
                v.append(Gff.unent(f[i]))
            except Exception:
                v.append(["bad"])
        it = 0
        try:
            for _ in f:       # iteration protocol: __getitem__ until IndexError
                it += 1
        except Exception:
            it = -1
        if it != len(v) and all(x != ["bad"] for x in v):
            return ["iteration yields %d entries, len() is %d" % (it, len(v))]
        return v

    @staticmethod
    def project(f, cfg):
        from biotite.sequence.io.gff import GFFFile

        p = {"view": Gff.view(f), "lines": ls2c(f.lines),
             "dirs": sorted([s2c(t), int(i)] for t, i in f.directives())}
        t = io.StringIO()
        f.write(t)
        try:
            with warnings.catch_warnings():
                warnings.simplefilter("ignore")
                g = GFFFile.read(io.StringIO(t.getvalue()))
            p["reread"] = {"oc": "ok", "view": Gff.view(g),
                           "dirs": sorted([s2c(t), int(i)] for t, i in g.directives())}
        except Exception as e:
            p["reread"] = {"oc": "Rejected", "view": [], "exc": _exc(e)}
        return p


ADAPTERS = {"fasta": Fasta, "fastq": Fastq, "gb": Gb, "gff": Gff}


def safe_project(ad, f, cfg):
    """Projection of a possibly corrupted object: an exception inside a view is an observation."""
    try:
        with warnings.catch_warnings():
            warnings.simplefilter("ignore")
            return ad.project(f, cfg)
    except Exception as e:  # noqa: BLE001
        return {"view": ["raised " + _exc(e)], "lines": [], "reread": {"oc": "Rejected", "view": ["raised"]},
                "iter": ["raised"], "dirs": ["raised"]}


def apply_real(ad, f, op, a, cfg):
    """-> (object', outcome, out). Any exception is the outcome "Rejected" (the property names no
    exception class); warnings are silenced."""
    try:
        with warnings.catch_warnings():
            warnings.simplefilter("ignore")
            f2, out = ad.apply(f, op, a, cfg)
        return f2, "ok", out
    except Exception as e:  # noqa: BLE001
        return f, "Rejected", ["exc", _exc(e)]


# --------------------------------------------------------------------------- S2: machines
_G = None


def _graph():
    global _G
    if _G is None:
        with open(os.environ["C12_GRAPH"]) as fh:
            _G = json.load(fh)
    return _G


def warmup():
    import biotite.sequence.io.fasta  # noqa: F401
    import biotite.sequence.io.fastq  # noqa: F401
    import biotite.sequence.io.genbank  # noqa: F401
    import biotite.sequence.io.gff  # noqa: F401
    import biotite.sequence.io.general  # noqa: F401

    if "C12_GRAPH" in os.environ:
        _graph()


def _keys(view):
    return [e[0] for e in view if isinstance(e, list) and len(e) == 2]


def same_up_to_move(v1, v2, key):
    """Equal as mappings and on the order of every key but `key` (Text!SameUpToMove)."""
    try:
        r1 = [e for e in v1 if e[0] != key]
        r2 = [e for e in v2 if e[0] != key]
        m1 = [e for e in v1 if e[0] == key]
        m2 = [e for e in v2 if e[0] == key]
        return r1 == r2 and m1 == m2 and len(m1) <= 1
    except Exception:
        return False


def judge_ok_step(fmt, op, a, exp, pre_ideal, oc, out, p):
    """Compare one accepted call with the spec's successor state. Returns (bad, moved):
    bad = list of failing clauses; moved = the views agree only up to the position of a
    replaced key (allowed by the property; the path cannot be continued)."""
    bad, moved = [], False
    if oc != "ok":
        return ["oc"], False
    want = exp["ideal"]
    mapping = fmt in ("fasta", "fastq")
    replaced = mapping and op == "set" and a[0] in [e[0] for e in pre_ideal]

    def eq(v):
        nonlocal moved
        if v == want:
            return True
        if replaced and same_up_to_move(v, want, a[0]):
            moved = True
            return True
        return False

    if not eq(p["view"]):
        bad.append("view")
    rr = p["reread"]
    if mapping and want == []:
        # an empty FASTA/FASTQ text is refused by read() (documented); accepting it as an
        # empty file would be just as consistent
        if not (rr["oc"] == "Rejected" or rr["view"] == []):
            bad.append("reread")
    elif rr["oc"] != "ok" or not eq(rr["view"]):
        bad.append("reread")
    elif rr["view"] != p["view"]:
        bad.append("reread-vs-live")
    if mapping and not eq(p["iter"]):
        bad.append("iter")
    if fmt == "gff":
        if p["dirs"] != sorted(exp["dirs"]) or rr.get("dirs") != p["dirs"]:
            bad.append("directives")
    if op in ("get", "getitem", "indices") and out != exp["out"]:
        bad.append("out")
    return bad, moved


def judge_refused_step(fmt, exp, pre_ideal, oc, p):
    """A call the specification refuses: accepted iff the object is unchanged and consistent
    (whether or not an exception was raised is the outcome), or iff the specification names an
    alternative consistent result (alt) and the call produced exactly that."""
    rr = p["reread"]
    mapping = fmt in ("fasta", "fastq")

    def consistent(view):
        if p["view"] != view:
            return False
        if mapping and view == []:
            return rr["oc"] == "Rejected" or rr["view"] == []
        return rr["oc"] == "ok" and rr["view"] == view

    if oc == "Rejected" and consistent(pre_ideal):
        return []
    alt = exp.get("alt") or []
    if oc == "ok" and alt and consistent(alt[0]):
        return []
    bad = []
    if oc != "Rejected":
        bad.append("oc")
    if p["view"] != pre_ideal:
        bad.append("view-changed")
    if not consistent(p["view"]):
        bad.append("inconsistent")
    return bad or ["refusal"]


def exec_paths(item):
    """item = {"paths": [path items]}: many short paths per forked child."""
    tot = {"mismatch": [], "steps": 0, "text_same": 0, "text_diff": 0, "moved_stop": 0}
    for it in item["paths"]:
        r = exec_path(it)
        for k in tot:
            tot[k] += r[k]
    return tot


def exec_path(item):
    from harness.tlabind.pool import progress

    fmt = item["fmt"]
    G = _graph()[fmt]
    states, labels = G["states"], G["labels"]
    ad = ADAPTERS[fmt]
    st0 = states[item["init"]]
    cfg = st0["cfg"]
    f = ad.new(cfg)
    pre = st0["ideal"]
    mism, nsteps, text_same, text_diff, moved_stop = [], 0, 0, 0, 0
    hist = []
    for li, dst in item["steps"]:
        op, a = labels[li]
        exp = states[dst]
        hist.append([op, a, exp["oc"]])      # refused calls are tried on a copy (see below)
        nsteps += 1
        progress({"fmt": fmt, "op": op, "a": a, "exp_oc": exp["oc"], "len_before": len(pre)})
        base = {"kind": "step", "fmt": fmt, "op": op, "a": a, "cfg": cfg, "len_before": len(pre),
                "path": list(hist)}
        if exp["oc"] != "ok":
            # A call the specification refuses must leave the object unchanged. It is tried on a
            # deep copy (the file classes are pure Python), so that the rest of the path is
            # replayed on the intact object whatever the call did.
            import copy

            f2, oc, out = apply_real(ad, copy.deepcopy(f), op, a, cfg)
            p = safe_project(ad, f2, cfg)
            bad = judge_refused_step(fmt, exp, pre, oc, p)
            if bad:
                mism.append(dict(base, bad=bad,
                                 expected={"oc": exp["oc"], "view": pre, "alt": exp.get("alt") or []},
                                 observed={"oc": oc, "out": out, "view": p["view"], "reread": p["reread"]}))
            continue
        f2, oc, out = apply_real(ad, f, op, a, cfg)
        p = safe_project(ad, f2, cfg)
        bad, moved = judge_ok_step(fmt, op, a, exp, pre, oc, out, p)
        if bad:
            mism.append(dict(base, bad=bad,
                             expected={"oc": exp["oc"], "view": exp["ideal"], "out": exp["out"],
                                       "dirs": exp.get("dirs")},
                             observed={"oc": oc, "out": out, "view": p["view"], "reread": p["reread"],
                                       "iter": p.get("iter"), "dirs": p.get("dirs")}))
            break
        if p["lines"] == exp["lines"]:
            text_same += 1
        else:
            text_diff += 1
        if moved:
            moved_stop += 1
            break
        f, pre = f2, exp["ideal"]
    return {"mismatch": mism, "steps": nsteps, "text_same": text_same, "text_diff": text_diff,
            "moved_stop": moved_stop}


# --------------------------------------------------------------------------- S2: codec cases
_DEF = ("ML", "MR", "BL", "BR", "UNK", "BTW")


def _defect_flags():
    from biotite.sequence.annotation import Location

    D = Location.Defect
    return {"ML": D.MISS_LEFT, "MR": D.MISS_RIGHT, "BL": D.BEYOND_LEFT, "BR": D.BEYOND_RIGHT,
            "UNK": D.UNK_LOC, "BTW": D.BETWEEN}


def mk_loc(d):
    from biotite.sequence.annotation import Location

    fl = _defect_flags()
    defect = Location.Defect.NONE
    for n in d.get("defect", []):
        defect |= fl[n]
    strand = Location.Strand.FORWARD if d["strand"] == "+" else Location.Strand.REVERSE
    return Location(int(d["first"]), int(d["last"]), strand, defect)


def mk_feature(key, locs, qual):
    """key: codes; locs: list of loc dicts; qual: list of [key codes, [] | [value codes]]"""
    from biotite.sequence.annotation import Feature

    q = {c2s(k): (None if len(v) == 0 else c2s(v[0])) for k, v in qual}
    return Feature(c2s(key), [mk_loc(d) for d in locs], q)


def norm_loc_real(loc):
    from biotite.sequence.annotation import Location

    fl = _defect_flags()
    names = tuple(sorted(n for n in _DEF if loc.defect & fl[n]))
    sd = "+" if loc.strand == Location.Strand.FORWARD else "-" if loc.strand == Location.Strand.REVERSE else "."
    return (int(loc.first), int(loc.last), sd, names)


def norm_feat_real(feat):
    return (tuple(s2c(feat.key)), tuple(sorted(norm_loc_real(x) for x in feat.locs)),
            tuple(sorted((tuple(s2c(k)), None if v is None else tuple(s2c(v))) for k, v in feat.qual.items())))


def norm_feat_spec(v):
    """v = [key, [loc dicts], [[k, optval], ...]] as printed by TLC (FeatVal / GFeatVal)"""
    key, locs, qual = v
    return (tuple(key),
            tuple(sorted((int(d["first"]), int(d["last"]), d["strand"], tuple(sorted(d.get("defect", []))))
                         for d in locs)),
            tuple(sorted((tuple(k), None if len(o) == 0 else tuple(o[0])) for k, o in qual)))


def _unnorm(fs):
    return [[list(k), [list(x[:3]) + [list(x[3])] for x in ls], [[list(a), None if b is None else list(b)] for a, b in q]]
            for k, ls, q in sorted(fs)]


def gb_annotation_roundtrip(feats):
    """set_annotation -> write -> read -> get_annotation.  -> (oc, set of normalised features,
    FEATURES content lines)"""
    import biotite.sequence.io.genbank as gb
    from biotite.sequence.annotation import Annotation

    f = gb.GenBankFile()
    gb.set_annotation(f, Annotation(feats))
    t = io.StringIO()
    f.write(t)
    g = gb.GenBankFile.read(io.StringIO(t.getvalue()))
    lines = g.get_fields("FEATURES")[0][0]
    try:
        with warnings.catch_warnings():
            warnings.simplefilter("ignore")
            a = gb.get_annotation(g)
    except Exception as e:  # noqa: BLE001
        return "Rejected", set(), lines, _exc(e)
    return "ok", {norm_feat_real(x) for x in a}, lines, None


def gb_read_locstring(codes):
    import biotite.sequence.io.genbank as gb

    f = gb.GenBankFile()
    f.set_field("FEATURES", [" " * 5 + "gene".ljust(16) + c2s(codes)])
    with warnings.catch_warnings():
        warnings.simplefilter("ignore")
        a = gb.get_annotation(f)
    return {norm_feat_real(x) for x in a}


def _seq_obj(x):
    import biotite.sequence as bs

    cls, syms = x
    return bs.NucleotideSequence(c2s(syms)) if cls == "nuc" else bs.ProteinSequence(c2s(syms))


def _seq_val(s):
    import biotite.sequence as bs

    cls = "nuc" if isinstance(s, bs.NucleotideSequence) else "prot" if isinstance(s, bs.ProteinSequence) else type(s).__name__
    return [cls, s2c(str(s))]


def case_gbcodec(c, r, cnt):
    kind = c[0]
    mm = []
    if kind in ("loc", "feat", "annot"):
        if kind == "loc":
            feats = [mk_feature(s2c("gene"), c[1], [])]
        elif kind == "feat":
            feats = [mk_feature(s2c("gene"), c[1][0], c[1][1])]
        else:
            feats = [mk_feature(d["key"], d["locs"], d["qual"]) for d in c[1]]
        want = {norm_feat_spec(v) for v in r["want"]}
        oc, got, lines, exc = gb_annotation_roundtrip(feats)
        if oc != "ok" or got != want:
            back = r["back"]
            mm.append({"kind": "case", "spec": "GbCodec", "case": c, "kb": r["kb"],
                       "expected": {"oc": "ok", "feats": _unnorm(want)},
                       "model_back": ({"oc": "Rejected", "feats": []} if back == [["Rejected"]] else
                                      {"oc": "ok", "feats": _unnorm({norm_feat_spec(v) for v in back})}),
                       "observed": {"oc": oc, "feats": _unnorm(got), "exc": exc}})
        # diagnostics (never a verdict): does the writer produce the specified text, does the
        # reader understand every encoding the grammar allows
        if all(len(x.locs) == 1 for x in feats) and len(feats) <= 1:   # iteration orders are not specified
            _text(cnt, "GbCodec." + kind, ls2c(lines) == r["text"] or bool(r["kb"]))
        for t in r.get("ref", []):
            try:
                ok = gb_read_locstring(t) == want
            except Exception:  # noqa: BLE001
                ok = False
            cnt["ref_ok" if ok else "ref_fail"] += 1
            if not ok and len(cnt["ref_fail_examples"]) < 5:
                cnt["ref_fail_examples"].append(c2s(t))
    elif kind == "origin":
        import biotite.sequence.io.genbank as gb
        from biotite.sequence.annotation import AnnotatedSequence, Annotation, Feature, Location

        (syms, start), = r["want"]
        cls = "prot" if c[1][0] == "prot" else "nuc"
        seq = _seq_obj([cls, syms])
        f = gb.GenBankFile()
        ann = Annotation([Feature("source", [Location(int(start), int(start) + len(syms) - 1)], {})])
        gb.set_annotated_sequence(f, AnnotatedSequence(ann, seq, sequence_start=int(start)))
        t = io.StringIO()
        f.write(t)
        g = gb.GenBankFile.read(io.StringIO(t.getvalue()))
        fmt = "gp" if cls == "prot" else "gb"
        try:
            r1 = gb.get_annotated_sequence(g, format=fmt)
            r2 = gb.get_sequence(g, format=fmt)
            got = [_seq_val(r1.sequence), int(r1.sequence_start), _seq_val(r2), r1.annotation == ann]
        except Exception as e:  # noqa: BLE001
            got = ["raised", _exc(e)]
        exp = [[cls, syms], int(start), [cls, syms], True]
        if got != exp:
            mm.append({"kind": "case", "spec": "GbCodec", "case": c, "kb": r["kb"], "expected": exp,
                       "model_back": r["back"], "observed": got, "row": r})
        lines = g.get_fields("ORIGIN")[0][0]
        _text(cnt, "GbCodec.origin", ls2c(lines) == r["text"])
    else:
        raise KeyError(kind)
    return mm


def _text(cnt, kind, same):
    """diagnostic counter: does the written text equal the text the specification writes"""
    cnt["text_same" if same else "text_diff"] += 1
    if not same:
        cnt["text_diff_kinds"][kind] = cnt["text_diff_kinds"].get(kind, 0) + 1


def _fq_items(items):
    import numpy as np

    return [(c2s(h), (c2s(s), np.array([int(x) for x in q], dtype=int))) for h, (s, q) in items]


def case_seqcodec(c, r, cnt):
    import numpy as np

    kind = c[0]
    mm = []

    def report(exp, got, what):
        mm.append({"kind": "case", "spec": "SeqCodec", "case": c, "kb": r["kb"], "what": what,
                   "expected": exp, "model_back": r["back"], "observed": got, "row": r})

    if kind == "fastq_rt":
        from biotite.sequence.io.fastq import FastqFile

        items, off, cpl0 = c[1]
        cpl = None if cpl0 == 0 else int(cpl0)
        want = r["want"]
        t = io.StringIO()
        FastqFile.write_iter(t, _fq_items(items), int(off), cpl)
        text = t.getvalue()
        f = FastqFile(int(off), chars_per_line=cpl)
        for h, v in _fq_items(items):
            f[h] = v
        t2 = io.StringIO()
        f.write(t2)
        for name, txt in (("write_iter", text), ("setitem+write", t2.getvalue())):
            try:
                got = [[s2c(h), Fastq.val(v)] for h, v in FastqFile.read_iter(io.StringIO(txt), int(off))]
            except Exception as e:  # noqa: BLE001
                got = ["raised", _exc(e)]
            if got != want:
                report(want, got, name + " -> read_iter")
            try:
                got = Fastq.view(FastqFile.read(io.StringIO(txt), int(off), cpl))
            except Exception as e:  # noqa: BLE001
                got = ["raised", _exc(e)]
            if got != want:
                report(want, got, name + " -> read")
        _text(cnt, "SeqCodec.fastq_rt", ls2c(text.splitlines()) == r["text"])
    elif kind == "fasta_rt":
        from biotite.sequence.io.fasta import FastaFile

        items, cpl = c[1]
        want = r["want"]
        its = [(c2s(h), c2s(s)) for h, s in items]
        t = io.StringIO()
        FastaFile.write_iter(t, its, int(cpl))
        text = t.getvalue()
        f = FastaFile(chars_per_line=int(cpl))
        for h, s in its:
            f[h] = s
        t2 = io.StringIO()
        f.write(t2)
        for name, txt in (("write_iter", text), ("setitem+write", t2.getvalue())):
            try:
                got = [[s2c(h), s2c(s)] for h, s in FastaFile.read_iter(io.StringIO(txt))]
            except Exception as e:  # noqa: BLE001
                got = ["raised", _exc(e)]
            if got != want:
                report(want, got, name + " -> read_iter")
            try:
                got = Fasta.view(FastaFile.read(io.StringIO(txt), int(cpl)))
            except Exception as e:  # noqa: BLE001
                got = ["raised", _exc(e)]
            if got != want:
                report(want, got, name + " -> read")
        _text(cnt, "SeqCodec.fasta_rt", ls2c(text.splitlines()) == r["text"])
    elif kind == "conv":
        import biotite.sequence as bs

        fmt, x, rna, typ = c[1]
        seq = _seq_obj(x)
        want = r["want"]
        try:
            if fmt == "fasta":
                import biotite.sequence.io.fasta as fa

                f = fa.FastaFile()
                fa.set_sequence(f, seq, header="h 1", as_rna=bool(rna))
                fa.set_sequences(f, {"second": seq}, as_rna=bool(rna))
                t = io.StringIO()
                f.write(t)
                g = fa.FastaFile.read(io.StringIO(t.getvalue()))
                st = None if typ == "auto" else (bs.NucleotideSequence if x[0] == "nuc" else bs.ProteinSequence)
                got = [_seq_val(fa.get_sequence(g, "h 1", seq_type=st)), _seq_val(fa.get_sequence(g, seq_type=st)),
                       [[s2c(h), _seq_val(s)] for h, s in fa.get_sequences(g, seq_type=st).items()]]
                exp = [want, want, [[s2c("h 1"), want], [s2c("second"), want]]]
            elif fmt == "fastq":
                import biotite.sequence.io.fastq as fq

                scores = np.arange(len(seq)) % 40
                f = fq.FastqFile(33, chars_per_line=4)
                fq.set_sequence(f, seq, scores, header="h 1", as_rna=bool(rna))
                fq.set_sequences(f, {"second": (seq, scores)}, as_rna=bool(rna))
                t = io.StringIO()
                f.write(t)
                g = fq.FastqFile.read(io.StringIO(t.getvalue()), 33)
                s1, q1 = fq.get_sequence(g, "h 1")
                s0, q0 = fq.get_sequence(g)
                d = fq.get_sequences(g)
                got = [_seq_val(s1), q1.tolist(), _seq_val(s0), q0.tolist(),
                       [[s2c(h), _seq_val(s), q.tolist()] for h, (s, q) in d.items()]]
                exp = [want, scores.tolist(), want, scores.tolist(),
                       [[s2c("h 1"), want, scores.tolist()], [s2c("second"), want, scores.tolist()]]]
            else:
                import biotite.sequence.io.genbank as gb

                f = gb.GenBankFile()
                gb.set_locus(f, "x", len(seq))
                gb.set_sequence(f, seq, 7)
                t = io.StringIO()
                f.write(t)
                g = gb.GenBankFile.read(io.StringIO(t.getvalue()))
                got = [_seq_val(gb.get_sequence(g, "gp" if x[0] == "prot" else "gb"))]
                exp = [want]
        except Exception as e:  # noqa: BLE001
            got, exp = ["raised", _exc(e)], [want]
        if got != exp:
            report(exp, got, "converter")
    elif kind == "general":
        import shutil
        import tempfile

        import biotite.sequence.io as sio
        from harness.tlabind.tlc import SCRATCH

        suffix, plural, seqs = c[1]
        os.makedirs(SCRATCH, exist_ok=True)
        d = tempfile.mkdtemp(prefix="c12gen-", dir=SCRATCH)
        try:
            path = os.path.join(d, "x." + suffix)
            try:
                if plural:
                    sio.save_sequences(path, {c2s(h): _seq_obj(x) for h, x in seqs})
                    got = [[s2c(h), _seq_val(s)] for h, s in sio.load_sequences(path).items()]
                else:
                    sio.save_sequence(path, _seq_obj(seqs[0][1]))
                    got = [[seqs[0][0], _seq_val(sio.load_sequence(path))]]
            except Exception as e:  # noqa: BLE001
                got = ["Rejected"]
                cnt["general_exc"] = _exc(e)
        finally:
            shutil.rmtree(d, ignore_errors=True)
        if got != r["want"]:
            report(r["want"], got, "general")
    else:
        raise KeyError(kind)
    return mm


def norm_gfeat_real(feat):
    k, ls, q = norm_feat_real(feat)
    return (k, tuple(x[:3] for x in ls), q)


def norm_gfeat_spec(v):
    key, locs, qual = v
    return (tuple(key), tuple(sorted((int(d["first"]), int(d["last"]), d["strand"]) for d in locs)),
            tuple(sorted((tuple(k), None if len(o) == 0 else tuple(o[0])) for k, o in qual)))


def case_gffcodec(c, r, cnt):
    import biotite.sequence.io.gff as gff
    from biotite.sequence.annotation import Annotation, Feature

    kind = c[0]
    mm = []
    if kind == "entry":
        e = c[1]
        f = gff.GFFFile()
        _f2, oc, _out = apply_real(Gff, f, "append", [e], {})
        p = Gff.project(f, {})
        if r["oc"] == "ok":
            want = [r["want"]]
            ok = oc == "ok" and p["view"] == want and p["reread"]["oc"] == "ok" and p["reread"]["view"] == want
        else:
            want = []
            # refused by the specification: refused by the code, or accepted consistently
            ok = (oc == "Rejected" and p["view"] == [] and p["reread"]["view"] == []) or \
                 (oc == "ok" and len(p["view"]) == 1 and p["reread"]["view"] == p["view"] and "C12-gff-hash-seqid" in r["kb"])
        if not ok:
            mm.append({"kind": "case", "spec": "GffCodec", "case": c, "kb": r["kb"],
                       "expected": {"oc": r["oc"], "view": want},
                       "model_back": {"oc": r["oc"], "view": [r["back"]] if r["oc"] == "ok" else []},
                       "observed": {"oc": oc, "view": p["view"], "reread": p["reread"]}, "row": r})
        if r["oc"] == "ok" and oc == "ok":
            _text(cnt, "GffCodec.entry", p["lines"][1:] == r["text"])
    elif kind == "annot":
        feats = []
        for d in c[1]:
            q = {c2s(k): (None if len(v) == 0 else c2s(v[0])) for k, v in d["qual"]}
            feats.append(Feature(c2s(d["key"]), [mk_loc(x) for x in d["locs"]], q))
        f = gff.GFFFile()
        try:
            gff.set_annotation(f, Annotation(feats))
            t = io.StringIO()
            f.write(t)
            g = gff.GFFFile.read(io.StringIO(t.getvalue()))
            got = {norm_gfeat_real(x) for x in gff.get_annotation(g)}
            oc = "ok"
        except Exception as ex:  # noqa: BLE001
            oc, got = "Rejected", set()
            cnt["gff_annot_exc"] = _exc(ex)
        want = {norm_gfeat_spec(v) for v in r["want"]}
        if oc != r["oc"] or (oc == "ok" and got != want):
            mm.append({"kind": "case", "spec": "GffCodec", "case": c, "kb": r["kb"],
                       "expected": {"oc": r["oc"], "feats": sorted(map(repr, want))},
                       "model_back": {"oc": r["oc"], "feats": sorted(map(repr, {norm_gfeat_spec(v) for v in r["back"]}))},
                       "observed": {"oc": oc, "feats": sorted(map(repr, got))}, "row": r})
    else:
        raise KeyError(kind)
    return mm


CASE_HANDLERS = {"GbCodec": case_gbcodec, "SeqCodec": case_seqcodec, "GffCodec": case_gffcodec}


def exec_cases(item):
    """item = {"spec": module, "states": [raw TLC state texts]}; every state is one case."""
    from harness.tlabind.pool import progress
    from harness.tlabind.tlaval import parse_state, to_py

    h = CASE_HANDLERS[item["spec"]]
    cnt = {"text_same": 0, "text_diff": 0, "ref_ok": 0, "ref_fail": 0, "ref_fail_examples": [], "cases": 0,
           "kinds": {}, "text_diff_kinds": {}}
    mm = []
    for txt in item["states"]:
        st = {k: to_py(v) for k, v in parse_state(txt).items()}
        c, r = st["c"], st["r"]
        progress({"spec": item["spec"], "case": c})
        cnt["cases"] += 1
        cnt["kinds"][c[0]] = cnt["kinds"].get(c[0], 0) + 1
        mm += h(c, r, cnt)
    return dict(cnt, mismatch=mm)


# --------------------------------------------------------------------------- orchestration
MACHINES = [  # (fmt, module, quick cfg, thorough cfg)
    ("fasta", "Fasta", "MC_fasta.cfg", "MC_fasta_thorough.cfg"),
    ("fastq", "Fastq", "MC_fastq.cfg", "MC_fastq_thorough.cfg"),
    ("gb", "GbFile", "MC_gbfile.cfg", "MC_gbfile_thorough.cfg"),
    ("gff", "Gff", "MC_gff.cfg", "MC_gff_thorough.cfg"),
]
CODECS = [  # (module, quick cfg, thorough cfg)
    ("SeqCodec", "MC_seqcodec.cfg", "MC_seqcodec_thorough.cfg"),
    ("GbCodec", "MC_gbcodec.cfg", "MC_gbcodec_thorough.cfg"),
    ("GffCodec", "MC_gffcodec.cfg", "MC_gffcodec_thorough.cfg"),
]
NEED_OPS = {
    "fasta": {"set", "del", "get"},
    "fastq": {"set", "del", "get"},
    "gb": {"insert", "append", "setitem", "delitem", "getitem", "set_field", "indices"},
    "gff": {"append", "insert", "setitem", "delitem", "getitem", "directive", "read"},
}


def _state_json(fmt, st):
    from harness.tlabind.tlaval import to_py

    d = {"ideal": to_py(st["ideal"]), "oc": st["oc"], "out": to_py(st["out"]), "lines": to_py(st["lines"]),
         "cfg": {}}
    if fmt == "fasta":
        d["cfg"] = {"cpl": st["cpl"]}
    elif fmt == "fastq":
        d["cfg"] = {"cpl": st["cpl"], "off": st["off"]}
    if "alt" in st:
        d["alt"] = to_py(st["alt"])
    if fmt == "gff":
        d["dirs"] = to_py(st["dirs"])
    return d


def _split_dump(path):
    out, cur = [], []
    with open(path) as fh:
        for line in fh:
            if line.startswith("State ") and line.rstrip().endswith(":"):
                if cur:
                    t = "".join(cur).strip()
                    if t:
                        out.append(t)
                cur = []
            else:
                cur.append(line)
    t = "".join(cur).strip()
    if t:
        out.append(t)
    return out


def _parallel(jobs):
    """Run thunks in threads (TLC runs are subprocesses); re-raise the first error."""
    import threading

    res, errs = [None] * len(jobs), []

    def work(k):
        try:
            res[k] = jobs[k]()
        except BaseException as e:  # noqa: BLE001
            errs.append(e)

    ths = [threading.Thread(target=work, args=(k,)) for k in range(len(jobs))]
    for t in ths:
        t.start()
    for t in ths:
        t.join()
    if errs:
        raise errs[0]
    return res


def run(ctx):
    from harness.tlabind import dot, pool, tlc
    from harness.tlabind.core import Vacuity
    from harness.tlabind.tlaval import to_py

    quick = ctx.quick
    ctx.assumptions += [
        "A2 (Dom_Header / Dom_Ident / Dom_Col): headers, identifiers, seqid and source are stripped strings without line breaks (the writers strip them; the formats cannot carry more)",
        "Dom_SeqStr / Dom_QSeq: sequence strings are letters, '*', '-'; FASTQ sequences are non-empty",
        "Dom_Score: score + offset is a printable non-blank ASCII code (33..126); offsets 33 and 64",
        "Dom_Field: GenBank field/subfield names are words of <= 12 / <= 10 characters, a field has >= 1 content line, FEATURES/ORIGIN content lines are indented",
        "Dom_Loc: first <= last, at most one of UNK_LOC / BETWEEN and only with first < last, no MISS_LEFT/MISS_RIGHT (GenBank cannot express them); GFF3 expresses no defect at all",
        "Dom_Feature: feature keys <= 15 characters, qualifier keys are words, qualifier values printable ASCII without the double quote",
        "Dom_Origin: non-empty sequence, sequence start >= 1, positions < 10^8 (9 columns)",
        "Dom_GffAnnot: features with several locations carry an ID, IDs are unique, no value-less qualifier (GFF3 has none); Dom_Type: the type column is a word",
        "Dom_AutoDetect: get_sequence(seq_type=None) is only checked on strings whose type guess is determined; protein sequences made of nucleotide letters are read with seq_type",
        "Dom_Index: list indices -len..len-1 (insert: ..len); indices below -len are expected to be refused (known finding for GenBankFile)",
        "characters outside the modelled classes behave like a letter; ASCII only",
        "trusted: TLC, the TLA+ value parser, the projections (items()/indexing of the re-read file, Feature/Location attributes), io.StringIO",
    ]
    d = tlc.scratch_dir("c12")

    # ---- S1: all model-checking runs, in parallel (each TLC is its own process) ---------
    dots = {fmt: os.path.join(d, fmt + ".dot") for fmt, *_ in MACHINES}
    dumps = {m: os.path.join(d, m) for m, *_ in CODECS}
    jobs = []
    for fmt, mod, qc, tc in MACHINES:
        jobs.append(lambda fmt=fmt, mod=mod, cfg=(qc if quick else tc): ctx.tlc(
            mod, cfg, stage="S1", dump_dot=dots[fmt], workers=1, timeout=2400, count=False))
    for mod, qc, tc in CODECS:
        jobs.append(lambda mod=mod, cfg=(qc if quick else tc): ctx.tlc(
            mod, cfg, stage="S1", dump=dumps[mod], workers=2, timeout=2400, count=False))
    for res in _parallel(jobs):
        ctx.states += res.distinct
        ctx.transitions += res.generated
    ctx.exhaustive = True

    # ---- S2a: every transition of the four state graphs -------------------------------
    graph = {}
    items = []
    limit = 6000 if quick else 40000      # paths per machine
    for fmt, mod, _qc, _tc in MACHINES:
        g = dot.load(dots[fmt])
        if not g.edges:
            raise RuntimeError(f"{mod}: empty state graph")
        labels, lab_ix, ops_seen = [], {}, {}
        for (_s, lab, _d) in g.edges:
            if lab not in lab_ix:
                _name, args = dot.parse_label(lab)
                cc = to_py(args[0])
                if fmt == "fastq":
                    cc = cc[1:]
                lab_ix[lab] = len(labels)
                labels.append(cc)
            op = labels[lab_ix[lab]][0]
            ops_seen[op] = ops_seen.get(op, 0) + 1
        missing = NEED_OPS[fmt] - set(ops_seen)
        if missing:
            raise Vacuity(f"{mod}: operations never taken in the state graph: {sorted(missing)}")
        ids = {nid: k for k, nid in enumerate(g.state_text)}
        states = [None] * len(ids)
        ocs = {}
        for nid, k in ids.items():
            states[k] = _state_json(fmt, g.state(nid))
            ocs[states[k]["oc"]] = ocs.get(states[k]["oc"], 0) + 1
        if not {"ok", "Rejected"} <= set(ocs):
            raise Vacuity(f"{mod}: outcomes not all reached: {ocs}")
        paths, covered = dot.covering_paths(g, max_len=14, limit=limit, rng=ctx.rng)
        graph[fmt] = {"states": states, "labels": labels}
        for root, steps in paths:
            items.append({"fmt": fmt, "init": ids[root],
                          "steps": [[lab_ix[lab], ids[dst]] for lab, dst in steps]})
        ctx.cov.setdefault("machines", {})[fmt] = {
            "states": len(states), "transitions": len(g.edges), "transitions_covered": covered,
            "paths": len(paths), "transitions_per_op": ops_seen, "states_per_outcome": ocs}
        ctx.log(f"S2 {fmt}: {len(paths)} paths cover {covered}/{len(g.edges)} transitions")
        for root, stp in paths[:1]:
            ctx.sample({"s2_path": fmt, "calls": [labels[lab_ix[lab]] for lab, _ in stp][:4]})
    gfile = os.path.join(d, "graph.json")
    with open(gfile, "w") as fh:
        json.dump(graph, fh)
    ctx.rng.shuffle(items)
    npaths = len(items)
    nontriv = sum(1 for it in items if len(it["steps"]) >= 2)
    items = [{"paths": items[i:i + 40]} for i in range(0, len(items), 40)]
    results = pool.run_isolated("harness.drivers.c12:exec_paths", items, env={"C12_GRAPH": gfile},
                                item_timeout=120)
    steps = text_same = text_diff = moved = 0
    for it, r in zip(items, results):
        if r is None:
            raise RuntimeError("S2: missing result")
        if "driver_error" in r:
            raise RuntimeError(f"S2 driver error: {r['driver_error']}\n{r.get('tb', '')}")
        if "crash" in r:
            ctx.mismatch({"stage": "S2", "kind": "crash", "signal": r["crash"], "progress": r.get("progress")})
            continue
        steps += r["steps"]
        text_same += r["text_same"]
        text_diff += r["text_diff"]
        moved += r["moved_stop"]
        for mm in r["mismatch"]:
            mm["stage"] = "S2"
            ctx.mismatch(mm)
    ctx.traces_validated += npaths
    ctx.evaluations += steps
    ctx.nontrivial += nontriv
    ctx.cov["s2_paths"] = npaths
    ctx.cov["s2_steps_executed"] = steps
    ctx.cov["grammar_conformance"] = {"machine_text_same": text_same, "machine_text_differs": text_diff}
    if moved:
        ctx.note(f"{moved} replaced FASTA/FASTQ entries did not land at the end (allowed; path stopped)")
    if text_diff:
        ctx.note(f"S2: the text of {text_diff} visited file states differs from the specified text (views agree; diagnostic only)")

    # ---- S2b: every case of the codec specifications ----------------------------------
    citems = []
    for mod, _qc, _tc in CODECS:
        path = dumps[mod] + ".dump" if os.path.exists(dumps[mod] + ".dump") else dumps[mod]
        sts = sorted(_split_dump(path))       # TLC's dump order depends on worker scheduling
        if not sts:
            raise RuntimeError(f"{mod}: empty dump")
        k = 60
        citems += [{"spec": mod, "states": sts[i:i + k]} for i in range(0, len(sts), k)]
        ctx.cov.setdefault("codec_cases", {})[mod] = len(sts)
    cres = pool.run_isolated("harness.drivers.c12:exec_cases", citems, item_timeout=120)
    kinds, gc = {}, {"text_same": 0, "text_diff": 0, "ref_ok": 0, "ref_fail": 0}
    examples = []
    tdk = {}
    ncases = 0
    for it, r in zip(citems, cres):
        if r is None:
            raise RuntimeError("S2 codec: missing result")
        if "driver_error" in r:
            raise RuntimeError(f"S2 codec driver error: {r['driver_error']}\n{r.get('tb', '')}")
        if "crash" in r:
            ctx.mismatch({"stage": "S2", "kind": "crash", "signal": r["crash"], "progress": r.get("progress"),
                          "spec": it["spec"]})
            continue
        ncases += r["cases"]
        for kk, v in r["kinds"].items():
            kinds[it["spec"] + "." + kk] = kinds.get(it["spec"] + "." + kk, 0) + v
        for kk in gc:
            gc[kk] += r[kk]
        examples += r["ref_fail_examples"]
        for kk, v in r["text_diff_kinds"].items():
            tdk[kk] = tdk.get(kk, 0) + v
        for mm in r["mismatch"]:
            mm["stage"] = "S2"
            ctx.mismatch(mm)
    ctx.cov["codec_cases_per_kind"] = kinds
    ctx.cov["grammar_conformance"].update(
        {"codec_text_same": gc["text_same"], "codec_text_differs": gc["text_diff"],
         "reference_encodings_read_ok": gc["ref_ok"], "reference_encodings_read_wrong": gc["ref_fail"]})
    if tdk:
        ctx.note(f"S2: written text differs from the specified text (round trips agree; diagnostic only): {tdk}")
    if gc["ref_fail"]:
        ctx.note(f"{gc['ref_fail']} grammar-allowed location strings are not read back as their location "
                 f"(diagnostic, e.g. {examples[:3]})")
    need = {"SeqCodec.fastq_rt", "SeqCodec.fasta_rt", "SeqCodec.conv", "SeqCodec.general", "GbCodec.loc",
            "GbCodec.feat", "GbCodec.annot", "GbCodec.origin", "GffCodec.entry", "GffCodec.annot"}
    if need - set(kinds):
        raise Vacuity(f"codec case families never executed: {sorted(need - set(kinds))}")
    ctx.traces_validated += ncases
    ctx.evaluations += ncases
    ctx.nontrivial += ncases
    ctx.cov["rule"] = ("non-trivial = replayed path with >= 2 calls, codec case (every case writes and re-reads a "
                       "file), recorded trace with >= 2 accepted edits")
    ctx.sample({"s2_case": citems[0]["spec"], "state": citems[0]["states"][0][:300]})

    # ---- S3 -----------------------------------------------------------------------------
    # A disagreement found by S2 must be reported as such: if the recording stage cannot
    # complete on a tree that already violates the property (generators starved of accepted
    # calls, unparsable text), that is a consequence, not a machinery failure.
    try:
        stage_s3(ctx)
    except (RuntimeError, Vacuity, tlc.TLCFailure) as e:
        if not ctx.violations:
            raise
        ctx.note(f"S3 not completed after S2 violations: {str(e)[:300]}")


# --------------------------------------------------------------------------- S3: recording
_WORDS = ["gene", "CDS", "exon", "mRNA", "misc_feature", "source", "regulatory", "rep_origin", "5'UTR", "D-loop"]
_QKEYS = ["note", "gene", "product", "db_xref", "pseudo", "codon_start", "locus_tag", "EC_number", "partial"]
_NUC, _AMB, _PROT = "ACGT", "ACGTRYWSMKHBVDN", "ACDEFGHIKLMNPQRSTVWYBZX*"


def _rtext(rng, lo, hi, alphabet):
    return "".join(rng.choice(alphabet) for _ in range(rng.randint(lo, hi)))


_PRINT = "".join(chr(c) for c in range(32, 127))


def _rheader(rng):
    """Dom_Header: stripped, no line break (may be empty, may contain '>', '@', ';', blanks)"""
    return _rtext(rng, 0, 14, _PRINT + "  >@;+").strip()


def _hist_event(fmt, op, a, oc, out, p):
    rr = p["reread"]
    vok = not any(isinstance(x, str) for x in p["view"]) and "bad" not in json.dumps(p["view"])[:0]
    view = p["view"] if vok else []
    if fmt == "gff" and any(x == ["bad"] or (isinstance(x, list) and len(x) == 9 and x[5] and x[5][0] == "inexact")
                            for x in p["view"]):
        vok, view = False, []
    rview = rr["view"] if rr["oc"] == "ok" and not any(isinstance(x, str) or x == ["bad"] for x in rr["view"]) else []
    it = p.get("iter", [])
    iok = not any(isinstance(x, str) for x in it)
    return {"k": "hist", "fmt": fmt, "op": op, "a": a, "oc": oc, "vok": vok, "view": view,
            "rr": rr["oc"] if (rr["oc"] != "ok" or rview == rr["view"]) else "Rejected", "rview": rview,
            "iok": iok, "iter": it if iok else [], "out": out if oc == "ok" else [],
            "dirs": p.get("dirs", []) if p.get("dirs") != ["raised"] else [],
            "rdirs": rr.get("dirs", []), "exc": out[1] if oc != "ok" and len(out) == 2 else ""}


def _gen_call(fmt, rng, view, cfg):
    """Choose a call for the current list/mapping view. Returns (op, a, in_domain): in_domain is
    the spec's Dom_Index / Dom_Col predicate; calls outside it are tried on a copy."""
    n = len(view)
    if fmt == "fasta":
        keys = [c2s(e[0]) for e in view]
        op = rng.choice(["set", "set", "set", "set", "del", "get", "get", "reload"])
        if op == "set":
            h = rng.choice(keys) if keys and rng.random() < 0.3 else _rheader(rng)
            return "set", [s2c(h), s2c(_rtext(rng, 0, rng.choice([5, 30, 200]), rng.choice([_NUC, _AMB, _PROT + "-"])))], True
        if op == "reload":
            return "reload", [], True
        h = rng.choice(keys) if keys and rng.random() < 0.8 else _rheader(rng)
        return op, [s2c(h)], True
    if fmt == "fastq":
        keys = [c2s(e[0]) for e in view]
        off = cfg["off"]
        op = rng.choice(["set", "set", "set", "set", "del", "get", "get", "reload"])
        if op == "set":
            h = rng.choice(keys) if keys and rng.random() < 0.3 else _rheader(rng)
            m = rng.randint(1, rng.choice([4, 20, 120]))
            lo, hi = max(33 - off, -5), 126 - off
            special = [64 - off, 43 - off] if off == 33 else [0]
            q = [rng.choice(special) if rng.random() < 0.4 else rng.randint(lo, hi) for _ in range(m)]
            if rng.random() < 0.07:
                q = q[:-1] if rng.random() < 0.5 else q + [0]        # documented refusal
            return "set", [s2c(h), s2c(_rtext(rng, m, m, _AMB)), q], True
        if op == "reload":
            return "reload", [], True
        h = rng.choice(keys) if keys and rng.random() < 0.8 else _rheader(rng)
        return op, [s2c(h)], True
    if fmt == "gb":
        def rfield(raw=None):
            r = rng.random()
            if raw is True or (raw is None and r < 0.12):
                nm = rng.choice(["FEATURES", "features", "ORIGIN"])
                content = [" " * rng.randint(1, 21) + _rtext(rng, 0, 30, _PRINT) for _ in range(rng.randint(0, 4))]
                return [s2c(nm), ls2c(content), []]
            nm = _rtext(rng, 1, 12, "ABCDEFGHIJKLMNOPQRSTUVWXYZabcdefghij_0123456789")
            content = [_rtext(rng, 0, 40, _PRINT) for _ in range(rng.randint(1, 4))]
            sub, seen = [], set()
            for _ in range(rng.choice([0, 0, 1, 2, 3])):
                sn = _rtext(rng, 1, 10, "ABCDEFGHIJKLMNOPQRSTUVWXYZabcxyz_")
                if sn.upper() in seen:
                    continue
                seen.add(sn.upper())
                sub.append([s2c(sn), ls2c([_rtext(rng, 0, 40, _PRINT) for _ in range(rng.randint(1, 3))])])
            return [s2c(nm), ls2c(content), sub]

        def ridx(hi):
            if hi < -n:
                return rng.choice([0, -1, 1])
            return rng.randint(-n, hi) if rng.random() < 0.85 else rng.choice([-n - 1, -n - 2, hi + 1, hi + 3])

        op = rng.choice(["insert", "insert", "append", "append", "setitem", "delitem", "getitem", "set_field",
                         "set_field", "indices", "reload"])
        if op == "insert":
            i = ridx(n)
            return op, [i, rfield()], -n <= i <= n
        if op == "append":
            return op, [rfield()], True
        if op == "set_field":
            if view and rng.random() < 0.5:
                nm = rng.choice(view)[0]
                f = rfield(raw=c2s(nm).upper() in ("FEATURES", "ORIGIN"))
                f[0] = nm
            else:
                f = rfield()
            return op, [f], True
        if op == "setitem":
            i = ridx(n - 1)
            return op, [i, rfield()], -n <= i < n
        if op in ("delitem", "getitem"):
            i = ridx(n - 1)
            return op, [i], -n <= i < n
        if op == "indices":
            return op, [rng.choice(view)[0] if view and rng.random() < 0.7 else s2c("LOCUS")], True
        return "reload", [], True
    if fmt == "gff":
        special = "%;=&,\t\n >#\x0b"

        def rcol():
            while True:
                s = _rtext(rng, 1, 10, _PRINT + special * 2).strip()
                if s and s[0] != ">" and (s[0] != "#" or rng.random() < 0.3):
                    return s

        def rentry():
            attrs, seen = [], set()
            for _ in range(rng.choice([0, 1, 1, 2, 3])):
                k = _rtext(rng, 0, 8, _PRINT + special * 3)
                if k in seen:
                    continue
                seen.add(k)
                attrs.append([s2c(k), s2c(_rtext(rng, 0, 14, _PRINT + special * 3))])
            if attrs and attrs[-1][1] and attrs[-1][1][-1] == 32:
                attrs[-1][1].append(120)      # histories stay clear of KB_GffTrailingBlank
            return [s2c(rcol()), s2c(rcol()), s2c(rng.choice(_WORDS).replace("'", "_")), rng.randint(-50, 100000),
                    rng.randint(-50, 100000), rng.choice([[], [rng.randint(0, 400)]]), rng.choice(["+", "-", "."]),
                    rng.choice([[], [rng.randint(0, 2)]]), attrs]

        def ridx(hi):
            if hi < -n:
                return rng.choice([0, -1, 1])
            return rng.randint(-n, hi) if rng.random() < 0.85 else rng.choice([-n - 1, -n - 2, hi + 1, hi + 3])

        op = rng.choice(["append", "append", "insert", "insert", "setitem", "delitem", "getitem", "directive", "reload"])
        if op == "append":
            e = rentry()
            return op, [e], c2s(e[0])[0] != "#"
        if op == "insert":
            i, e = ridx(n), rentry()
            return op, [i, e], -n <= i <= n and c2s(e[0])[0] != "#"
        if op == "setitem":
            i, e = ridx(n - 1), rentry()
            return op, [i, e], -n <= i < n and c2s(e[0])[0] != "#"
        if op in ("delitem", "getitem"):
            i = ridx(n - 1)
            return op, [i], -n <= i < n
        if op == "directive":
            nm = rng.choice(["sequence-region", "species", "FASTA", "x"])
            return op, [s2c(nm), ls2c([_rtext(rng, 1, 6, "abc123") for _ in range(rng.randint(0, 3))])], True
        return "reload", [], True
    raise KeyError(fmt)


def _reload(ad, f, cfg):
    t = io.StringIO()
    f.write(t)
    return ad.apply(ad.new(cfg), "read", [ls2c(t.getvalue().splitlines())] +
                    ([cfg["cpl"]] if ad is Fasta else [cfg["off"], cfg["cpl"]] if ad is Fastq else []), cfg)[0]


def gen_history(rng, fmt, length):
    import copy

    ad = ADAPTERS[fmt]
    if fmt == "fasta":
        cfg = {"cpl": rng.choice([1, 2, 7, 60, 80])}
        newa = [cfg["cpl"]]
    elif fmt == "fastq":
        cfg = {"off": rng.choice([33, 64]), "cpl": rng.choice([0, 0, 1, 3, 50])}
        newa = [cfg["off"], cfg["cpl"]]
    else:
        cfg, newa = {}, []
    f = ad.new(cfg)
    events = [_hist_event(fmt, "new", newa, "ok", [], safe_project(ad, f, cfg))]
    for _ in range(length):
        view = events[-1]["view"] if events[-1]["vok"] and events[-1].get("_kept", True) else _last_kept_view(events)
        op, a, in_dom = _gen_call(fmt, rng, view, cfg)
        target = f if in_dom else copy.deepcopy(f)
        if op == "reload":
            try:
                with warnings.catch_warnings():
                    warnings.simplefilter("ignore")
                    f2 = _reload(ad, target, cfg)
                oc, out = "ok", []
            except Exception as e:  # noqa: BLE001
                f2, oc, out = target, "Rejected", ["exc", _exc(e)]
        else:
            f2, oc, out = apply_real(ad, target, op, a, cfg)
        ev = _hist_event(fmt, op, a, oc, out, safe_project(ad, f2, cfg))
        ev["_kept"] = in_dom
        ev["on_copy"] = not in_dom
        events.append(ev)
        if in_dom:
            f = f2
    for e in events:
        e.pop("_kept", None)
    return events


def _last_kept_view(events):
    for e in reversed(events):
        if e.get("_kept", True) and e["vok"]:
            return e["view"]
    return []


def _rloc(rng, kb_ok):
    first = rng.randint(1, 5000) if rng.random() < 0.9 else rng.randint(-30, 0)
    single = rng.random() < 0.25
    last = first if single else first + rng.randint(1, 3000)
    d = [x for x in ("BL", "BR") if rng.random() < 0.25]
    if not single and rng.random() < 0.3:
        d.append(rng.choice(["UNK", "BTW"]))
    if single and "BR" in d and not kb_ok:
        d.remove("BR")
    return [first, last, rng.choice(["+", "+", "-"]), sorted(d)]


def _rfeature(rng, kb_ok):
    locs, seen = [], set()
    for _ in range(rng.choice([1, 1, 1, 2, 3, 4])):
        x = _rloc(rng, kb_ok)
        if (x[0], x[1], x[2], tuple(x[3])) not in seen:
            seen.add((x[0], x[1], x[2], tuple(x[3])))
            locs.append(x)
    qual = []
    for k in rng.sample(_QKEYS, rng.choice([0, 1, 2, 3, 4])):
        r = rng.random()
        if r < 0.2:
            v = []
        elif r < 0.3:
            v = [s2c("\n".join(_rtext(rng, 0, 12, _PRINT.replace('"', "")) for _ in range(rng.randint(2, 3))))]
        else:
            v = [s2c(_rtext(rng, 0, 25, _PRINT.replace('"', "") + "  //=="))]
        qual.append([s2c(k), v])
    if qual and all(v == [] for _, v in qual) and not kb_ok:
        qual.append([s2c("label"), [s2c("x")]])
    return [s2c(rng.choice(_WORDS)), locs, qual]


def _feat_json(nf):
    k, ls, q = nf
    return [list(k), [[x[0], x[1], x[2], list(x[3])] for x in ls], [[list(a), [] if b is None else [list(b)]] for a, b in q]]


def gen_pure(rng, kind):
    import numpy as np

    if kind == "gbfeat":
        kb_ok = rng.random() < 0.06
        n = rng.choice([1, 1, 2, 3, 5]) if not (kb_ok and rng.random() < 0.2) else 0
        feats, seen = [], set()
        for _ in range(n):
            fj = _rfeature(rng, kb_ok)
            key = json.dumps(fj, sort_keys=True)
            if key not in seen:
                seen.add(key)
                feats.append(fj)
        oc, got, lines, exc = gb_annotation_roundtrip([mk_feature(k, [dict(first=x[0], last=x[1], strand=x[2], defect=x[3]) for x in ls], q)
                                                       for k, ls, q in feats])
        return {"k": "pure", "fmt": "gbfeat", "a": feats, "oc": oc, "got": [_feat_json(x) for x in sorted(got, key=repr)],
                "text": ls2c(lines), "exc": exc or ""}
    if kind == "origin":
        import biotite.sequence.io.genbank as gb
        from biotite.sequence.annotation import AnnotatedSequence, Annotation, Feature, Location

        cls, alph = rng.choice([("nuc", _NUC), ("nuc", _AMB), ("prot", _PROT)])
        n = rng.choice([rng.randint(1, 25), rng.randint(55, 65), rng.randint(115, 125), rng.randint(1, 400)])
        syms = s2c(_rtext(rng, n, n, alph))
        start = rng.choice([1, 1, rng.randint(1, 200), rng.randint(1, 2000000)])
        seq = _seq_obj([cls, syms])
        f = gb.GenBankFile()
        ann = Annotation([Feature("source", [Location(start, start + n - 1)], {})])
        gb.set_annotated_sequence(f, AnnotatedSequence(ann, seq, sequence_start=start))
        t = io.StringIO()
        f.write(t)
        g = gb.GenBankFile.read(io.StringIO(t.getvalue()))
        try:
            r1 = gb.get_annotated_sequence(g, format="gp" if cls == "prot" else "gb")
            oc, got, exc = "ok", [s2c(str(r1.sequence)), int(r1.sequence_start)], ""
        except Exception as e:  # noqa: BLE001
            oc, got, exc = "Rejected", [], _exc(e)
        return {"k": "pure", "fmt": "origin", "a": [syms, start], "oc": oc, "got": got,
                "text": ls2c(g.get_fields("ORIGIN")[0][0]), "exc": exc}
    if kind == "gffannot":
        import biotite.sequence.io.gff as gff
        from biotite.sequence.annotation import Annotation, Feature

        special = "%;=&,\t\n >#"
        feats, ids = [], set()
        for _ in range(rng.choice([1, 2, 3, 4])):
            locs, seen = [], set()
            for _ in range(rng.choice([1, 1, 2, 3])):
                first = rng.randint(1, 9000)
                x = [first, first + rng.choice([0, rng.randint(1, 500)]), rng.choice(["+", "-"])]
                if tuple(x) not in seen:
                    seen.add(tuple(x))
                    locs.append(x)
            qual = []
            if len(locs) > 1 or rng.random() < 0.4:
                if not (len(locs) > 1 and rng.random() < 0.05):          # documented refusal when missing
                    i = _rtext(rng, 1, 6, "abcXYZ019_.:")
                    if i in ids:
                        i += "_%d" % len(ids)
                    ids.add(i)
                    qual.append([s2c("ID"), [s2c(i)]])
            for k in rng.sample(_QKEYS, rng.choice([0, 1, 2])):
                qual.append([s2c(k), [s2c(_rtext(rng, 0, 16, _PRINT + special * 3))]])
            if qual and qual[-1][1][0] and qual[-1][1][0][-1] == 32 and rng.random() < 0.9:
                qual[-1][1][0].append(46)
            feats.append([s2c(rng.choice(_WORDS).replace("'", "_")), locs, qual])
        uniq, seen = [], set()
        for fj in feats:
            key = json.dumps(fj, sort_keys=True)
            if key not in seen:
                seen.add(key)
                uniq.append(fj)
        fobjs = [Feature(c2s(k), [mk_loc(dict(first=x[0], last=x[1], strand=x[2], defect=[])) for x in ls],
                         {c2s(a): c2s(b[0]) for a, b in q}) for k, ls, q in uniq]
        f = gff.GFFFile()
        try:
            gff.set_annotation(f, Annotation(fobjs), seqid=rng.choice([None, "chr1"]), source=rng.choice([None, "src x"]))
            t = io.StringIO()
            f.write(t)
            g = gff.GFFFile.read(io.StringIO(t.getvalue()))
            got = sorted(norm_gfeat_real(x) for x in gff.get_annotation(g))
            oc, exc = "ok", ""
        except Exception as e:  # noqa: BLE001
            oc, got, exc = "Rejected", [], _exc(e)
        return {"k": "pure", "fmt": "gffannot", "a": uniq, "oc": oc,
                "got": [[list(k), [list(x) for x in ls], [[list(a), [list(b)]] for a, b in q]] for k, ls, q in got],
                "text": [], "exc": exc}
    if kind in ("fastq_rt", "fasta_rt"):
        n = rng.choice([1, 2, 3, 5])
        heads = []
        while len(heads) < n:
            h = _rheader(rng)
            if h not in heads:
                heads.append(h)
        if kind == "fasta_rt":
            from biotite.sequence.io.fasta import FastaFile

            cpl = rng.choice([1, 3, 10, 60, 80, 200])
            items = [[s2c(h), s2c(_rtext(rng, 0, rng.choice([3, 50, 300]), _PROT + "-"))] for h in heads]
            t = io.StringIO()
            FastaFile.write_iter(t, [(c2s(h), c2s(s)) for h, s in items], cpl)
            txt = t.getvalue()
            try:
                got = [[[s2c(h), s2c(s)] for h, s in FastaFile.read_iter(io.StringIO(txt))],
                       Fasta.view(FastaFile.read(io.StringIO(txt), cpl))]
                oc, exc = "ok", ""
            except Exception as e:  # noqa: BLE001
                oc, got, exc = "Rejected", [], _exc(e)
            return {"k": "pure", "fmt": kind, "a": [items, cpl], "oc": oc, "got": got, "text": ls2c(txt.splitlines()), "exc": exc}
        from biotite.sequence.io.fastq import FastqFile

        off = rng.choice([33, 64])
        cpl = rng.choice([0, 0, 1, 2, 5, 40])
        items = []
        for h in heads:
            m = rng.randint(1, rng.choice([3, 12, 150]))
            special = [64 - off, 43 - off] if off == 33 else [0]
            q = [rng.choice(special) if rng.random() < 0.5 else rng.randint(max(33 - off, -5), 126 - off) for _ in range(m)]
            items.append([s2c(h), [s2c(_rtext(rng, m, m, _AMB)), q]])
        t = io.StringIO()
        FastqFile.write_iter(t, _fq_items(items), off, None if cpl == 0 else cpl)
        txt = t.getvalue()
        try:
            got = [[[s2c(h), Fastq.val(v)] for h, v in FastqFile.read_iter(io.StringIO(txt), off)],
                   Fastq.view(FastqFile.read(io.StringIO(txt), off, None if cpl == 0 else cpl))]
            oc, exc = "ok", ""
        except Exception as e:  # noqa: BLE001
            oc, got, exc = "Rejected", [], _exc(e)
        return {"k": "pure", "fmt": kind, "a": [items, off, cpl], "oc": oc, "got": got, "text": ls2c(txt.splitlines()), "exc": exc}
    raise KeyError(kind)


def gen_trace(item):
    from harness.tlabind.pool import progress

    rng = random.Random(item["seed"])
    progress({"s3": item})
    if item["what"] == "hist":
        return {"events": gen_history(rng, item["fmt"], item["length"])}
    return {"events": [gen_pure(rng, item["fmt"]) for _ in range(item["length"])]}


def stage_s3(ctx):
    from harness.tlabind import helpers, pool
    from harness.tlabind.core import Vacuity

    quick = ctx.quick
    nh, lh = (6, 22) if quick else (60, 40)
    np_, lp = (3, 14) if quick else (30, 30)
    titems = []
    for fmt in ("fasta", "fastq", "gb", "gff"):
        titems += [{"what": "hist", "fmt": fmt, "length": lh, "seed": ctx.rng.randrange(1 << 30)} for _ in range(nh)]
    for kind in ("gbfeat", "origin", "gffannot", "fastq_rt", "fasta_rt"):
        titems += [{"what": "pure", "fmt": kind, "length": lp, "seed": ctx.rng.randrange(1 << 30)} for _ in range(np_)]
    res = pool.run_isolated("harness.drivers.c12:gen_trace", titems, item_timeout=120)
    traces, meta = [], []
    for it, r in zip(titems, res):
        if r is None:
            raise RuntimeError("S3: missing result")
        if "driver_error" in r:
            raise RuntimeError(f"S3 driver error: {r['driver_error']}\n{r.get('tb', '')}")
        if "crash" in r:
            ctx.mismatch({"stage": "S3", "kind": "crash", "signal": r["crash"], "progress": r.get("progress"), "item": it})
            continue
        traces.append(r["events"])
        meta.append(it)
    mms = validate(ctx, traces)
    # vacuity: refusals and accepted edits both occur, every operation was recorded
    ops = {}
    for tr in traces:
        for e in tr:
            key = e["fmt"] + "." + (e.get("op") or "rt") + ("" if e["oc"] == "ok" else "!")
            ops[key] = ops.get(key, 0) + 1
    ctx.cov["s3_events_per_op"] = ops
    need = ["fasta.set", "fasta.del", "fasta.get", "fastq.set", "fastq.del", "gb.insert", "gb.setitem", "gb.delitem",
            "gb.set_field", "gff.append", "gff.insert", "gff.setitem", "gff.delitem", "gbfeat.rt", "origin.rt",
            "gffannot.rt", "fastq_rt.rt", "fasta_rt.rt"]
    missing = [k for k in need if k not in ops]
    if missing:
        raise Vacuity(f"S3 never recorded: {missing}")
    if not any(k.endswith("!") for k in ops):
        raise Vacuity("S3 recorded no refused call")

    # binding self-test: corrupted recordings must be rejected
    def corrupt(tr):
        for e in tr:
            if e["k"] == "hist" and e["oc"] == "ok" and e["vok"] and e["view"] and e["op"] not in ("new",):
                v = e["view"][0]
                if e["fmt"] in ("fasta", "fastq"):
                    v[0] = v[0] + [90]
                elif e["fmt"] == "gb":
                    v[1] = v[1] + [[90]]
                else:
                    v[3] = v[3] + 1
                return True
            if e["k"] == "pure" and e["oc"] == "ok" and e["fmt"] == "origin":
                e["got"][1] += 1
                return True
            if e["k"] == "pure" and e["oc"] == "ok" and e["fmt"] in ("fasta_rt", "fastq_rt") and e["got"][0]:
                e["got"][0][0][0] = e["got"][0][0][0] + [90]
                return True
        return False

    clean = [tr for k, tr in enumerate(traces) if (k + 1) not in {m[1] for m in mms}]
    pick = []
    for want in ("fasta", "fastq", "gb", "gff", "origin", "fastq_rt"):
        for tr in clean:
            if tr and tr[0]["fmt"] == want:
                pick.append(tr)
                break
    helpers.binding_selftest(ctx, pick, corrupt, max_traces=len(pick))


_KEEP = ("k", "fmt", "op", "a", "oc", "vok", "view", "rr", "rview", "iok", "iter", "out", "dirs", "rdirs", "got", "text")


def validate(ctx, traces):
    from harness.tlabind import tlc as T
    from harness.tlabind.tlaval import parse_value, to_py

    if not traces:
        return []
    d = T.scratch_dir("c12tr")
    tf = os.path.join(d, "traces.json")
    with open(tf, "w") as fh:
        json.dump([[{k: e[k] for k in _KEEP if k in e} for e in tr] for tr in traces], fh)
    res = ctx.tlc("Trace", "Trace.cfg", stage="S3", workers=1, env={"TRACE_FILE": tf}, timeout=2400)
    expect = sum(len(t) + 1 for t in traces)
    if res.distinct != expect:
        raise RuntimeError(f"C12 S3: trace validation visited {res.distinct} states, expected {expect}")
    mms = [to_py(parse_value(t)) for t in T.printed_values(res.out, "MISMATCH")]
    ood = T.printed_values(res.out, "OUTOFDOMAIN")
    if ood:
        raise RuntimeError(f"C12 S3: the generators left the specified domain: {ood[:3]}")
    gram = len(T.printed_values(res.out, "GRAMMAR"))
    gap = [to_py(parse_value(t)) for t in T.printed_values(res.out, "MODELGAP")]
    ctx.cov.setdefault("grammar_conformance", {})["s3_text_differs_from_specified"] = gram
    ctx.cov["s3_model_gaps"] = len(gap)
    if gram:
        ctx.note(f"S3: {gram} recorded texts differ from the text the specification writes / are not read back "
                 f"by the specification's reader (diagnostic only)")
    if gap:
        ctx.note(f"S3: implementation-shaped model and declarative view disagree on {len(gap)} recorded events "
                 f"(specification issue beyond the exhaustive bounds, e.g. trace {gap[0][1]} event {gap[0][2]})")
    nev = sum(len(t) for t in traces)
    ctx.traces_validated += len(traces)
    ctx.evaluations += nev
    ctx.cov["s3_traces"] = len(traces)
    ctx.cov["s3_events"] = nev
    ctx.nontrivial += sum(1 for t in traces if sum(1 for e in t if e["oc"] == "ok") >= 2)
    ctx.sample({"s3_event": {k: traces[0][1][k] for k in ("fmt", "op", "a", "oc") if k in traces[0][1]}})
    for m in mms:
        tid, idx, kb = m[1], m[2], m[3]
        e = traces[tid - 1][idx - 1]
        if m[4] == "hist":
            exp_oc, exp_view, alt, exp_out = m[5], m[6], m[7], m[8]
            ctx.mismatch({"stage": "S3", "kind": "event", "fmt": e["fmt"], "op": e["op"], "a": e["a"], "kb": kb,
                          "len_before": len(exp_view) if exp_oc != "ok" else None, "trace": tid, "event": idx,
                          "expected": {"oc": exp_oc, "view": exp_view, "alt": alt, "out": exp_out},
                          "observed": {"oc": e["oc"], "view": e["view"], "view_ok": e["vok"], "out": e["out"],
                                       "reread": {"oc": e["rr"], "view": e["rview"]}, "iter": e["iter"], "exc": e.get("exc")},
                          "history": [[x["op"], x["a"], "copy" if x.get("on_copy") else "ok"]
                                      for x in traces[tid - 1][:idx]]})
        else:
            want, back = m[5], m[6]
            rec = {"stage": "S3", "kind": "case", "case": [e["fmt"], e["a"]], "kb": kb, "trace": tid, "event": idx,
                   "exc": e.get("exc")}
            if e["fmt"] == "gbfeat":
                rec.update(spec="GbCodec", expected={"oc": "ok", "feats": _unnorm({norm_feat_spec(v) for v in want})},
                           model_back={"oc": back[0], "feats": _unnorm({norm_feat_spec(v) for v in back[1]})},
                           observed={"oc": e["oc"], "feats": _unnorm({norm_feat_spec([j[0], [dict(first=x[0], last=x[1], strand=x[2], defect=x[3]) for x in j[1]], j[2]]) for j in e["got"]})})
            elif e["fmt"] == "gffannot":
                rec.update(spec="GffCodec", expected={"oc": "ok", "feats": sorted(map(repr, {norm_gfeat_spec(v) for v in want}))},
                           model_back={"oc": back[0], "feats": sorted(map(repr, {norm_gfeat_spec(v) for v in back[1]}))},
                           observed={"oc": e["oc"], "feats": sorted(map(repr, {norm_gfeat_spec([j[0], [dict(first=x[0], last=x[1], strand=x[2]) for x in j[1]], j[2]]) for j in e["got"]}))})
            else:
                rec.update(spec="Trace." + e["fmt"], expected=want, model_back=back, observed={"oc": e["oc"], "got": e["got"]})
            ctx.mismatch(rec)
    return mms


# --------------------------------------------------------------------------- known findings
def _starts_hash(e):
    try:
        return c2s(e[0]).strip().startswith("#")
    except Exception:  # noqa: BLE001
        return False


def classify(mm):
    """Map a mismatch record to a finding id only when the operation, the argument predicate
    (evaluated by TLC: `kb`, or the same predicate on the call arguments for graph steps) and
    the observed failure all have the recorded shape."""
    kind = mm.get("kind")
    if kind in ("step", "event"):
        fmt, op, a = mm.get("fmt"), mm.get("op"), mm.get("a")
        exp, obs = mm.get("expected", {}), mm.get("observed", {})
        if exp.get("oc") != "Rejected":
            return None
        if kind == "event" and not mm.get("kb"):
            return None
        n = mm.get("len_before")
        if fmt == "gb" and op in ("insert", "setitem", "delitem", "getitem") and isinstance(n, int) \
                and isinstance(a[0], int) and a[0] < -n and obs.get("oc") in ("ok", "Rejected"):
            # not refused, or refused only after the object was modified
            return FIND_GBIDX
        if fmt == "gff" and op in ("append", "insert", "setitem") and _starts_hash(a[-1]) \
                and obs.get("oc") == "ok" and (obs.get("reread", {}).get("view") != obs.get("view")
                                               or obs.get("view") == exp.get("view")):
            # accepted: either listed by the live object only, or (after re-indexing) silently dropped
            return FIND_GFFHASH
        return None
    if kind == "case":
        kb = mm.get("kb") or []
        obs, back = mm.get("observed"), mm.get("model_back")
        spec = mm.get("spec")
        if spec == "GbCodec" and isinstance(obs, dict) and isinstance(back, dict):
            if obs.get("oc") == back.get("oc") and obs.get("feats") == back.get("feats"):
                for fid in (FIND_BR, FIND_VALUELESS, FIND_EMPTY):
                    if fid in kb:
                        return fid
            return None
        if spec == "SeqCodec":
            if FIND_GENERAL in kb and obs == back:
                return FIND_GENERAL
            return None
        if spec == "GffCodec" and isinstance(obs, dict):
            exp = mm.get("expected", {})
            if FIND_GFFBLANK in kb and obs.get("oc") == "ok":
                if "view" in obs and obs["view"] == back.get("view") and obs.get("reread", {}).get("view") == obs["view"]:
                    return FIND_GFFBLANK
                if "feats" in obs and obs["feats"] == back.get("feats"):
                    return FIND_GFFBLANK
            if FIND_GFFHASH in kb and exp.get("oc") == "Rejected" and obs.get("oc") == "ok" \
                    and len(obs.get("view", [])) == 1 and obs.get("reread", {}).get("view") == []:
                return FIND_GFFHASH
            return None
    return None


# --------------------------------------------------------------------------- replay
def replay(record):
    """Re-execute one stored mismatch against the current code (the expected values are the
    ones TLC computed when the record was written)."""
    kind = record.get("kind")
    if kind in ("step", "event"):
        import copy

        fmt = record["fmt"]
        ad = ADAPTERS[fmt]
        calls = record.get("path") or record.get("history")
        cfg = record.get("cfg")
        if cfg is None:     # recorded histories start with the constructor call
            a0 = calls[0][1]
            cfg = {"cpl": a0[0]} if fmt == "fasta" else {"off": a0[0], "cpl": a0[1]} if fmt == "fastq" else {}
        f = ad.new(cfg)
        last = None
        exp = record["expected"]
        for k, call in enumerate(calls):
            op, a = call[0], call[1]
            how = call[2] if len(call) > 2 else "ok"      # "ok": executed on the object itself
            if op == "new":
                continue
            final = k == len(calls) - 1
            on_copy = how != "ok" or (final and exp.get("oc") != "ok")
            target = copy.deepcopy(f) if on_copy else f
            if op == "reload":
                try:
                    f2, oc, out = _reload(ad, target, cfg), "ok", []
                except Exception as e:  # noqa: BLE001
                    f2, oc, out = target, "Rejected", ["exc", _exc(e)]
            else:
                f2, oc, out = apply_real(ad, target, op, a, cfg)
            p = safe_project(ad, f2, cfg)
            last = {"op": op, "a": a, "oc": oc, "out": out, "view": p["view"], "reread": p["reread"]}
            if not final and not on_copy:
                f = f2
        rr = last["reread"]
        if exp.get("oc") == "ok":
            bad = last["oc"] != "ok" or last["view"] != exp["view"] or rr["oc"] != "ok" or rr["view"] != exp["view"]
        else:
            alt = exp.get("alt") or []
            fine = (last["oc"] == "Rejected" and last["view"] == exp["view"] and rr.get("view") in (exp["view"],)) or \
                   (alt and last["oc"] == "ok" and last["view"] == alt[0] and rr.get("view") == alt[0])
            if fmt in ("fasta", "fastq") and exp["view"] == [] and last["oc"] == "Rejected" and last["view"] == []:
                fine = True
            bad = not fine
        return {"last": last, "expected": exp, "mismatch": bool(bad)}
    if kind == "case":
        spec = record.get("spec", "")
        case = record["case"]
        exp = record["expected"]
        if spec == "GbCodec" and case[0] in ("loc", "feat", "annot", "gbfeat"):
            if case[0] == "loc":
                feats = [mk_feature(s2c("gene"), case[1], [])]
            elif case[0] == "feat":
                feats = [mk_feature(s2c("gene"), case[1][0], case[1][1])]
            elif case[0] == "annot":
                feats = [mk_feature(d["key"], d["locs"], d["qual"]) for d in case[1]]
            else:
                feats = [mk_feature(k, [dict(first=x[0], last=x[1], strand=x[2], defect=x[3]) for x in ls], q)
                         for k, ls, q in case[1]]
            oc, got, lines, exc = gb_annotation_roundtrip(feats)
            obs = {"oc": oc, "feats": _unnorm(got), "exc": exc, "text": lines}
            return {"observed": obs, "expected": exp,
                    "mismatch": not (oc == exp["oc"] and _unnorm(got) == json.loads(json.dumps(exp["feats"])))}
        cnt = {"text_same": 0, "text_diff": 0, "ref_ok": 0, "ref_fail": 0, "ref_fail_examples": [], "cases": 0,
               "kinds": {}, "text_diff_kinds": {}}
        row = record.get("row")
        if row is not None and spec in CASE_HANDLERS:
            mm = CASE_HANDLERS[spec](case, row, cnt)
            return {"observed": [m.get("observed") for m in mm], "expected": exp, "mismatch": bool(mm)}
        return {"error": "record carries no specification row; re-run the check", "record_kind": kind}
    return {"error": "record kind not replayable", "record_kind": kind}


MANIFEST = {
    "technique": "TLA+ specifications of the four sequence file classes as text + incremental index (specs/C12: FastaOps, FastqOps, GbFileOps, GffOps with edit-history machines Fasta, Fastq, GbFile, Gff) and of the codecs (SeqCodec, GbFeature/GbCodec, GffAnnot/GffCodec) on character-code text, model-checked by TLC; every transition of the four state graphs and every codec case replayed into the real classes; recorded random histories and round trips re-computed by TLC (Trace.tla)",
    "level_text": "TLC explores all edit histories of FastaFile, FastqFile, GenBankFile and GFFFile on small key/value universes (<=3 entries or fields, wrapped multi-line values, '@' and '+' as first score characters, in- and out-of-range list indices) and checks that the incrementally maintained index equals a full re-scan, that the live mapping/list view equals the ordered mapping/list the edits denote and the meaning of the written text, and that refused calls change nothing; it checks on exhaustive case tables that the implementation-shaped writers followed by the readers are the identity (FASTQ line automaton for every wrapping and both offsets, GenBank locations with every expressible defect / strand / join, qualifier quoting, ORIGIN blocks around the 10/60 boundaries, GFF3 percent quoting and ID grouping, sequence converters, load/save helpers) except on exactly the named known-bad inputs. Every transition of the four graphs and every table row is then executed against the real classes (live view, view of the re-read text, iterator view, outcome and returned value compared after every call), and seeded random histories / round trips with long values, random ASCII text and large positions are recorded and re-computed by TLC with the same operators.",
    "level_note": "Bounded: exhaustive only for the small universes of the configs (<=3 entries/fields, sequences <=7 symbols, positions {1,2,12} etc.); beyond that only recorded executions. Domains are explicit Dom_* predicates (stripped headers, ASCII, no double quote in qualifier values, sequence start >= 1, unique GFF IDs, type guess of get_sequence only where determined). Where a replaced FASTA/FASTQ entry lands, and the exact text written (ORIGIN position numbers after the first line, attribute order), are not part of the verdict: text conformance and reading of grammar-allowed encodings the library never writes are reported as diagnostics only. The repository's own tests are not used as trace drivers. Trusted: TLC, the TLA+ value parser, the projections through the public API, io.StringIO.",
}
