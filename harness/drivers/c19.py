"""C19 — trees contain every taxon once and keep distances through Newick.

Specification: specs/C19/Phylo.tla (exact rationals; trees as nested records; upgma() and
neighbor_joining() as the code's loops; as_binary; equality with unordered children).

S1  TLC checks the laws on every rooted tree in the bounds (MCTree), runs the UPGMA machine on
    every small symmetric matrix (MCUpgma: means = average linkage, ultrametric, heights) and the
    neighbour-joining machine on every additive matrix of small trees and on every small
    arbitrary matrix (MCNj: path lengths recovered, every taxon once).
S2  every tree / matrix of those runs is an input of the real API (Tree, TreeNode, to_newick,
    from_newick, as_binary, copy, ==, hash, upgma, neighbor_joining); what the API returns is
    logged and judged by TLC with the same operators (specs/C19/Trace.tla).
S3  seeded random trees (<= 12 leaves, arity 1..4, quarter branch lengths) and random / additive /
    invalid matrices (n <= 12) beyond the bounds, same judging.
"""

from __future__ import annotations

import json
import os
import random
from fractions import Fraction

PROPERTY = "C19"


# --------------------------------------------------------------------------- projections
def rat(x, maxden=4096, tol=2e-5):
    """float -> [num, den] with a small denominator; [-1, 1] when no such rational is near."""
    try:
        fr = Fraction(float(x)).limit_denominator(maxden)
    except (ValueError, OverflowError):
        return [-1, 1]
    if abs(float(fr) - float(x)) > tol * max(1.0, abs(float(x))):
        return [-1, 1]
    return [fr.numerator, fr.denominator]


def to_node(t):
    """Specification tree (nested dict) -> TreeNode."""
    from biotite.sequence.phylo import TreeNode

    if t["idx"] != -1:
        return TreeNode(index=int(t["idx"]))
    kids = [to_node(k) for k in t["kids"]]
    return TreeNode(children=kids, distances=[k["len"][0] / k["len"][1] for k in t["kids"]])


def from_node(node, maxden=4096, lens=True):
    """TreeNode -> nested dict (len = distance to the parent, [0, 1] for a root)."""
    d = node.distance
    ln = [0, 1] if d is None else (rat(d, maxden) if lens else [0, 1])
    if node.is_leaf():
        return {"len": ln, "idx": int(node.index), "kids": []}
    return {"len": ln, "idx": -1, "kids": [from_node(c, maxden, lens) for c in node.children]}


def call(fn):
    try:
        return "ok", fn()
    except Exception as e:  # noqa: BLE001
        return "Rejected", f"{type(e).__name__}: {e}"


def blanks(s, rng):
    out = []
    for ch in s:
        out.append(ch)
        if ch in ",()" and rng.random() < 0.6:
            out.append(rng.choice([" ", "  ", "\n", "\t"]))
    return " " + "".join(out) + " \n"


def observe_tree(t, mirror, other, rng):
    """Everything the 'tree' event compares, from the real API."""
    from biotite.sequence.phylo import Tree, as_binary

    tree = Tree(to_node(t))
    n = len(tree)
    leaves = tree.leaves
    obs = {}
    obs["leaves"] = [int(x) for x in tree.root.get_indices()]
    obs["byIndex"] = [int(leaf.index) for leaf in leaves]
    obs["dist"] = [[rat(tree.get_distance(i, j)) for j in range(n)] for i in range(n)]
    obs["topo"] = [[int(tree.get_distance(i, j, True)) for j in range(n)] for i in range(n)]
    obs["lca"] = [[sorted(int(x) for x in leaves[i].lowest_common_ancestor(leaves[j]).get_indices())
                   for j in range(n)] for i in range(n)]
    s = tree.to_newick()
    labels = [f"tax{k}_x" for k in range(n)]

    def parsed(fn):
        # a Newick string the writer emitted must parse; an exception is reported as a tree
        # that no specification value equals (one leaf with index -99), not as a driver failure
        try:
            return from_node(fn().root)
        except Exception:  # noqa: BLE001
            return {"len": [0, 1], "idx": -99, "kids": []}

    obs["nw"] = parsed(lambda: Tree.from_newick(s))
    obs["nwNoDist"] = parsed(lambda: Tree.from_newick(tree.to_newick(include_distance=False)))
    # labelled Newick as found in files: with blanks, tabs and line breaks around the labels
    obs["nwLabels"] = parsed(lambda: Tree.from_newick(blanks(tree.to_newick(labels=labels), rng), labels=labels))
    obs["nwBlanks"] = parsed(lambda: Tree.from_newick(blanks(s, rng)))
    obs["binary"] = from_node(as_binary(tree).root)
    cp = tree.copy()
    obs["copy"] = from_node(cp.root)
    obs["eqCopy"] = bool(tree == cp) and bool(cp == tree) and cp is not tree
    obs["hashCopy"] = hash(tree) == hash(cp)
    tm = Tree(to_node(mirror))
    obs["eqMirror"] = bool(tree == tm)
    obs["hashMirror"] = hash(tree) == hash(tm)
    obs["eqOther"] = bool(tree == Tree(to_node(other)))
    obs["eqNewick"] = bool(tree == Tree.from_newick(s))
    return obs


def _inner_nodes(node, out):
    if node.is_leaf():
        return
    out.append(node)
    for c in node.children:
        _inner_nodes(c, out)


def observe_upgma(D):
    import numpy as np
    from biotite.sequence.phylo import upgma

    oc, tree = call(lambda: upgma(np.array(D, dtype=float).reshape(len(D), -1)))
    if oc != "ok":
        return ["Rejected", [], [], tree], {"len": [0, 1], "idx": 0, "kids": []}
    leaves = [int(x) for x in tree.root.get_indices()]
    inner = []
    _inner_nodes(tree.root, inner)
    n = len(D)
    nodes = []
    for v in inner:
        ch = v.children
        a = [int(x) for x in ch[0].get_indices()]
        b = [int(x) for x in ch[1].get_indices()] if len(ch) >= 2 else []
        dep = [[int(leaf.index), rat(leaf.distance_to(v), maxden=2 * n * n)] for leaf in v.get_leaves()]
        nodes.append({"a": a, "b": b, "arity": len(ch), "dep": dep})
    consistent = all(tree.leaves[i] is not None and tree.leaves[i].index == i for i in range(len(tree)))
    if not consistent:
        leaves = leaves + [-7]          # Tree.leaves does not map index -> leaf: flagged as "not once"
    return ["ok", leaves, nodes], from_node(tree.root, lens=False)


def observe_nj(D):
    import numpy as np
    from biotite.sequence.phylo import neighbor_joining

    oc, tree = call(lambda: neighbor_joining(np.array(D, dtype=float).reshape(len(D), -1)))
    if oc != "ok":
        return ["Rejected", [], [], 0, tree], {"len": [0, 1], "idx": 0, "kids": []}
    n = len(D)
    if tree is None or getattr(tree, "root", None) is None:
        # no tree at all: reported as "ok" with no leaf, which no specification value equals
        return ["ok", [], [[[-1, 1] for _ in range(n)] for _ in range(n)], 0], {"len": [0, 1], "idx": 0, "kids": []}
    leaves = [int(x) for x in tree.root.get_indices()]
    once = sorted(leaves) == list(range(n))
    dist = [[rat(tree.get_distance(i, j), maxden=64, tol=1e-4) if once else [-1, 1] for j in range(n)]
            for i in range(n)]
    return ["ok", leaves, dist, len(tree.root.children)], from_node(tree.root, lens=False)


# --------------------------------------------------------------------------- S2 children
def warmup():
    import biotite.sequence.phylo  # noqa: F401


def _parse_states(texts):
    from harness.tlabind.tlaval import parse_state, to_py

    return [{k: to_py(v) for k, v in parse_state(t).items()} for t in texts]


def _tree_py(t):
    """to_py form of a specification tree -> plain nested dict."""
    return {"len": list(t["len"]), "idx": t["idx"], "kids": [_tree_py(k) for k in t["kids"]]}


def exec_tree_states(item):
    from harness.tlabind.pool import progress

    rng = random.Random(item["seed"])
    events = []
    for st in _parse_states(item["texts"]):
        t = _tree_py(st["inp"])
        mirror, other = _tree_py(st["res"]["mirror"]), _tree_py(st["res"]["other"])
        progress({"stage": "S2-tree", "t": t})
        events.append({"op": "tree", "t": t, "mirror": mirror, "other": other,
                       "obs": observe_tree(t, mirror, other, rng)})
    return {"events": events}


def exec_matrix_states(item):
    """Initial states of MCUpgma / MCNj -> 'upgma' / 'nj' events."""
    from harness.tlabind.pool import progress

    events = []
    for st in _parse_states(item["texts"]):
        D = [list(r) for r in st["D"]]
        progress({"stage": "S2-" + item["algo"], "D": D})
        if item["algo"] == "upgma":
            if len(st["U"]["act"]) != len(D):
                continue
            obs, tree = observe_upgma(D)
            events.append({"op": "upgma", "D": D, "obs": obs[:3], "tree": tree})
        else:
            if len(st["J"]["act"]) != len(D):
                continue
            obs, tree = observe_nj(D)
            events.append({"op": "nj", "D": D, "obs": obs[:4], "tree": tree, "kind": st["kind"]})
    return {"events": events}


# --------------------------------------------------------------------------- S3 generators
def rand_tree(rng, n, quarters=True, unary=True, max_arity=4, int_lens=False):
    """Random rooted tree over leaves 0..n-1 (random labelling) as a specification tree."""
    def ln():
        if int_lens:
            return [rng.randint(1, 4), 1]
        k = rng.randint(0, 12)
        fr = Fraction(k, 4 if quarters else 1)
        return [fr.numerator, fr.denominator]
    nodes = [{"len": ln(), "idx": i, "kids": []} for i in range(n)]
    rng.shuffle(nodes)
    while len(nodes) > 1:
        k = min(len(nodes), rng.randint(2, max_arity))
        kids, nodes = nodes[:k], nodes[k:]
        node = {"len": ln(), "idx": -1, "kids": kids}
        if unary and rng.random() < 0.15:
            node = {"len": ln(), "idx": -1, "kids": [node]}
            while rng.random() < 0.4:      # chains of single-child nodes
                node = {"len": ln(), "idx": -1, "kids": [node]}
        nodes.append(node)
        rng.shuffle(nodes)
    root = nodes[0]
    if unary and rng.random() < 0.1:
        root = {"len": [0, 1], "idx": -1, "kids": [root]}
    return root


def mirror_of(t):
    return {"len": t["len"], "idx": t["idx"], "kids": [mirror_of(k) for k in reversed(t["kids"])]}


def tweak(t, rng):
    """A tree that differs from t in one branch length, or t itself (equal case)."""
    import copy

    c = copy.deepcopy(t)
    if rng.random() < 0.3:
        return c
    node = c
    while node["kids"]:
        node = rng.choice(node["kids"])
    fr = Fraction(node["len"][0], node["len"][1]) + Fraction(1, 2)
    node["len"] = [fr.numerator, fr.denominator]
    return c


def tree_matrix(t, n):
    """Leaf distance matrix of a specification tree with integer lengths (driver-side input
    construction for additive matrices; the verdict recomputes additivity in TLC)."""
    dist = [[0] * n for _ in range(n)]

    def walk(node):
        if node["idx"] != -1:
            return {node["idx"]: 0}
        maps = []
        for k in node["kids"]:
            m = walk(k)
            w = Fraction(k["len"][0], k["len"][1])
            maps.append({i: d + w for i, d in m.items()})
        for a in range(len(maps)):
            for b in range(a + 1, len(maps)):
                for i, di in maps[a].items():
                    for j, dj in maps[b].items():
                        dist[i][j] = dist[j][i] = int(di + dj)
        out = {}
        for m in maps:
            out.update(m)
        return out
    walk(t)
    return dist


def gen_s3(item):
    from harness.tlabind.pool import progress

    rng = random.Random(item["seed"])
    events = []
    for _ in range(item["n"]):
        kind = rng.choice(item["kinds"])
        if kind == "tree":
            n = rng.randint(1, 12)
            t = rand_tree(rng, n)
            mirror = mirror_of(t) if rng.random() < 0.7 else tweak(t, rng)
            other = tweak(t, rng)
            progress({"stage": "S3", "kind": kind, "t": t})
            events.append({"op": "tree", "t": t, "mirror": mirror, "other": other,
                           "obs": observe_tree(t, mirror, other, rng)})
            continue
        r = rng.random()
        if r < 0.45:
            n = rng.randint(2, 12)
            hi = rng.choice([1, 3, 9])
            D = [[0] * n for _ in range(n)]
            for i in range(n):
                for j in range(i):
                    D[i][j] = D[j][i] = rng.randint(0, hi)
        elif r < 0.9:
            n = rng.randint(2, 12)
            D = tree_matrix(rand_tree(rng, n, unary=False, max_arity=3, int_lens=True), n)
        else:
            n = rng.randint(2, 6)
            D = [[0] * n for _ in range(n)]
            for i in range(n):
                for j in range(i):
                    D[i][j] = D[j][i] = rng.randint(0, 5)
            i, j = rng.sample(range(n), 2)
            if rng.random() < 0.5:
                D[i][j] += 3                      # asymmetric
            else:
                D[i][j] = D[j][i] = -2            # negative
        progress({"stage": "S3", "kind": kind, "D": D})
        if kind == "upgma":
            obs, tree = observe_upgma(D)
            events.append({"op": "upgma", "D": D, "obs": obs[:3], "tree": tree})
        else:
            obs, tree = observe_nj(D)
            events.append({"op": "nj", "D": D, "obs": obs[:4], "tree": tree})
    return {"events": events}


# --------------------------------------------------------------------------- classification / replay
def classify(mm):
    return None


def replay(record):
    """Re-execute a stored event against the current code; mismatch=True when the recorded
    (rejected) observation is reproduced."""
    ev = record.get("event")
    if not ev:
        return {"error": "unknown record", "record": record}
    rng = random.Random(0)
    if ev["op"] == "tree":
        obs = observe_tree(ev["t"], ev["mirror"], ev["other"], rng)
        keys = [k for k in obs if k != "nwBlanks"]
        same = all(obs[k] == ev["obs"][k] for k in keys)
        return {"observed": obs, "recorded": ev["obs"], "mismatch": same}
    if ev["op"] == "upgma":
        obs, _ = observe_upgma(ev["D"])
        return {"observed": obs[:3], "recorded": ev["obs"], "mismatch": obs[:3] == ev["obs"]}
    if ev["op"] == "nj":
        obs, _ = observe_nj(ev["D"])
        return {"observed": obs[:4], "recorded": ev["obs"], "mismatch": obs[:4] == ev["obs"]}
    return {"error": "unknown event", "event": ev}


# --------------------------------------------------------------------------- orchestration
def _dump_texts(ctx, module, cfg, stage, must_contain=None):
    from harness.tlabind import tlc as T

    d = T.scratch_dir("c19dump")
    prefix = os.path.join(d, "states")
    res = ctx.tlc(module, cfg, stage=stage, dump=prefix, timeout=1800)
    path = prefix + ".dump" if os.path.exists(prefix + ".dump") else prefix
    texts, cur = [], []
    with open(path) as f:
        for line in f:
            if line.startswith("State ") and line.rstrip().endswith(":"):
                if cur:
                    texts.append("".join(cur))
                cur = []
            else:
                cur.append(line)
    if cur:
        texts.append("".join(cur))
    texts = [t.strip() for t in texts if t.strip()]
    if must_contain:
        texts = [t for t in texts if must_contain in t]
    texts.sort()          # TLC's dump order depends on worker scheduling; the check must not
    return res, texts


FLAGS = {"tree": ["tree_in_domain", "leaves", "get_distance", "topological_distance", "lowest_common_ancestor",
                  "newick_round_trip", "newick_without_distances", "as_binary", "copy", "equality_and_hash"],
         "upgma": ["outcome", "every_index_one_leaf", "ultrametric_heights_half_average_linkage"],
         "nj": ["outcome", "every_index_one_leaf", "additive_path_lengths"]}


def _validate(ctx, traces, stage, selftest=False, batch_events=4000):
    """TLC judges the recorded events, in batches of bounded size (one JSON file per TLC run).
    Returns (mismatch tuples, diag tuples) with trace numbers relative to `traces`."""
    from harness.tlabind import tlc as T
    from harness.tlabind.tlaval import parse_value, to_py

    mms, dgs = [], []
    start = 0
    while start < len(traces):
        stop, nev = start, 0
        while stop < len(traces) and (stop == start or nev + len(traces[stop]) <= batch_events):
            nev += len(traces[stop])
            stop += 1
        part = traces[start:stop]
        d = T.scratch_dir("c19tr")
        tf = os.path.join(d, "traces.json")
        with open(tf, "w") as f:
            json.dump([[{k: v for k, v in e.items() if k not in ("kind",)} for e in tr] for tr in part], f,
                      separators=(",", ":"))
        res = ctx.tlc("Trace", "Trace.cfg", stage=stage, workers=1 if len(part) < 8 else 8,
                      env={"TRACE_FILE": tf}, count=not selftest, timeout=1800)
        expect = sum(len(t) + 1 for t in part)
        if res.distinct != expect:
            raise RuntimeError(f"C19 {stage}: trace validation visited {res.distinct} states, expected {expect}")
        for tag, out in (("MISMATCH", mms), ("DIAG", dgs)):
            for x in T.printed_values(res.out, tag):
                v = to_py(parse_value(x))
                v[1] += start
                out.append(v)
        start = stop
    return mms, dgs


def _report(ctx, traces, mms, stage):
    seen = set()
    for m in mms:
        _tag, tid, l, flags, exp = m[:5]
        if (tid, l) in seen:
            continue
        seen.add((tid, l))
        e = traces[tid - 1][l - 1]
        names = FLAGS[e["op"]]
        failed = [names[k] for k, ok in enumerate(flags) if not ok]
        if "tree_in_domain" in failed:
            raise RuntimeError(f"C19 {stage}: generated tree outside Dom_Tree: {e['t']}")
        ctx.mismatch({"stage": stage, "kind": "event", "op": e["op"], "failed": failed, "expected": exp, "event": e})


def run(ctx):
    from harness.tlabind import helpers
    from harness.tlabind.core import Vacuity

    quick = ctx.quick
    tier = "" if quick else "_thorough"
    ctx.assumptions += [
        "Dom_Tree: leaves carry the indices 0..n-1 once; inner nodes have >= 1 child; branch lengths are dyadic rationals or small integers (exact in float32)",
        "Dom_Matrix: symmetric, non-negative integer entries, zero diagonal; NJ needs n >= 4 (documented ValueError below), asymmetric / negative matrices are documented refusals",
        "Dom_Additive (four-point condition, evaluated by TLC) selects the matrices on which neighbour joining must reproduce every path length",
        "floats -> nearest rational with a small denominator (<= 2 n^2 for UPGMA depths, <= 64 for NJ path lengths of additive integer matrices, tolerance 1e-4); exact arithmetic in the specification",
        "the tie-break of the clustering loops is not part of the property: the specification's own tree is compared as a diagnostic only",
        "Newick: labels without blanks or Newick syntax characters; the verdict is topology + leaf-to-leaf distances (exact branch lengths and child order: diagnostic)",
        "trusted: TLC, the TLA+ value parser, the projections (from_node, rat), numpy",
    ]
    ctx.cov["rule"] = ("non-trivial = tree with >= 3 leaves or a unary node; matrix with >= 3 taxa and either a tie "
                       "between two off-diagonal entries or >= 4 taxa")
    all_events = []
    # ---------------------------------------------------------------- trees
    res, texts = _dump_texts(ctx, "MCTree", f"MCTree{tier}.cfg", "S1-tree", must_contain="phase = 1")
    if not texts:
        raise Vacuity("MCTree produced no computed states")
    ctx.exhaustive = True
    items = [{"texts": ch, "seed": ctx.rng.randrange(1 << 30)} for ch in helpers.chunked(texts, 60)]
    results = helpers.run_pool(ctx, "harness.drivers.c19:exec_tree_states", items, stage="S2-tree", item_timeout=180)
    tree_events = [e for r in results for e in r.get("events", [])]
    all_events += tree_events
    ctx.cov["s2_trees"] = len(tree_events)
    ctx.log(f"S2-tree: {len(tree_events)} trees through the real API")
    # ---------------------------------------------------------------- UPGMA
    up_cfgs = [f"MCUpgma{tier}.cfg"] + ([] if quick else ["MCUpgma_thorough2.cfg"])
    up_events = []
    for cfg in up_cfgs:
        res, texts = _dump_texts(ctx, "MCUpgma", cfg, "S1-upgma", must_contain="step = 0")
        items = [{"texts": ch, "algo": "upgma"} for ch in helpers.chunked(texts, 150)]
        results = helpers.run_pool(ctx, "harness.drivers.c19:exec_matrix_states", items, stage="S2-upgma", item_timeout=180)
        up_events += [e for r in results for e in r.get("events", [])]
    all_events += up_events
    ctx.cov["s2_upgma_matrices"] = len(up_events)
    # ---------------------------------------------------------------- NJ
    res, texts = _dump_texts(ctx, "MCNj", f"MCNj{tier}.cfg", "S1-nj", must_contain="step = 0")
    items = [{"texts": ch, "algo": "nj"} for ch in helpers.chunked(texts, 150)]
    results = helpers.run_pool(ctx, "harness.drivers.c19:exec_matrix_states", items, stage="S2-nj", item_timeout=180)
    nj_events = [e for r in results for e in r.get("events", [])]
    all_events += nj_events
    nadd = sum(1 for e in nj_events if e.get("kind") == "add")
    ctx.cov["s2_nj_matrices"] = len(nj_events)
    ctx.cov["s2_nj_additive"] = nadd
    if not up_events or not nj_events or nadd == 0:
        raise Vacuity("no matrices reached the real clustering functions")
    chunks = helpers.chunked(all_events, 150)
    mms, dgs = _validate(ctx, chunks, "S2-judge")
    _report(ctx, chunks, mms, "S2")
    ctx.traces_validated += len(all_events)
    ctx.evaluations += len(all_events)
    ctx.nontrivial += sum(1 for e in all_events if _nontrivial(e))
    ctx.cov["s2_diag"] = _diag_counts(chunks, dgs)
    if dgs:
        ctx.note(f"S2 diagnostics without verdict: {ctx.cov['s2_diag']}")
    ctx.sample({"s2_tree": {k: tree_events[len(tree_events) // 2][k] for k in ("t",)},
                "observed_newick_tree": tree_events[len(tree_events) // 2]["obs"]["nw"]})
    ctx.sample({"s2_upgma": {"D": up_events[-1]["D"], "obs": up_events[-1]["obs"]}})
    ctx.sample({"s2_nj": {"D": nj_events[0]["D"], "obs": nj_events[0]["obs"]}})
    ctx.log(f"S2: {len(tree_events)} trees, {len(up_events)} UPGMA matrices, {len(nj_events)} NJ matrices "
            f"({nadd} additive) judged by TLC")
    # ---------------------------------------------------------------- S3
    nitems = 16 if quick else 300
    per = 12 if quick else 40
    titems = [{"seed": ctx.rng.randrange(1 << 30), "n": per, "kinds": ["tree", "tree", "upgma", "nj"]}
              for _ in range(nitems)]
    tres = helpers.run_pool(ctx, "harness.drivers.c19:gen_s3", titems, stage="S3", item_timeout=300)
    traces = [r["events"] for r in tres if r and r.get("events")]
    mms, dgs = _validate(ctx, traces, "S3")
    _report(ctx, traces, mms, "S3")
    nev = sum(len(t) for t in traces)
    per_kind = {}
    for t in traces:
        for e in t:
            per_kind[e["op"]] = per_kind.get(e["op"], 0) + 1
    refusals = sum(1 for t in traces for e in t if e["op"] in ("upgma", "nj") and e["obs"][0] == "Rejected")
    ctx.traces_validated += len(traces)
    ctx.evaluations += nev
    ctx.nontrivial += sum(1 for t in traces for e in t if _nontrivial(e))
    ctx.cov.update({"s3_traces": len(traces), "s3_events": nev, "s3_events_per_kind": per_kind,
                    "s3_refusals": refusals, "s3_diag": _diag_counts(traces, dgs)})
    if dgs:
        ctx.note(f"S3 diagnostics without verdict: {ctx.cov['s3_diag']}")
    if set(per_kind) != {"tree", "upgma", "nj"} or refusals == 0:
        raise Vacuity(f"S3: event kinds / refusals missing: {per_kind}, refusals={refusals}")
    ctx.sample({"s3_event": traces[0][0]})
    ctx.sample({"s3_event": next(e for t in traces for e in t if e["op"] == "nj")})

    # ---------------------------------------------------------------- binding self-test
    def corrupt(tr):
        for e in tr:
            if e["op"] == "tree" and len(e["obs"]["dist"]) >= 2:
                num, den = e["obs"]["dist"][0][1]
                e["obs"]["dist"][0][1] = [num + den, den]
                return True
            if e["op"] == "upgma" and e["obs"][0] == "ok" and e["obs"][2]:
                e["obs"][2][0]["dep"][0][1][0] += 1
                return True
            if e["op"] == "nj" and e["obs"][0] == "ok":
                e["obs"][1][0] = e["obs"][1][-1]
                return True
        return False
    bad = json.loads(json.dumps(traces[:3]))
    changed = [tr for tr in bad if corrupt(tr)]
    if changed:
        mm, _ = _validate(ctx, changed, "S3-selftest", selftest=True)
        hit = {m[1] for m in mm}
        if len(hit) < len(changed):
            raise Vacuity(f"binding self-test: {len(changed)} corrupted traces, {len(hit)} rejected")
        ctx.cov["selftest_corrupted_rejected"] = len(hit)


def _nontrivial(e):
    if e["op"] == "tree":
        def has_unary(t):
            return len(t["kids"]) == 1 or any(has_unary(k) for k in t["kids"])
        return len(e["obs"]["leaves"]) >= 3 or has_unary(e["t"])
    n = len(e["D"])
    if n >= 4:
        return True
    off = [e["D"][i][j] for i in range(n) for j in range(i)]
    return n >= 3 and len(set(off)) < len(off)


def _diag_counts(traces, dgs):
    out = {}
    for d in dgs:
        out[d[3]] = out.get(d[3], 0) + 1
    return out


MANIFEST = {
    "technique": "TLA+ specification of rooted trees, as_binary, tree equality, UPGMA and neighbour joining over exact rationals (specs/C19) model-checked by TLC; every enumerated tree / matrix executed against the real API and judged by TLC with the same operators; recorded random executions judged the same way",
    "level_text": "TLC checks on every rooted tree with <= 4 leaves (all labellings, arity 2-3, unary nodes, three branch-length patterns) that the code's path-to-root distance / common-ancestor procedure equals the explicit path sums, that as_binary keeps leaves and all leaf distances, that equality ignores child order but not lengths; it runs the UPGMA loop on every symmetric matrix with entries 0..3 (n <= 4, ties included) checking mean update = average linkage, ultrametricity and merge heights, and the neighbour-joining loop on the matrices of all binary trees over 4 taxa with lengths {1,2} (path lengths recovered at every step and at the end) and on all matrices with entries 0..2. Every such tree and matrix is then given to the real Tree / to_newick / from_newick / as_binary / copy / == / hash / upgma / neighbor_joining and the returned objects are judged by TLC; random trees (<= 12 leaves, arity 1-4) and random, additive and invalid matrices (n <= 12) are recorded and judged the same way.",
    "level_note": "Bounded: exhaustive only inside the stated bounds. Floats are projected to the nearest small rational (tolerance 1e-4 for NJ, 2e-5 otherwise); float32 rounding of arbitrary real distances is not decided. The tie-break of the clustering loops, exact branch lengths through Newick and child order are diagnostics. Newick strings are only those the writer emits (plus inserted blanks); labels contain no Newick syntax characters. Trusted: TLC, the TLA+ value parser, the projections, numpy. The .pyx files cannot be recompiled here (no Cython).",
}
