"""C02 — BondList as a set of undirected typed bonds with safe indices.

S1  TLC checks specs/C02/BondList.tla (all reachable states of the bounded machine).
S2  every transition of TLC's state graph is replayed against the real BondList
    (paths from the initial state; after each call n / as_set / outcome / returned value are
    compared with the spec state).
S2b every case of specs/C02/BondCalls.tla (one call on a root list, with its arguments in every
    form a caller may hand them over - Python ints / numpy integer scalars, lists / integer
    ndarrays of every dtype, byte order and layout, bool arrays / lists of bools, slices with
    numpy bounds, constructor rows of every dtype - and == / != against every one-aspect
    variant of the root and against foreign objects) is executed; nothing is sampled.
S3  random histories on larger lists (random forms, comparisons with variants of the current
    list) are recorded and validated by TLC (specs/C02/Trace.tla).
"""

from __future__ import annotations

import json
import os
import random

PROPERTY = "C02"
_CONCAT_FORM = [0]

_G = None  # graph tables, loaded lazily in children


# --------------------------------------------------------------------------- real-side ops
def _np():
    import numpy as np

    return np


class DriverError(Exception):
    """The driver was asked for something outside the specification's domain (machinery)."""


# forms of BondListOps "index forms": token -> numpy dtype string
_NPT = {"i8": "int8", "i16": "int16", "i32": "int32", "i64": "int64",
        "u8": "uint8", "u16": "uint16", "u32": "uint32", "u64": "uint64"}
_BIG = {"bi16": ">i2", "bi32": ">i4", "bi64": ">i8", "bu16": ">u2", "bu64": ">u8"}
_STRIDED = {"i64s": "int64", "u8s": "uint8", "i32s": "int32"}
SCALAR_FORMS = ("py",) + tuple(_NPT)
ARRAY_FORMS = ("list",) + tuple(_NPT) + tuple(_BIG) + ("i64s", "u8s")
MASK_FORMS = ("np", "list", "strided")
SLICE_FORMS = ("py", "np")
ROWS_FORMS = tuple(_NPT) + ("bi32", "bi64", "i64f", "i32s")


def _unsigned(form):
    return form in ("u8", "u16", "u32", "u64", "bu16", "bu64", "u8s")


def int_form(k, form="py"):
    """An integer in one of BondListOps.ScalarForms."""
    np = _np()
    k = int(k)
    if form == "py":
        return k
    if form not in _NPT:
        raise DriverError(f"unknown scalar form {form!r}")
    if form[0] == "u" and k < 0:
        raise DriverError(f"negative value {k} in unsigned form {form} (outside Dom_ScalarForm)")
    try:
        return getattr(np, _NPT[form])(k)
    except OverflowError:
        raise DriverError(f"value {k} does not fit the form {form}")


def _int_array(vals, form):
    """A 1-d integer array in one of the ndarray forms of BondListOps.ArrayForms."""
    np = _np()
    vals = [int(v) for v in vals]
    if _unsigned(form) and any(v < 0 for v in vals):
        raise DriverError(f"negative value in unsigned form {form} (outside Dom_IdxForm)")
    try:
        if form in _NPT:
            return np.array(vals, dtype=_NPT[form])
        if form in _BIG:
            return np.array(vals, dtype=np.dtype(_BIG[form]))
        if form in _STRIDED:
            # the same values as a non-contiguous view (every second element of a doubled array)
            return np.repeat(np.array(vals, dtype=_STRIDED[form]), 2)[::2]
    except OverflowError:
        raise DriverError(f"values {vals} do not fit the form {form}")
    raise DriverError(f"unknown array form {form!r}")


def to_index(x):
    """Spec index object <<kind, payload[, form]>> -> Python/numpy index."""
    np = _np()
    kind, p = x[0], x[1]
    form = x[2] if len(x) > 2 else None
    if kind == "int":
        return int_form(p[0], form or "py")
    if kind == "slice":
        if form not in (None, "py", "np"):
            raise DriverError(f"unknown slice form {form!r}")
        conv = np.int64 if form == "np" else int
        a, b, c = [None if len(o) == 0 else conv(int(o[0])) for o in p]
        return slice(a, b, c)
    if kind == "mask":
        if form == "list":
            return [bool(v) for v in p]
        m = np.array([bool(v) for v in p], dtype=bool)
        if form == "strided":
            # the same mask as a non-contiguous view (every second element of a doubled array):
            # numpy accepts it as an index like any other boolean array
            return np.repeat(m, 2)[::2]
        if form not in (None, "np"):
            raise DriverError(f"unknown mask form {form!r}")
        return m
    if kind == "arr":
        if form == "list":
            return [int(v) for v in p]
        return _int_array(p, form or "i64")
    if kind == "all":
        return slice(None)
    raise DriverError(kind)


def make(n, rows, form=None):
    """BondList(n, rows); `form` (BondListOps.RowsForms) = dtype / byte order / layout of the array."""
    from biotite.structure import BondList

    np = _np()
    if form is None:
        if len(rows) == 0:
            return BondList(int(n))
        return BondList(int(n), np.array(rows, dtype=np.int64).reshape(-1, 3))
    rows = [[int(v) for v in r] for r in rows]
    if _unsigned(form) and any(r[0] < 0 or r[1] < 0 for r in rows):
        raise DriverError(f"negative index in unsigned rows form {form} (outside Dom_RowsForm)")
    if form in _NPT:
        arr = np.array(rows, dtype=_NPT[form]).reshape(-1, 3)
    elif form in _BIG:
        arr = np.array(rows, dtype=np.dtype(_BIG[form])).reshape(-1, 3)
    elif form == "i64f":
        arr = np.asfortranarray(np.array(rows, dtype=np.int64).reshape(-1, 3))
    elif form == "i32s":
        wide = np.full((2 * len(rows), 5), 99, dtype=np.int32)      # rows interleaved with junk
        if rows:
            wide[::2, 1:4] = np.array(rows, dtype=np.int32).reshape(-1, 3)
        arr = wide[::2, 1:4]
    else:
        raise DriverError(f"unknown rows form {form!r}")
    return BondList(int(n), arr)


def _forms(a, k, count):
    """The trailing forms component of a scalar call (a[k]), or Python ints."""
    if len(a) > k:
        f = a[k]
        return [f] if count == 1 else list(f)
    return ["py"] * count


def _foreign(bl, code):
    """Objects that are not bond lists (BondListOps: <<"obj", <<code>>>>); the flag says whether the
    reflected comparison obj == bl is meaningful (an ndarray would compare element-wise)."""
    n = int(bl.get_atom_count())
    if code == 0:
        return None, True
    if code == 1:
        return n, True
    if code == 2:
        return str(bl), True
    if code == 3:
        return bl.as_set(), True
    if code == 4:
        return (n, tuple(sorted(bl.as_set()))), True
    if code == 5:
        return bl.as_array(), False
    raise DriverError(f"unknown foreign object code {code!r}")


def nbrs(res):
    b, t = res
    return [[int(x), int(y)] for x, y in zip(b.tolist(), t.tolist())]


def views(bl):
    np = _np()
    n = bl.get_atom_count()
    ab, at = bl.get_all_bonds()
    nb = []
    for i in range(n):
        row = [[int(b), int(t)] for b, t in zip(ab[i].tolist(), at[i].tolist()) if b != -1]
        nb.append(row)
    adj = bl.adjacency_matrix()
    tm = bl.bond_type_matrix()
    arr = bl.as_array()
    g = bl.as_graph()
    graph = []
    for i, j, d in g.edges(data=True):
        i, j = int(i), int(j)
        graph.append([min(i, j), max(i, j), int(d["bond_type"])])
    cp = bl.copy()
    eqcopy = bool(cp == bl) and bool(bl == cp) and cp is not bl
    return {
        "nb": nb,
        "adj": [[int(i), int(j)] for i, j in zip(*np.nonzero(adj))],
        "tm": [[int(i), int(j), int(tm[i, j])] for i, j in zip(*np.nonzero(tm != -1))],
        "set": [[int(a), int(b), int(c)] for a, b, c in arr.tolist()],
        "graph": graph,
        "eqcopy": eqcopy,
        "cnt": int(bl.get_bond_count()),
    }


def apply_real(bl, op, a):
    """Returns (bl', oc, out). Exceptions are mapped to outcomes."""
    from biotite.structure import BondList

    out = []
    try:
        if op == "construct":
            bl = make(a[0], a[1], a[2] if len(a) > 2 else None)
        elif op == "add":
            fi, fj = _forms(a, 3, 2)
            bl.add_bond(int_form(a[0], fi), int_form(a[1], fj), int(a[2]))
        elif op == "remove":
            fi, fj = _forms(a, 2, 2)
            bl.remove_bond(int_form(a[0], fi), int_form(a[1], fj))
        elif op == "remove_to":
            bl.remove_bonds_to(int_form(a[0], _forms(a, 1, 1)[0]))
        elif op == "remove_bonds":
            bl.remove_bonds(make(a[0], a[1]))
        elif op == "merge":
            bl = bl.merge(make(a[0], a[1]))
        elif op == "concat":
            bl = bl + make(a[0], a[1])
        elif op == "rconcat":
            # concatenate() takes an "iterable object of BondList": the operands are handed over in turn
            # as list, tuple, generator, one-shot iterator and dict view (container forms, cf. BondCalls)
            ops_ = [make(a[0], a[1]), bl]
            _CONCAT_FORM[0] += 1
            k = _CONCAT_FORM[0] % 5
            arg = (ops_ if k == 0 else tuple(ops_) if k == 1 else (x for x in ops_) if k == 2
                   else iter(ops_) if k == 3 else dict(enumerate(ops_)).values())
            bl = BondList.concatenate(arg)
        elif op == "offset":
            bl.offset_indices(int_form(a[0], _forms(a, 1, 1)[0]))
        elif op == "strip_arom":
            bl.remove_aromaticity()
        elif op == "strip_order":
            bl.remove_bond_order()
        elif op == "index":
            r = bl[to_index(a[0])]
            if a[0][0] == "int":
                out = nbrs(r)
            else:
                bl = r
        elif op == "get_bonds":
            out = nbrs(bl.get_bonds(int_form(a[0], _forms(a, 1, 1)[0])))
        elif op == "contains":
            fi, fj = _forms(a, 2, 2)
            out = bool((int_form(a[0], fi), int_form(a[1], fj)) in bl)
        elif op == "eq":
            # a = [kind, payload]: "list" [m, rows] or "obj" [code]; the variants the specification
            # describes relative to the current list are resolved by the caller from the
            # specification's own value (out.other) before they get here
            if a[0] == "obj":
                other, reflect = _foreign(bl, a[1][0])
            elif a[0] == "list":
                other, reflect = make(a[1][0], a[1][1]), True
            else:
                raise DriverError(f"unresolved comparison argument {a!r}")
            out = [bool(bl == other), not bool(bl != other)]
            if reflect:
                out += [bool(other == bl), not bool(other != bl)]
        elif op == "independent":
            how, x = a
            if how == "index":
                d = bl[to_index(x)]
            elif how == "merge":
                d = bl.merge(make(x[0], x[1]))
            elif how == "concat":
                d = bl + make(x[0], x[1])
            else:
                d = bl.copy()
            out = _independent(bl, d)
        elif op == "views":
            out = views(bl)
        elif op == "copy":
            c = bl.copy()
            if c is bl:
                raise AssertionError("copy returned self")
            bl = c
        else:
            raise ValueError(op)
        return bl, "ok", out
    except IndexError:
        return bl, "IndexError", []
    except (ValueError, TypeError, NotImplementedError, OverflowError, MemoryError) as e:
        return bl, "Rejected", []


def _poke(b):
    """In-place writes through the public API."""
    n = b.get_atom_count()
    b.remove_bond_order()
    if n >= 2:
        b.add_bond(0, n - 1, 7)
        b.remove_bonds_to(n // 2)
    b.offset_indices(1)


def _independent(src, derived):
    """src and derived must be distinct objects sharing no state: write into a copy of the
    derived object's *identity* (the object itself), look at the source, and the other way
    round.  The source is restored from a snapshot afterwards."""
    if derived is src:
        return "same-object"
    snap_src = src.copy()
    before_src = (src.get_atom_count(), _sset(src.as_array().tolist()))
    _poke(derived)
    after_src = (src.get_atom_count(), _sset(src.as_array().tolist()))
    if before_src != after_src:
        # undo the damage on the real source so that the rest of the path is meaningful
        src._bonds = snap_src._bonds
        src._atom_count = snap_src._atom_count
        return "source-changed-by-writing-into-derived"
    before_d = (derived.get_atom_count(), _sset(derived.as_array().tolist()))
    _poke(src)
    after_d = (derived.get_atom_count(), _sset(derived.as_array().tolist()))
    src._bonds = snap_src._bonds
    src._atom_count = snap_src._atom_count
    src._max_bonds_per_atom = snap_src._max_bonds_per_atom
    if before_d != after_d:
        return "derived-changed-by-writing-into-source"
    return "independent"


def project(bl):
    np = _np()
    n = int(bl.get_atom_count())
    arr = bl.as_array()
    bonds = [[int(x), int(y), int(z)] for x, y, z in arr.tolist()]
    cmax_ok = True
    c = getattr(bl, "_max_bonds_per_atom", None)
    if c is not None and len(bonds) and n > 0:
        cnt = np.zeros(max(n, int(arr[:, :2].max()) + 1 if len(arr) else 0), dtype=np.int64)
        np.add.at(cnt, arr[:, 0].astype(np.int64), 1)
        np.add.at(cnt, arr[:, 1].astype(np.int64), 1)
        cmax_ok = bool(int(c) >= int(cnt.max()))
    return n, bonds, cmax_ok


def _sset(rows):
    return sorted(map(tuple, rows))


def _nodup(rows):
    return len(set(map(tuple, rows))) == len(rows)


def out_matches(op, a, exp, got):
    """exp: spec value in to_py form (sets = sorted lists); got: real-side value."""
    if op == "get_bonds" or (op == "index" and a[0][0] == "int"):
        return _sset(got) == _sset(exp) and _nodup(got)
    if op == "contains":
        return bool(got) == bool(exp)
    if op == "independent":
        return got == exp
    if op == "eq":
        return len(got) >= 2 and all(bool(g) == bool(exp["eq"]) for g in got)
    if op == "views":
        if len(got["nb"]) != len(exp["nb"]):
            return False
        for g, e in zip(got["nb"], exp["nb"]):
            if _sset(g) != _sset(e) or not _nodup(g):
                return False
        return (_sset(got["adj"]) == _sset(exp["adj"]) and _sset(got["tm"]) == _sset(exp["tm"])
                and _sset(got["set"]) == _sset(exp["set"]) and _nodup(got["set"])
                and _sset(got["graph"]) == _sset(exp["graph"])
                and got["eqcopy"] == exp["eqcopy"] and got["cnt"] == exp["cnt"])
    return True


# --------------------------------------------------------------------------- S2 child
def _graph():
    global _G
    if _G is None:
        with open(os.environ["C02_GRAPH"]) as f:
            _G = json.load(f)
    return _G


def warmup():
    import biotite.structure  # noqa: F401
    import networkx  # noqa: F401

    if "C02_GRAPH" in os.environ:
        _graph()


def exec_path(item):
    from harness.tlabind.pool import in_fork, progress

    G = _graph()
    states, labels = G["states"], G["labels"]
    st = states[item["init"]]
    bl = make(st["n"], [list(b) for b in st["B"]])
    mism = []
    nsteps = 0
    done = []          # the calls made so far, with their arguments as realised
    for li, dst in item["steps"]:
        _k, op, a = labels[li]
        exp = states[dst]
        a = resolve_eq(op, a, exp["oc"], exp["out"])
        done.append([op, a])
        n_before = bl.get_atom_count()
        progress({"op": op, "a": a, "n_before": n_before, "exp_oc": exp["oc"]})
        nsteps += 1
        if exp["oc"] != "ok":
            # A call the specification refuses must leave the object unchanged. It is tried in
            # a forked copy of this process, so that even a native crash costs only this step
            # and the rest of the path is still replayed on the intact object.
            def attempt(bl=bl, op=op, a=a):
                b2, oc_, out_ = apply_real(bl, op, a)
                return [oc_, out_, list(project(b2))]
            r = in_fork(attempt)
            if isinstance(r, dict) and "crash" in r:
                mism.append({"kind": "crash", "signal": r["crash"], "progress":
                             {"op": op, "a": a, "n_before": n_before, "exp_oc": exp["oc"]},
                             "path": list(done),
                             "init": {"n": st["n"], "B": st["B"]}})
                continue
            oc, out, (n, bonds, cmax_ok) = r
            bl2 = bl
        else:
            bl2, oc, out = apply_real(bl, op, a)
            n, bonds, cmax_ok = project(bl2)
        bad = []
        if oc != exp["oc"]:
            bad.append("oc")
        if n != exp["n"]:
            bad.append("n")
        if _sset(bonds) != _sset(exp["B"]) or not _nodup(bonds):
            bad.append("B")
        if not cmax_ok:
            bad.append("cache")
        if oc == "ok" and exp["oc"] == "ok" and not out_matches(op, a, exp["out"], out):
            bad.append("out")
        if bad:
            mism.append({"kind": "step", "op": op, "a": a, "n_before": n_before, "bad": bad,
                         "expected": {"oc": exp["oc"], "n": exp["n"], "B": exp["B"], "out": exp["out"]},
                         "observed": {"oc": oc, "n": n, "B": bonds, "out": out},
                         "path": list(done),
                         "init": {"n": st["n"], "B": st["B"]}})
            if exp["oc"] != "ok":
                continue  # refused call judged in a fork; our object is still the pre-state
            break  # the real object has diverged; the rest of the path proves nothing
        bl = bl2
    return {"mismatch": mism, "steps": nsteps}


def exec_item(item):
    return exec_calls(item) if "cases" in item else exec_path(item)


def resolve_eq(op, a, exp_oc, exp_out):
    """A comparison with a list the specification describes relative to the current one
    (<<"natoms", <<1>>>>, <<"retype", <<k, t>>>>, ...) is realised with the constructor input the
    specification computed for it (out.other)."""
    if op == "eq" and a[0] not in ("list", "obj") and exp_oc == "ok":
        return ["list", exp_out["other"], a]
    return a


# --------------------------------------------------------------------------- S2b child
def exec_calls(item):
    """Cases of specs/C02/BondCalls.tla: every call is made on a fresh root list."""
    from harness.tlabind.pool import progress

    mism = []
    n0, B0 = item["n"], item["B"]
    for op, a0, exp in item["cases"]:
        a = resolve_eq(op, a0, exp["oc"], exp["out"])
        bl = make(n0, B0)
        progress({"op": op, "a": a, "n_before": n0, "exp_oc": exp["oc"], "init": {"n": n0, "B": B0}})
        bl2, oc, out = apply_real(bl, op, a)
        n, bonds, cmax_ok = project(bl2)
        bad = []
        if oc != exp["oc"]:
            bad.append("oc")
        if n != exp["n"]:
            bad.append("n")
        if _sset(bonds) != _sset(exp["B"]) or not _nodup(bonds):
            bad.append("B")
        if not cmax_ok:
            bad.append("cache")
        if oc == "ok" and exp["oc"] == "ok" and not out_matches(op, a, exp["out"], out):
            bad.append("out")
        if bad:
            mism.append({"kind": "call", "op": op, "a": a, "n_before": n0, "bad": bad,
                         "expected": {"oc": exp["oc"], "n": exp["n"], "B": exp["B"], "out": exp["out"]},
                         "observed": {"oc": oc, "n": n, "B": bonds, "out": out},
                         "path": [[op, a]], "init": {"n": n0, "B": B0}})
    return {"mismatch": mism, "steps": len(item["cases"])}


# --------------------------------------------------------------------------- S3 child
def _rand_scalar_form(rng, k):
    """A form admissible for the integer k (BondListOps.Dom_ScalarForm)."""
    return rng.choice([f for f in SCALAR_FORMS if k >= 0 or not _unsigned(f)])


def _rand_index(rng, n, plain=False):
    """A random index object in a random admissible form (BondListOps.Dom_IdxForm).  plain: only
    the forms that no known finding concerns (native byte order, contiguous)."""
    k = rng.random()
    if k < 0.15:
        v = rng.randint(-n - 2, n + 1)
        return ["int", [v], _rand_scalar_form(rng, v)]
    if k < 0.45:
        def c(lo, hi):
            return [] if rng.random() < 0.3 else [rng.randint(lo, hi)]
        step = [] if rng.random() < 0.4 else [rng.choice([-3, -2, -1, 1, 2, 3])]
        return ["slice", [c(-n - 2, n + 2), c(-n - 2, n + 2), step], rng.choice(SLICE_FORMS)]
    if k < 0.65:
        form = rng.choice(["np", "np", "list"] + ([] if plain else ["strided"]))
        return ["mask", [rng.random() < 0.6 for _ in range(n)], form]
    if k < 0.95:
        m = rng.randint(0, n)
        pool = list(range(n))
        rng.shuffle(pool)
        arr = [p if rng.random() < 0.5 else p - n for p in pool[:m]]
        r = rng.random()
        if r < 0.1 and n > 0:
            arr.append(rng.choice([n, n + 1, -n - 1]))      # out of range
        elif r < 0.18 and arr:
            arr.append(arr[0])                               # duplicate
        forms = [f for f in ARRAY_FORMS if (all(v >= 0 for v in arr) or not _unsigned(f))
                 and not (plain and (f in _BIG or f in _STRIDED))]
        return ["arr", arr, rng.choice(forms)]
    return ["all", [], "py"]


def _rand_other(rng, bl, nmax):
    """A list to compare the real list with: it differs from it in one aspect at most (atom
    count, one bond type, one bond more or less, order / orientation / sign of the rows), or
    is unrelated; or a foreign object.  Returned as the argument of op "eq"."""
    n = int(bl.get_atom_count())
    rows = [[int(v) for v in r] for r in bl.as_array().tolist()]
    k = rng.random()
    if k < 0.12:
        return ["obj", [rng.randrange(6)]]
    if k < 0.2:
        m = rng.randint(0, min(nmax, 6))
        return ["list", [m, _rand_rows(rng, m, rng.randint(0, m + 1))]]
    m = n
    if k < 0.45:
        lo = max([r[1] + 1 for r in rows] + [0])             # the same bonds over another atom count
        m = rng.choice([x for x in (lo, n - 1, n + 1, n + 2, n + 5) if x >= lo and x != n] or [n + 1])
    elif k < 0.6 and rows:
        r = rng.choice(rows)
        r[2] = rng.choice([t for t in range(10) if t != r[2]])
    elif k < 0.7 and rows:
        rows.pop(rng.randrange(len(rows)))
    elif k < 0.8 and n >= 2:
        i, j = rng.sample(range(n), 2)
        if not any({r[0], r[1]} == {i, j} for r in rows):
            rows.append([i, j, rng.randint(0, 9)])
    # the same mapping written differently: order, orientation, negative indices, a repeated pair
    rng.shuffle(rows)
    for r in rows:
        if rng.random() < 0.5:
            r[0], r[1] = r[1], r[0]
        if rng.random() < 0.3:
            r[0] -= m
        if rng.random() < 0.3:
            r[1] -= m
    if rows and rng.random() < 0.3:
        r = rng.choice(rows)
        rows.append([r[1], r[0], rng.randint(0, 9)])         # later duplicate: the first row wins
    return ["list", [m, rows]]


def _rand_rows(rng, n, k):
    rows = []
    if n < 2:
        return rows
    for _ in range(k):
        i = rng.randrange(n)
        j = rng.randrange(n)
        if i == j:
            continue
        if rng.random() < 0.3:
            i -= n
        if rng.random() < 0.3:
            j -= n
        rows.append([i, j, rng.randint(0, 9)])
    return rows


def gen_trace(item):
    """Run a random history against the real BondList and log it."""
    from harness.tlabind.pool import progress

    rng = random.Random(item["seed"])
    nmax = item.get("nmax", 12)
    safe_only = item.get("safe_only", False)  # never pass an index below -n (crash-prone)
    n0 = rng.randint(0, nmax)
    events = []
    bl = None
    for step in range(item["length"]):
        n = 0 if bl is None else int(bl.get_atom_count())
        if bl is None:
            op, a = "construct", [n0, _rand_rows(rng, n0, rng.randint(0, 2 * n0))]
        else:
            op = rng.choice(["add", "add", "add", "remove", "remove_to", "remove_bonds", "merge",
                             "concat", "rconcat", "offset", "strip_arom", "strip_order", "index",
                             "index", "get_bonds", "contains", "views", "copy", "construct", "independent",
                             "eq", "eq"])
            lo = -n if safe_only else -n - 2
            if op == "construct":
                m = rng.randint(0, nmax)
                a = [m, _rand_rows(rng, m, rng.randint(0, 2 * m))]
                forms = [f for f in ROWS_FORMS if not _unsigned(f) or all(r[0] >= 0 and r[1] >= 0 for r in a[1])]
                if rng.random() < 0.7:
                    a.append(rng.choice(forms))
            elif op in ("add", "remove"):
                i, j = rng.randint(lo, n + 1), rng.randint(lo, n + 1)
                if n > 0 and -n <= i < n and -n <= j < n and i % n == j % n:
                    continue
                a = [i, j] + ([rng.randint(0, 9)] if op == "add" else [])
                a.append([_rand_scalar_form(rng, i), _rand_scalar_form(rng, j)])
            elif op in ("remove_to", "get_bonds"):
                i = rng.randint(lo, n + 1)
                a = [i, _rand_scalar_form(rng, i)]
            elif op == "eq":
                a = _rand_other(rng, bl, nmax)
            elif op in ("remove_bonds", "merge", "concat", "rconcat"):
                m = rng.randint(0, min(nmax, 6)) if op != "remove_bonds" else n
                if op in ("concat", "rconcat") and n + m > 3 * nmax:
                    continue
                a = [m, _rand_rows(rng, m, rng.randint(0, m + 1))]
            elif op == "offset":
                a = [rng.choice([-1, 0, 1, 2])]
                if n + a[0] > 3 * nmax:
                    continue
                a.append(_rand_scalar_form(rng, a[0]))
            elif op == "index":
                a = [_rand_index(rng, n)]
                if safe_only and a[0][0] == "int" and a[0][1][0] < -n:
                    continue
            elif op == "independent":
                how = rng.choice(["index", "index", "merge", "concat", "copy"])
                if how == "index":
                    x = _rand_index(rng, n, plain=True)
                    if x[0] == "int" or (x[0] == "mask" and rng.random() < 0.4):
                        x = ["mask", [True] * n, "np"]
                    a = [how, x]
                elif how == "copy":
                    a = [how, []]
                else:
                    m = rng.randint(0, 5)
                    a = [how, [m, _rand_rows(rng, m, rng.randint(0, m + 1))]]
            elif op == "contains":
                if n < 2:
                    continue
                i, j = rng.sample(range(n), 2)
                a = [i, j, [_rand_scalar_form(rng, i), _rand_scalar_form(rng, j)]]
            else:
                a = []
        progress({"op": op, "a": a, "n_before": n, "events": len(events)})
        if bl is None:
            from biotite.structure import BondList

            bl = BondList(0)
        bl, oc, out = apply_real(bl, op, a)
        nn, bonds, cmax_ok = project(bl)
        events.append({"op": op, "a": a, "oc": oc, "n": nn, "bonds": bonds, "out": out,
                       "cmax_ok": cmax_ok, "n_before": n})
        if any(b[1] >= nn or b[0] < 0 for b in bonds):
            break  # corrupted object: stop the history here (the event itself is judged)
    return {"events": events}


# --------------------------------------------------------------------------- classification
def _below(a, n):
    return [x for x in a if isinstance(x, int) and not isinstance(x, bool) and x < -n]


def _index_arg(mm):
    """The index object of an "index" call in a mismatch record, or None."""
    a = mm.get("a")
    if mm.get("kind") in ("event", "call", "step") and mm.get("op") == "index" and a and isinstance(a[0], list):
        return a[0]
    return None


def classify(mm):
    """Known findings: C02-index-below-minus-n (scalar atom index < -n is not rejected),
    C02-noncontiguous-mask (a boolean mask that is a strided view is refused) and
    C02-bigendian-index-array (an index array in non-native byte order is refused)."""
    x = _index_arg(mm)
    accepted_but_refused = (mm.get("expected", {}).get("oc") == "ok"
                            and mm.get("observed", {}).get("oc") == "Rejected")
    if x and x[0] == "mask" and len(x) > 2 and x[2] == "strided" and accepted_but_refused:
        return "C02-noncontiguous-mask"
    if (x and x[0] == "arr" and len(x) > 2 and x[2] in _BIG and accepted_but_refused
            and mm.get("observed", {}).get("n") == mm.get("n_before")):
        return "C02-bigendian-index-array"
    rec = None
    if mm.get("kind") == "crash":
        rec = mm.get("progress") or {}
    elif mm.get("kind") in ("step", "event"):
        rec = mm
    if not rec:
        return None
    op, a, n = rec.get("op"), rec.get("a"), rec.get("n_before")
    if op is None or n is None:
        return None
    scal = None
    if op in ("add", "remove"):
        scal = a[:2]
    elif op in ("remove_to", "get_bonds"):
        scal = a[:1]
    elif op == "index" and a and a[0][0] == "int":
        scal = list(a[0][1])
    if scal and _below(scal, n):
        if mm.get("kind") == "crash":
            return "C02-index-below-minus-n"
        exp = mm.get("expected", {})
        if exp.get("oc") == "IndexError" and mm.get("observed", {}).get("oc") != "IndexError":
            return "C02-index-below-minus-n"
    return None


# --------------------------------------------------------------------------- orchestration
def _to_jsonable_state(st):
    from harness.tlabind.tlaval import to_py

    return {"n": st["n"], "B": to_py(st["B"]), "oc": st["oc"], "out": to_py(st["out"]),
            "cmax": st["cmax"]}


def run(ctx):
    from harness.tlabind import dot, pool, tlc
    from harness.tlabind.tlaval import to_py

    quick = ctx.quick
    ctx.assumptions += [
        "a bond joins two distinct atoms (self-bonds i=i are outside the domain)",
        "boolean masks have exactly n entries; bond types are 0..9",
        "exhaustive model: atom count <= 3, bond types {0,1,5}; larger lists only through recorded traces",
        "forms of the arguments (BondListOps Dom_ScalarForm / Dom_IdxForm / Dom_RowsForm): Python ints and numpy "
        "integer scalars int8..uint64 (unsigned forms for non-negative values), Python lists and integer ndarrays "
        "of those dtypes, big-endian and strided integer ndarrays, bool ndarrays / lists of bools / strided bool "
        "views, slices with Python or numpy bounds, constructor arrays of those dtypes incl. big-endian, Fortran "
        "order and strided views; other index objects (tuples, ranges, 0-d arrays, bools as integers) are outside",
        "single calls in every form (BondCalls) use scalar indices in [-n, n+1]; scalar indices below -n are "
        "exercised as Python ints by the state machine (known finding, needs a process per call)",
        "comparisons: the other operand is a bond list (any atom count, any rows in range) or one of six foreign "
        "objects (None, int, str, set, tuple, ndarray; the reflected comparison is not asked of the ndarray)",
        "trusted: TLC, the TLA+ value parser, the projection (get_atom_count/as_array), numpy",
    ]
    # ---- S1 of the single-call model (BondCalls) runs beside the machine's S1 ------------
    import threading

    box = {}

    def _calls():
        try:
            box["prep"] = prepare_calls(ctx)
        except BaseException as e:  # noqa: BLE001 - re-raised in the main thread
            box["err"] = e
    th = threading.Thread(target=_calls, daemon=True)
    th.start()
    # ---- S1 + state graph ------------------------------------------------------------
    d = tlc.scratch_dir("c02")
    dotf = os.path.join(d, "g.dot")
    # the dot dump is only reliable with one worker (concurrent writers lose lines)
    if quick:
        res = ctx.tlc("BondList", "MC.cfg", stage="S1", dump_dot=dotf, workers=1, timeout=900)
    else:
        res = ctx.tlc("BondList", "MC_thorough.cfg", stage="S1", timeout=900)
        ctx.tlc("BondList", "MC_thorough.cfg", stage="S1-graph", dump_dot=dotf, workers=1,
                timeout=1800, count=False)
    ctx.exhaustive = True
    g = dot.load(dotf)
    if len(g.edges) == 0:
        raise RuntimeError("empty state graph")
    ops_seen = {}
    labels, lab_ix = [], {}
    for (_s, lab, _d) in g.edges:
        if lab not in lab_ix:
            name, args = dot.parse_label(lab)
            c = to_py(args[0])
            lab_ix[lab] = len(labels)
            labels.append(c)
        ops_seen[labels[lab_ix[lab]][1]] = ops_seen.get(labels[lab_ix[lab]][1], 0) + 1
    need = {"construct", "add", "remove", "remove_to", "remove_bonds", "merge", "concat", "rconcat",
            "offset", "strip_arom", "strip_order", "index", "get_bonds", "contains", "views", "copy",
            "independent", "eq"}
    missing = need - set(ops_seen)
    if missing:
        from harness.tlabind.core import Vacuity

        raise Vacuity(f"operations never taken in the state graph: {sorted(missing)}")
    ctx.cov["transitions_per_op"] = ops_seen
    # outcome vacuity: refusals must occur
    ocs = {}
    for nid in g.state_text:
        ocs[g.state(nid)["oc"]] = ocs.get(g.state(nid)["oc"], 0) + 1
    ctx.cov["states_per_outcome"] = ocs
    if not {"ok", "IndexError", "Rejected"} <= set(ocs):
        from harness.tlabind.core import Vacuity

        raise Vacuity(f"outcomes not all reached: {ocs}")
    # ---- S2 --------------------------------------------------------------------------
    limit = 25000 if quick else 150000
    paths, covered = dot.covering_paths(g, max_len=12, limit=limit, rng=ctx.rng)
    ids = {nid: k for k, nid in enumerate(g.state_text)}
    states = [None] * len(ids)
    for nid, k in ids.items():
        states[k] = _to_jsonable_state(g.state(nid))
    gfile = os.path.join(d, "graph.json")
    with open(gfile, "w") as f:
        json.dump({"states": states, "labels": labels}, f)
    items = [{"init": ids[root], "steps": [[lab_ix[lab], ids[dst]] for lab, dst in steps]}
             for root, steps in paths]
    ctx.log(f"S2: {len(items)} paths covering {covered}/{len(g.edges)} transitions")
    # S2b (every single call in every form, every comparison) shares the worker pool of S2: its
    # items are spread evenly between the paths
    th.join()
    if "err" in box:
        raise box["err"]
    prep = box["prep"]
    citems = prep["items"]
    every = max(1, len(items) // max(1, len(citems)))
    merged, where = [], []
    ci = 0
    for k, it in enumerate(items):
        if ci < len(citems) and k % every == 0:
            merged.append(citems[ci]); where.append(("c", ci)); ci += 1
        merged.append(it); where.append(("p", k))
    for j in range(ci, len(citems)):
        merged.append(citems[j]); where.append(("c", j))
    mres = pool.run_isolated("harness.drivers.c02:exec_item", merged, env={"C02_GRAPH": gfile},
                             item_timeout=60)
    results, cres = [None] * len(items), [None] * len(citems)
    for (kind, k), r in zip(where, mres):
        if kind == "p":
            results[k] = r
        else:
            cres[k] = r
    finish_calls(ctx, prep, cres)
    steps = 0
    for it, r in zip(items, results):
        if r and "crash" in r:
            r["kind"] = "crash"
        steps += (r or {}).get("steps", 0)
    # pool crash records need kind/progress for the classifier
    fixed = []
    for it, r in zip(items, results):
        if r is not None and "crash" in r:
            ctx.mismatch({"stage": "S2", "kind": "crash", "signal": r["crash"],
                          "progress": r.get("progress"),
                          "path": [labels[x][1:] for x, _ in it["steps"]],
                          "init": states[it["init"]]})
            fixed.append(None)
        else:
            fixed.append(r)
    ctx.check_results([r for r in fixed if r is not None],
                      [it for it, r in zip(items, fixed) if r is not None], "S2")
    ctx.traces_validated += len(items)
    ctx.evaluations += steps
    ctx.cov["s2_paths"] = len(items)
    ctx.cov["s2_steps_executed"] = steps
    ctx.cov["s2_transitions_covered"] = covered
    ctx.cov["s2_transitions_total"] = len(g.edges)
    ctx.nontrivial += sum(1 for it in items if len(it["steps"]) >= 2)
    for root, stp in paths[:3]:
        ctx.sample({"s2_path": [labels[lab_ix[lab]][1:] for lab, _ in stp]})
    # ---- S3 --------------------------------------------------------------------------
    ntr = 60 if quick else 1500
    length = 25 if quick else 40
    seeds = [ctx.rng.randrange(1 << 30) for _ in range(ntr)]
    titems = [{"seed": s, "length": length, "nmax": 12 if k % 3 else 30, "safe_only": (k % 4 != 0)}
              for k, s in enumerate(seeds)]
    tres = pool.run_isolated("harness.drivers.c02:gen_trace", titems, item_timeout=60)
    traces = []
    for it, r in zip(titems, tres):
        if "driver_error" in r:
            raise RuntimeError(f"S3 driver error: {r['driver_error']}\n{r.get('tb','')}")
        if "crash" in r:
            ctx.mismatch({"stage": "S3", "kind": "crash", "signal": r["crash"],
                          "progress": r.get("progress"), "item": it})
            continue
        if r["events"]:
            traces.append(r["events"])
    validate_traces(ctx, traces)
    validate_repo_tests(ctx)
    # binding self-test: a corrupted trace must be rejected
    if traces:
        bad = json.loads(json.dumps(traces[:3]))
        tampered = 0
        for tr in bad:
            for e in tr:
                if e["oc"] == "ok" and e["bonds"]:
                    e["bonds"][0][2] = (e["bonds"][0][2] + 1) % 10
                    tampered += 1
                    break
        if tampered:
            mm = validate_traces(ctx, bad, selftest=True)
            if mm < tampered:
                from harness.tlabind.core import Vacuity

                raise Vacuity(f"binding self-test: {tampered} corrupted traces, only {mm} rejected")
            ctx.cov["selftest_corrupted_rejected"] = mm


def _forms_of(op, a):
    """(family, form) pairs a case of BondCalls exercises."""
    if op == "index":
        return [(a[0][0], a[0][2])]
    if op in ("add", "remove", "contains"):
        return [("scalar", f) for f in a[-1]]
    if op in ("get_bonds", "remove_to", "offset"):
        return [("scalar", a[1])]
    if op == "construct":
        return [("rows", a[2])]
    return []


def prepare_calls(ctx):
    """S1 + the work items of S2b on specs/C02/BondCalls.tla: TLC enumerates (root list, one call) with the
    arguments in every form and every comparison of the root with its variants, checks the laws
    (form independence, bl[i] = get_bonds(i), equality = agreement of all views) and dumps the
    cases; all of them are executed against the real BondList."""
    from harness.tlabind.core import Vacuity
    from harness.tlabind.helpers import chunked, dump_states

    cfg = "MC_calls.cfg" if ctx.quick else "MC_calls_thorough.cfg"
    _res, states = dump_states(ctx, "BondCalls", cfg, stage="S1-calls", workers=8, timeout=1500)
    roots = {}
    forms_seen, eq_seen, ocs = {}, {}, {}
    ncases = 0
    for st in states:
        c, r = st["c"], st["r"]
        if c["op"] == "init":
            continue
        key = (c["fam"], c["n"], json.dumps(c["B"]))
        exp = {"oc": r["oc"], "n": r["n"], "B": r["B"], "out": r["out"]}
        roots.setdefault(key, []).append([c["op"], c["a"], exp])
        ncases += 1
        ocs[r["oc"]] = ocs.get(r["oc"], 0) + 1
        for fam_form in _forms_of(c["op"], c["a"]):
            k = "%s:%s" % fam_form
            forms_seen[k] = forms_seen.get(k, 0) + (1 if r["oc"] == "ok" else 0)
        if c["op"] == "eq":
            k = "%s:%s" % (c["a"][0], "equal" if r["out"]["eq"] else "unequal")
            eq_seen[k] = eq_seen.get(k, 0) + 1
    # vacuity: every form of the specification is exercised by a call that the specification
    # accepts, and the comparisons cover both answers / every kind of variant
    want = ([("int", f) for f in SCALAR_FORMS] + [("scalar", f) for f in SCALAR_FORMS]
            + [("arr", f) for f in ARRAY_FORMS] + [("mask", f) for f in MASK_FORMS]
            + [("slice", f) for f in SLICE_FORMS] + [("rows", f) for f in ROWS_FORMS])
    missing = ["%s:%s" % w for w in want if not forms_seen.get("%s:%s" % w)]
    want_eq = ["same:equal", "rev:equal", "dup:equal", "retype:equal", "retype:unequal", "natoms:unequal",
               "drop:unequal", "extra:unequal", "obj:unequal", "list:equal", "list:unequal"]
    missing += [k for k in want_eq if not eq_seen.get(k)]
    if missing:
        raise Vacuity(f"BondCalls: forms / comparisons never exercised by an accepted call: {missing}")
    if not {"ok", "IndexError", "Rejected"} <= set(ocs):
        raise Vacuity(f"BondCalls: outcomes not all reached: {ocs}")
    items = []
    for (fam, n, Bj), cases in sorted(roots.items()):
        for ch in chunked(cases, 150):
            items.append({"fam": fam, "n": n, "B": json.loads(Bj), "cases": ch})
    ctx.log(f"S2b: {ncases} single calls on {len(roots)} root lists in {len(items)} items")
    return {"items": items, "roots": roots, "ncases": ncases, "forms_seen": forms_seen, "eq_seen": eq_seen,
            "ocs": ocs}


def finish_calls(ctx, prep, results):
    """Verdicts and measured numbers of S2b (results in the order of prep["items"])."""
    items, roots, ncases = prep["items"], prep["roots"], prep["ncases"]
    forms_seen, eq_seen, ocs = prep["forms_seen"], prep["eq_seen"], prep["ocs"]
    done = 0
    for it, r in zip(items, results):
        if r is None:
            raise RuntimeError("S2b: missing result")
        if "driver_error" in r:
            raise RuntimeError(f"S2b: driver error {r['driver_error']}\n{r.get('tb', '')}")
        if "crash" in r:
            pr = r.get("progress") or {}
            ctx.mismatch({"stage": "S2b", "kind": "crash", "signal": r["crash"], "progress": pr,
                          "path": [[pr.get("op"), pr.get("a")]], "init": {"n": it["n"], "B": it["B"]}})
            continue
        done += r.get("steps", 0)
        for mm in r.get("mismatch", ()):
            mm["stage"] = "S2b"
            ctx.mismatch(mm)
    ctx.traces_validated += len(items)
    ctx.evaluations += done
    ctx.nontrivial += sum(1 for cases in roots.values() for op, a, _e in cases
                          if op == "eq" or any(f not in ("py", "np") for _k, f in _forms_of(op, a)))
    ctx.cov["rule"] = ("non-trivial = an S2 path of at least two calls, an S2b case that compares two lists or "
                       "hands an argument over in a form other than a Python int / plain ndarray, an S3 "
                       "history with at least two accepted calls")
    ctx.cov["s2b_cases"] = ncases
    ctx.cov["s2b_cases_executed"] = done
    ctx.cov["s2b_roots"] = len(roots)
    ctx.cov["s2b_accepted_calls_per_form"] = forms_seen
    ctx.cov["s2b_comparisons"] = eq_seen
    ctx.cov["s2b_outcomes"] = ocs
    for key in sorted(roots)[:1]:
        ctx.sample({"s2b_case": roots[key][0][:2], "root": [key[1], json.loads(key[2])]})


def validate_repo_tests(ctx):
    """S3b: BondList calls made by the repository's own tests (bonds, atoms, filter), recorded
    by a pytest plugin installed from outside and judged event by event by TLC."""
    import subprocess

    from harness.tlabind import tlc
    from harness.tlabind.helpers import tlc_validate

    d = tlc.scratch_dir("c02rec")
    rec = os.path.join(d, "rec.json")
    env = dict(os.environ, PYTHONPATH=tlc.VERIF + os.pathsep + os.environ.get("PYTHONPATH", ""),
               C02_RECORD_FILE=rec)
    tests = ["tests/structure/test_bonds.py", "tests/structure/test_atoms.py", "tests/structure/test_filter.py",
             "tests/structure/test_molecules.py"]
    subprocess.run(["/venv/bin/python", "-m", "pytest", "-q", "-p", "no:cacheprovider", "-p",
                    "harness.recorders.c02_recorder"] + tests,
                   cwd="/repo", env=env, stdout=subprocess.DEVNULL, stderr=subprocess.DEVNULL, timeout=900)
    if not os.path.exists(rec):
        ctx.note("repository-test recorder produced no file (pytest could not start); stage skipped")
        return
    with open(rec) as f:
        data = json.load(f)
    events = data["events"]
    ctx.cov["repo_test_events"] = len(events)
    ctx.cov["repo_test_events_skipped"] = data["skipped"]
    if not events:
        return
    mms = tlc_validate(ctx, [events], module="TraceEv", cfg="TraceEv.cfg", stage="S3-repo-tests")
    for m in mms:
        _tag, _tid, l, flags, eoc, en, eB, eout = m
        e = events[l - 1]
        ctx.mismatch({"stage": "S3-repo-tests", "kind": "event", "op": e["op"], "a": e["a"],
                      "n_before": e["pre"]["n"], "event": l, "flags_ok(oc,n,B,out,cache)": flags,
                      "expected": {"oc": eoc, "n": en, "B": eB, "out": eout},
                      "observed": {"oc": e["oc"], "n": e["n"], "B": e["bonds"], "out": e["out"]},
                      "history": [["construct", [e["pre"]["n"], e["pre"]["bonds"]]], [e["op"], e["a"]]]})
    ctx.traces_validated += 1
    ctx.evaluations += len(events)


def validate_traces(ctx, traces, selftest=False):
    """TLC validates recorded traces; returns number of mismatching events."""
    from harness.tlabind import tlc
    from harness.tlabind.tlaval import parse_value, to_py

    if not traces:
        return 0
    d = tlc.scratch_dir("c02tr")
    tf = os.path.join(d, "traces.json")
    with open(tf, "w") as f:
        json.dump([[{k: e[k] for k in ("op", "a", "oc", "n", "bonds", "out", "cmax_ok")}
                    for e in tr] for tr in traces], f)
    res = ctx.tlc("Trace", "Trace.cfg", stage="S3-selftest" if selftest else "S3", workers=1,
                  env={"TRACE_FILE": tf}, count=not selftest, timeout=1200)
    expect_states = sum(len(t) + 1 for t in traces)
    if res.distinct != expect_states:
        raise RuntimeError(f"trace validation consumed {res.distinct} states, expected {expect_states}")
    outside = tlc.printed_values(res.out, "DOMAIN")
    if outside:
        raise RuntimeError(f"S3: the driver logged calls outside the specification's domain: {outside[:3]}")
    mms = tlc.printed_values(res.out, "MISMATCH")
    if selftest:
        return len(mms)
    nev = sum(len(t) for t in traces)
    ctx.traces_validated += len(traces)
    ctx.evaluations += nev
    ctx.cov["s3_traces"] = len(traces)
    ctx.cov["s3_events"] = nev
    ctx.nontrivial += sum(1 for t in traces if sum(1 for e in t if e["oc"] == "ok") >= 2)
    ctx.sample({"s3_events": traces[0][:2]})
    for txt in mms:
        v = to_py(parse_value(txt))
        _tag, tid, l, flags, eoc, en, eB, eout = v
        e = traces[tid - 1][l - 1]
        ctx.mismatch({"stage": "S3", "kind": "event", "op": e["op"], "a": e["a"],
                      "n_before": e["n_before"], "trace": tid, "event": l,
                      "flags_ok(oc,n,B,out,cache)": flags,
                      "expected": {"oc": eoc, "n": en, "B": eB, "out": eout},
                      "observed": {"oc": e["oc"], "n": e["n"], "B": e["bonds"], "out": e["out"]},
                      "history": [[x["op"], x["a"]] for x in traces[tid - 1][:l]]})
    return len(mms)


def replay(record):
    """Re-execute a stored mismatch against the current code."""
    def out_differs(last, exp):
        return (last["oc"] == "ok" and exp["oc"] == "ok"
                and not out_matches(last["op"], last["a"], exp["out"], last["out"]))

    if record.get("kind") in ("step", "call"):
        bl = make(record["init"]["n"], record["init"]["B"])
        last = None
        for op, a in record["path"]:
            bl, oc, out = apply_real(bl, op, a)
            n, bonds, cok = project(bl)
            last = {"op": op, "a": a, "oc": oc, "n": n, "B": bonds, "out": out, "cache_ok": cok}
        exp = record["expected"]
        bad = (last["oc"] != exp["oc"] or last["n"] != exp["n"] or _sset(last["B"]) != _sset(exp["B"])
               or not last["cache_ok"] or out_differs(last, exp))
        return {"last": last, "expected": exp, "mismatch": bad}
    if record.get("kind") == "event":
        from biotite.structure import BondList

        bl = BondList(0)
        last = None
        for op, a in record["history"]:
            bl, oc, out = apply_real(bl, op, a)
            n, bonds, _ = project(bl)
            last = {"op": op, "a": a, "oc": oc, "n": n, "B": bonds, "out": out}
        exp = record["expected"]
        bad = (last["oc"] != exp["oc"] or last["n"] != exp["n"] or _sset(last["B"]) != _sset(exp["B"])
               or out_differs(last, exp))
        return {"last": last, "expected": exp, "mismatch": bad}
    return {"error": "record kind not replayable in-process (crash records: run the path in a child)",
            "record": record}


MANIFEST = {
    "technique": "TLA+ state machine of BondList (specs/C02) model-checked by TLC; every transition of TLC's state graph replayed into the real BondList; every single call in every argument form and every comparison enumerated by TLC and executed; recorded random histories validated by TLC",
    "level_text": "TLC explores every reachable state of the bond-list machine for <=3 atoms / 3 bond types under all 17 operations (incl. == / != against every one-aspect variant of the current list, the operand lists and foreign objects) with in- and out-of-range indices (invariants: canonical mapping, cache soundness, refusal is a no-op), then every transition of that graph is executed against the real BondList in crash-isolated processes comparing atom count, bond set, outcome class and returned views. A second exhaustive model (BondCalls) enumerates one call on root lists of 0..4 atoms with its arguments in every form a caller may use (Python int / numpy integer scalars int8..uint64, lists, integer ndarrays of every dtype, byte order and layout, bool arrays, lists of bools, strided views, slices with numpy bounds, constructor arrays of every dtype / order) and the comparison of every list of <=3 atoms with every variant differing in atom count, one bond type, one bond, or only in the way the rows are written; TLC proves form independence, bl[i] = get_bonds(i) and equality = agreement of all views, and all cases are executed against the real code. Larger lists (<=30 atoms, all 10 bond types, unsorted index arrays, stepped slices, random forms, comparisons with variants of the real list) are covered by recorded histories that TLC re-computes event by event. concatenate() receives its operands in turn as list, tuple, generator, one-shot iterator and dict view.",
    "level_note": "Bounded: exhaustive only for n<=3 atoms and types {0,1,5} (single calls: n<=4, thorough n<=5); beyond that only recorded histories. Self-bonds and ill-formed masks are outside the domain. Trusted: TLC, the TLA+ value parser, numpy, the projection get_atom_count()/as_array(). Cython is unavailable, so a defect in bonds.pyx can only be recorded as a known finding.",
}
