"""C02 — BondList as a set of undirected typed bonds with safe indices.

S1  TLC checks specs/C02/BondList.tla (all reachable states of the bounded machine).
S2  every transition of TLC's state graph is replayed against the real BondList
    (paths from the initial state; after each call n / as_set / outcome / returned value are
    compared with the spec state).
S3  random histories on larger lists are recorded and validated by TLC (specs/C02/Trace.tla).
"""

from __future__ import annotations

import json
import os
import random

PROPERTY = "C02"

_G = None  # graph tables, loaded lazily in children


# --------------------------------------------------------------------------- real-side ops
def _np():
    import numpy as np

    return np


def to_index(x):
    """Spec index object -> Python/numpy index."""
    np = _np()
    kind, p = x[0], x[1]
    if kind == "int":
        return int(p[0])
    if kind == "slice":
        a, b, c = [None if len(o) == 0 else int(o[0]) for o in p]
        return slice(a, b, c)
    if kind == "mask":
        m = np.array([bool(v) for v in p], dtype=bool)
        if len(x) > 2 and x[2] == "strided":
            # the same mask as a non-contiguous view (every second element of a doubled array):
            # numpy accepts it as an index like any other boolean array
            m = np.repeat(m, 2)[::2]
        return m
    if kind == "arr":
        return np.array([int(v) for v in p], dtype=np.int64)
    if kind == "all":
        return slice(None)
    raise ValueError(kind)


def make(n, rows):
    from biotite.structure import BondList

    np = _np()
    if len(rows) == 0:
        return BondList(int(n))
    return BondList(int(n), np.array(rows, dtype=np.int64).reshape(-1, 3))


def nbrs(res):
    b, t = res
    return [[int(x), int(y)] for x, y in zip(b.tolist(), t.tolist())]


def views(bl):
    np = _np()
    n = bl.get_atom_count()
    ab, at = bl.get_all_bonds()
    nb = []
    for i in range(n):
        row = [[int(b), int(t)] for b, t in zip(ab[i].tolist(), at[i].tolist()) if b != -1]
        nb.append(row)
    adj = bl.adjacency_matrix()
    tm = bl.bond_type_matrix()
    arr = bl.as_array()
    g = bl.as_graph()
    graph = []
    for i, j, d in g.edges(data=True):
        i, j = int(i), int(j)
        graph.append([min(i, j), max(i, j), int(d["bond_type"])])
    cp = bl.copy()
    eqcopy = bool(cp == bl) and bool(bl == cp) and cp is not bl
    return {
        "nb": nb,
        "adj": [[int(i), int(j)] for i, j in zip(*np.nonzero(adj))],
        "tm": [[int(i), int(j), int(tm[i, j])] for i, j in zip(*np.nonzero(tm != -1))],
        "set": [[int(a), int(b), int(c)] for a, b, c in arr.tolist()],
        "graph": graph,
        "eqcopy": eqcopy,
        "cnt": int(bl.get_bond_count()),
    }


def apply_real(bl, op, a):
    """Returns (bl', oc, out). Exceptions are mapped to outcomes."""
    from biotite.structure import BondList

    out = []
    try:
        if op == "construct":
            bl = make(a[0], a[1])
        elif op == "add":
            bl.add_bond(int(a[0]), int(a[1]), int(a[2]))
        elif op == "remove":
            bl.remove_bond(int(a[0]), int(a[1]))
        elif op == "remove_to":
            bl.remove_bonds_to(int(a[0]))
        elif op == "remove_bonds":
            bl.remove_bonds(make(a[0], a[1]))
        elif op == "merge":
            bl = bl.merge(make(a[0], a[1]))
        elif op == "concat":
            bl = bl + make(a[0], a[1])
        elif op == "rconcat":
            bl = BondList.concatenate([make(a[0], a[1]), bl])
        elif op == "offset":
            bl.offset_indices(int(a[0]))
        elif op == "strip_arom":
            bl.remove_aromaticity()
        elif op == "strip_order":
            bl.remove_bond_order()
        elif op == "index":
            r = bl[to_index(a[0])]
            if a[0][0] == "int":
                out = nbrs(r)
            else:
                bl = r
        elif op == "get_bonds":
            out = nbrs(bl.get_bonds(int(a[0])))
        elif op == "contains":
            out = bool((int(a[0]), int(a[1])) in bl)
        elif op == "independent":
            how, x = a
            if how == "index":
                d = bl[to_index(x)]
            elif how == "merge":
                d = bl.merge(make(x[0], x[1]))
            elif how == "concat":
                d = bl + make(x[0], x[1])
            else:
                d = bl.copy()
            out = _independent(bl, d)
        elif op == "views":
            out = views(bl)
        elif op == "copy":
            c = bl.copy()
            if c is bl:
                raise AssertionError("copy returned self")
            bl = c
        else:
            raise ValueError(op)
        return bl, "ok", out
    except IndexError:
        return bl, "IndexError", []
    except (ValueError, TypeError, NotImplementedError, OverflowError, MemoryError) as e:
        return bl, "Rejected", []


def _poke(b):
    """In-place writes through the public API."""
    n = b.get_atom_count()
    b.remove_bond_order()
    if n >= 2:
        b.add_bond(0, n - 1, 7)
        b.remove_bonds_to(n // 2)
    b.offset_indices(1)


def _independent(src, derived):
    """src and derived must be distinct objects sharing no state: write into a copy of the
    derived object's *identity* (the object itself), look at the source, and the other way
    round.  The source is restored from a snapshot afterwards."""
    if derived is src:
        return "same-object"
    snap_src = src.copy()
    before_src = (src.get_atom_count(), _sset(src.as_array().tolist()))
    _poke(derived)
    after_src = (src.get_atom_count(), _sset(src.as_array().tolist()))
    if before_src != after_src:
        # undo the damage on the real source so that the rest of the path is meaningful
        src._bonds = snap_src._bonds
        src._atom_count = snap_src._atom_count
        return "source-changed-by-writing-into-derived"
    before_d = (derived.get_atom_count(), _sset(derived.as_array().tolist()))
    _poke(src)
    after_d = (derived.get_atom_count(), _sset(derived.as_array().tolist()))
    src._bonds = snap_src._bonds
    src._atom_count = snap_src._atom_count
    src._max_bonds_per_atom = snap_src._max_bonds_per_atom
    if before_d != after_d:
        return "derived-changed-by-writing-into-source"
    return "independent"


def project(bl):
    np = _np()
    n = int(bl.get_atom_count())
    arr = bl.as_array()
    bonds = [[int(x), int(y), int(z)] for x, y, z in arr.tolist()]
    cmax_ok = True
    c = getattr(bl, "_max_bonds_per_atom", None)
    if c is not None and len(bonds) and n > 0:
        cnt = np.zeros(max(n, int(arr[:, :2].max()) + 1 if len(arr) else 0), dtype=np.int64)
        np.add.at(cnt, arr[:, 0].astype(np.int64), 1)
        np.add.at(cnt, arr[:, 1].astype(np.int64), 1)
        cmax_ok = bool(int(c) >= int(cnt.max()))
    return n, bonds, cmax_ok


def _sset(rows):
    return sorted(map(tuple, rows))


def _nodup(rows):
    return len(set(map(tuple, rows))) == len(rows)


def out_matches(op, a, exp, got):
    """exp: spec value in to_py form (sets = sorted lists); got: real-side value."""
    if op == "get_bonds" or (op == "index" and a[0][0] == "int"):
        return _sset(got) == _sset(exp) and _nodup(got)
    if op == "contains":
        return bool(got) == bool(exp)
    if op == "independent":
        return got == exp
    if op == "views":
        if len(got["nb"]) != len(exp["nb"]):
            return False
        for g, e in zip(got["nb"], exp["nb"]):
            if _sset(g) != _sset(e) or not _nodup(g):
                return False
        return (_sset(got["adj"]) == _sset(exp["adj"]) and _sset(got["tm"]) == _sset(exp["tm"])
                and _sset(got["set"]) == _sset(exp["set"]) and _nodup(got["set"])
                and _sset(got["graph"]) == _sset(exp["graph"])
                and got["eqcopy"] == exp["eqcopy"] and got["cnt"] == exp["cnt"])
    return True


# --------------------------------------------------------------------------- S2 child
def _graph():
    global _G
    if _G is None:
        with open(os.environ["C02_GRAPH"]) as f:
            _G = json.load(f)
    return _G


def warmup():
    import biotite.structure  # noqa: F401
    import networkx  # noqa: F401

    if "C02_GRAPH" in os.environ:
        _graph()


def exec_path(item):
    from harness.tlabind.pool import in_fork, progress

    G = _graph()
    states, labels = G["states"], G["labels"]
    st = states[item["init"]]
    bl = make(st["n"], [list(b) for b in st["B"]])
    mism = []
    nsteps = 0
    for li, dst in item["steps"]:
        _k, op, a = labels[li]
        exp = states[dst]
        n_before = bl.get_atom_count()
        progress({"op": op, "a": a, "n_before": n_before, "exp_oc": exp["oc"]})
        nsteps += 1
        if exp["oc"] != "ok":
            # A call the specification refuses must leave the object unchanged. It is tried in
            # a forked copy of this process, so that even a native crash costs only this step
            # and the rest of the path is still replayed on the intact object.
            def attempt(bl=bl, op=op, a=a):
                b2, oc_, out_ = apply_real(bl, op, a)
                return [oc_, out_, list(project(b2))]
            r = in_fork(attempt)
            if isinstance(r, dict) and "crash" in r:
                mism.append({"kind": "crash", "signal": r["crash"], "progress":
                             {"op": op, "a": a, "n_before": n_before, "exp_oc": exp["oc"]},
                             "path": [labels[x][1:] for x, _ in item["steps"][:nsteps]],
                             "init": {"n": st["n"], "B": st["B"]}})
                continue
            oc, out, (n, bonds, cmax_ok) = r
            bl2 = bl
        else:
            bl2, oc, out = apply_real(bl, op, a)
            n, bonds, cmax_ok = project(bl2)
        bad = []
        if oc != exp["oc"]:
            bad.append("oc")
        if n != exp["n"]:
            bad.append("n")
        if _sset(bonds) != _sset(exp["B"]) or not _nodup(bonds):
            bad.append("B")
        if not cmax_ok:
            bad.append("cache")
        if oc == "ok" and exp["oc"] == "ok" and not out_matches(op, a, exp["out"], out):
            bad.append("out")
        if bad:
            mism.append({"kind": "step", "op": op, "a": a, "n_before": n_before, "bad": bad,
                         "expected": {"oc": exp["oc"], "n": exp["n"], "B": exp["B"], "out": exp["out"]},
                         "observed": {"oc": oc, "n": n, "B": bonds, "out": out},
                         "path": [labels[x][1:] for x, _ in item["steps"][:nsteps]],
                         "init": {"n": st["n"], "B": st["B"]}})
            if exp["oc"] != "ok":
                continue  # refused call judged in a fork; our object is still the pre-state
            break  # the real object has diverged; the rest of the path proves nothing
        bl = bl2
    return {"mismatch": mism, "steps": nsteps}


# --------------------------------------------------------------------------- S3 child
def _rand_index(rng, n):
    k = rng.random()
    if k < 0.15:
        return ["int", [rng.randint(-n - 2, n + 1)]]
    if k < 0.45:
        def c(lo, hi):
            return [] if rng.random() < 0.3 else [rng.randint(lo, hi)]
        step = [] if rng.random() < 0.4 else [rng.choice([-3, -2, -1, 1, 2, 3])]
        return ["slice", [c(-n - 2, n + 2), c(-n - 2, n + 2), step]]
    if k < 0.65:
        return ["mask", [rng.random() < 0.6 for _ in range(n)]]
    if k < 0.95:
        m = rng.randint(0, n)
        pool = list(range(n))
        rng.shuffle(pool)
        arr = [p if rng.random() < 0.5 else p - n for p in pool[:m]]
        r = rng.random()
        if r < 0.1 and n > 0:
            arr.append(rng.choice([n, n + 1, -n - 1]))      # out of range
        elif r < 0.18 and arr:
            arr.append(arr[0])                               # duplicate
        return ["arr", arr]
    return ["all", []]


def _rand_rows(rng, n, k):
    rows = []
    if n < 2:
        return rows
    for _ in range(k):
        i = rng.randrange(n)
        j = rng.randrange(n)
        if i == j:
            continue
        if rng.random() < 0.3:
            i -= n
        if rng.random() < 0.3:
            j -= n
        rows.append([i, j, rng.randint(0, 9)])
    return rows


def gen_trace(item):
    """Run a random history against the real BondList and log it."""
    from harness.tlabind.pool import progress

    rng = random.Random(item["seed"])
    nmax = item.get("nmax", 12)
    safe_only = item.get("safe_only", False)  # never pass an index below -n (crash-prone)
    n0 = rng.randint(0, nmax)
    events = []
    bl = None
    for step in range(item["length"]):
        n = 0 if bl is None else int(bl.get_atom_count())
        if bl is None:
            op, a = "construct", [n0, _rand_rows(rng, n0, rng.randint(0, 2 * n0))]
        else:
            op = rng.choice(["add", "add", "add", "remove", "remove_to", "remove_bonds", "merge",
                             "concat", "rconcat", "offset", "strip_arom", "strip_order", "index",
                             "index", "get_bonds", "contains", "views", "copy", "construct", "independent"])
            lo = -n if safe_only else -n - 2
            if op == "construct":
                m = rng.randint(0, nmax)
                a = [m, _rand_rows(rng, m, rng.randint(0, 2 * m))]
            elif op in ("add", "remove"):
                i, j = rng.randint(lo, n + 1), rng.randint(lo, n + 1)
                if n > 0 and -n <= i < n and -n <= j < n and i % n == j % n:
                    continue
                a = [i, j] + ([rng.randint(0, 9)] if op == "add" else [])
            elif op in ("remove_to", "get_bonds"):
                a = [rng.randint(lo, n + 1)]
            elif op in ("remove_bonds", "merge", "concat", "rconcat"):
                m = rng.randint(0, min(nmax, 6)) if op != "remove_bonds" else n
                if op in ("concat", "rconcat") and n + m > 3 * nmax:
                    continue
                a = [m, _rand_rows(rng, m, rng.randint(0, m + 1))]
            elif op == "offset":
                a = [rng.choice([-1, 0, 1, 2])]
                if n + a[0] > 3 * nmax:
                    continue
            elif op == "index":
                a = [_rand_index(rng, n)]
                if safe_only and a[0][0] == "int" and a[0][1][0] < -n:
                    continue
                if a[0][0] == "mask" and rng.random() < 0.3:
                    a[0] = a[0] + ["strided"]     # realisation detail: a non-contiguous view
            elif op == "independent":
                how = rng.choice(["index", "index", "merge", "concat", "copy"])
                if how == "index":
                    x = _rand_index(rng, n)
                    if x[0] == "int" or (x[0] == "mask" and rng.random() < 0.4):
                        x = ["mask", [True] * n]
                    a = [how, x]
                elif how == "copy":
                    a = [how, []]
                else:
                    m = rng.randint(0, 5)
                    a = [how, [m, _rand_rows(rng, m, rng.randint(0, m + 1))]]
            elif op == "contains":
                if n < 2:
                    continue
                i, j = rng.sample(range(n), 2)
                a = [i, j]
            else:
                a = []
        progress({"op": op, "a": a, "n_before": n, "events": len(events)})
        if bl is None:
            from biotite.structure import BondList

            bl = BondList(0)
        bl, oc, out = apply_real(bl, op, a)
        nn, bonds, cmax_ok = project(bl)
        events.append({"op": op, "a": a, "oc": oc, "n": nn, "bonds": bonds, "out": out,
                       "cmax_ok": cmax_ok, "n_before": n})
        if any(b[1] >= nn or b[0] < 0 for b in bonds):
            break  # corrupted object: stop the history here (the event itself is judged)
    return {"events": events}


# --------------------------------------------------------------------------- classification
def _below(a, n):
    return [x for x in a if isinstance(x, int) and not isinstance(x, bool) and x < -n]


def classify(mm):
    """Known findings: C02-index-below-minus-n (scalar atom index < -n is not rejected) and
    C02-noncontiguous-mask (a boolean mask that is a strided view is refused)."""
    if (mm.get("kind") == "event" and mm.get("op") == "index" and mm.get("a") and mm["a"][0][0] == "mask"
            and len(mm["a"][0]) > 2 and mm["a"][0][2] == "strided"
            and mm.get("expected", {}).get("oc") == "ok" and mm.get("observed", {}).get("oc") == "Rejected"):
        return "C02-noncontiguous-mask"
    rec = None
    if mm.get("kind") == "crash":
        rec = mm.get("progress") or {}
    elif mm.get("kind") in ("step", "event"):
        rec = mm
    if not rec:
        return None
    op, a, n = rec.get("op"), rec.get("a"), rec.get("n_before")
    if op is None or n is None:
        return None
    scal = None
    if op in ("add", "remove"):
        scal = a[:2]
    elif op in ("remove_to", "get_bonds"):
        scal = a[:1]
    elif op == "index" and a and a[0][0] == "int":
        scal = list(a[0][1])
    if scal and _below(scal, n):
        if mm.get("kind") == "crash":
            return "C02-index-below-minus-n"
        exp = mm.get("expected", {})
        if exp.get("oc") == "IndexError" and mm.get("observed", {}).get("oc") != "IndexError":
            return "C02-index-below-minus-n"
    return None


# --------------------------------------------------------------------------- orchestration
def _to_jsonable_state(st):
    from harness.tlabind.tlaval import to_py

    return {"n": st["n"], "B": to_py(st["B"]), "oc": st["oc"], "out": to_py(st["out"]),
            "cmax": st["cmax"]}


def run(ctx):
    from harness.tlabind import dot, pool, tlc
    from harness.tlabind.tlaval import to_py

    quick = ctx.quick
    ctx.assumptions += [
        "a bond joins two distinct atoms (self-bonds i=i are outside the domain)",
        "boolean masks have exactly n entries; bond types are 0..9",
        "exhaustive model: atom count <= 3, bond types {0,1,5}; larger lists only through recorded traces",
        "trusted: TLC, the TLA+ value parser, the projection (get_atom_count/as_array), numpy",
    ]
    # ---- S1 + state graph ------------------------------------------------------------
    d = tlc.scratch_dir("c02")
    dotf = os.path.join(d, "g.dot")
    # the dot dump is only reliable with one worker (concurrent writers lose lines)
    if quick:
        res = ctx.tlc("BondList", "MC.cfg", stage="S1", dump_dot=dotf, workers=1, timeout=900)
    else:
        res = ctx.tlc("BondList", "MC_thorough.cfg", stage="S1", timeout=900)
        ctx.tlc("BondList", "MC_thorough.cfg", stage="S1-graph", dump_dot=dotf, workers=1,
                timeout=1800, count=False)
    ctx.exhaustive = True
    g = dot.load(dotf)
    if len(g.edges) == 0:
        raise RuntimeError("empty state graph")
    ops_seen = {}
    labels, lab_ix = [], {}
    for (_s, lab, _d) in g.edges:
        if lab not in lab_ix:
            name, args = dot.parse_label(lab)
            c = to_py(args[0])
            lab_ix[lab] = len(labels)
            labels.append(c)
        ops_seen[labels[lab_ix[lab]][1]] = ops_seen.get(labels[lab_ix[lab]][1], 0) + 1
    need = {"construct", "add", "remove", "remove_to", "remove_bonds", "merge", "concat", "rconcat",
            "offset", "strip_arom", "strip_order", "index", "get_bonds", "contains", "views", "copy",
            "independent"}
    missing = need - set(ops_seen)
    if missing:
        from harness.tlabind.core import Vacuity

        raise Vacuity(f"operations never taken in the state graph: {sorted(missing)}")
    ctx.cov["transitions_per_op"] = ops_seen
    # outcome vacuity: refusals must occur
    ocs = {}
    for nid in g.state_text:
        ocs[g.state(nid)["oc"]] = ocs.get(g.state(nid)["oc"], 0) + 1
    ctx.cov["states_per_outcome"] = ocs
    if not {"ok", "IndexError", "Rejected"} <= set(ocs):
        from harness.tlabind.core import Vacuity

        raise Vacuity(f"outcomes not all reached: {ocs}")
    # ---- S2 --------------------------------------------------------------------------
    limit = 25000 if quick else 150000
    paths, covered = dot.covering_paths(g, max_len=12, limit=limit, rng=ctx.rng)
    ids = {nid: k for k, nid in enumerate(g.state_text)}
    states = [None] * len(ids)
    for nid, k in ids.items():
        states[k] = _to_jsonable_state(g.state(nid))
    gfile = os.path.join(d, "graph.json")
    with open(gfile, "w") as f:
        json.dump({"states": states, "labels": labels}, f)
    items = [{"init": ids[root], "steps": [[lab_ix[lab], ids[dst]] for lab, dst in steps]}
             for root, steps in paths]
    ctx.log(f"S2: {len(items)} paths covering {covered}/{len(g.edges)} transitions")
    results = pool.run_isolated("harness.drivers.c02:exec_path", items, env={"C02_GRAPH": gfile},
                                item_timeout=20)
    steps = 0
    for it, r in zip(items, results):
        if r and "crash" in r:
            r["kind"] = "crash"
        steps += (r or {}).get("steps", 0)
    # pool crash records need kind/progress for the classifier
    fixed = []
    for it, r in zip(items, results):
        if r is not None and "crash" in r:
            ctx.mismatch({"stage": "S2", "kind": "crash", "signal": r["crash"],
                          "progress": r.get("progress"),
                          "path": [labels[x][1:] for x, _ in it["steps"]],
                          "init": states[it["init"]]})
            fixed.append(None)
        else:
            fixed.append(r)
    ctx.check_results([r for r in fixed if r is not None],
                      [it for it, r in zip(items, fixed) if r is not None], "S2")
    ctx.traces_validated += len(items)
    ctx.evaluations += steps
    ctx.cov["s2_paths"] = len(items)
    ctx.cov["s2_steps_executed"] = steps
    ctx.cov["s2_transitions_covered"] = covered
    ctx.cov["s2_transitions_total"] = len(g.edges)
    ctx.nontrivial += sum(1 for it in items if len(it["steps"]) >= 2)
    for root, stp in paths[:3]:
        ctx.sample({"s2_path": [labels[lab_ix[lab]][1:] for lab, _ in stp]})
    # ---- S3 --------------------------------------------------------------------------
    ntr = 60 if quick else 1500
    length = 25 if quick else 40
    seeds = [ctx.rng.randrange(1 << 30) for _ in range(ntr)]
    titems = [{"seed": s, "length": length, "nmax": 12 if k % 3 else 30, "safe_only": (k % 4 != 0)}
              for k, s in enumerate(seeds)]
    tres = pool.run_isolated("harness.drivers.c02:gen_trace", titems, item_timeout=60)
    traces = []
    for it, r in zip(titems, tres):
        if "driver_error" in r:
            raise RuntimeError(f"S3 driver error: {r['driver_error']}\n{r.get('tb','')}")
        if "crash" in r:
            ctx.mismatch({"stage": "S3", "kind": "crash", "signal": r["crash"],
                          "progress": r.get("progress"), "item": it})
            continue
        if r["events"]:
            traces.append(r["events"])
    validate_traces(ctx, traces)
    validate_repo_tests(ctx)
    # binding self-test: a corrupted trace must be rejected
    if traces:
        bad = json.loads(json.dumps(traces[:3]))
        tampered = 0
        for tr in bad:
            for e in tr:
                if e["oc"] == "ok" and e["bonds"]:
                    e["bonds"][0][2] = (e["bonds"][0][2] + 1) % 10
                    tampered += 1
                    break
        if tampered:
            mm = validate_traces(ctx, bad, selftest=True)
            if mm < tampered:
                from harness.tlabind.core import Vacuity

                raise Vacuity(f"binding self-test: {tampered} corrupted traces, only {mm} rejected")
            ctx.cov["selftest_corrupted_rejected"] = mm


def validate_repo_tests(ctx):
    """S3b: BondList calls made by the repository's own tests (bonds, atoms, filter), recorded
    by a pytest plugin installed from outside and judged event by event by TLC."""
    import subprocess

    from harness.tlabind import tlc
    from harness.tlabind.helpers import tlc_validate

    d = tlc.scratch_dir("c02rec")
    rec = os.path.join(d, "rec.json")
    env = dict(os.environ, PYTHONPATH=tlc.VERIF + os.pathsep + os.environ.get("PYTHONPATH", ""),
               C02_RECORD_FILE=rec)
    tests = ["tests/structure/test_bonds.py", "tests/structure/test_atoms.py", "tests/structure/test_filter.py",
             "tests/structure/test_molecules.py"]
    subprocess.run(["/venv/bin/python", "-m", "pytest", "-q", "-p", "no:cacheprovider", "-p",
                    "harness.recorders.c02_recorder"] + tests,
                   cwd="/repo", env=env, stdout=subprocess.DEVNULL, stderr=subprocess.DEVNULL, timeout=900)
    if not os.path.exists(rec):
        ctx.note("repository-test recorder produced no file (pytest could not start); stage skipped")
        return
    with open(rec) as f:
        data = json.load(f)
    events = data["events"]
    ctx.cov["repo_test_events"] = len(events)
    ctx.cov["repo_test_events_skipped"] = data["skipped"]
    if not events:
        return
    mms = tlc_validate(ctx, [events], module="TraceEv", cfg="TraceEv.cfg", stage="S3-repo-tests")
    for m in mms:
        _tag, _tid, l, flags, eoc, en, eB, eout = m
        e = events[l - 1]
        ctx.mismatch({"stage": "S3-repo-tests", "kind": "event", "op": e["op"], "a": e["a"],
                      "n_before": e["pre"]["n"], "event": l, "flags_ok(oc,n,B,out,cache)": flags,
                      "expected": {"oc": eoc, "n": en, "B": eB, "out": eout},
                      "observed": {"oc": e["oc"], "n": e["n"], "B": e["bonds"], "out": e["out"]},
                      "history": [["construct", [e["pre"]["n"], e["pre"]["bonds"]]], [e["op"], e["a"]]]})
    ctx.traces_validated += 1
    ctx.evaluations += len(events)


def validate_traces(ctx, traces, selftest=False):
    """TLC validates recorded traces; returns number of mismatching events."""
    from harness.tlabind import tlc
    from harness.tlabind.tlaval import parse_value, to_py

    if not traces:
        return 0
    d = tlc.scratch_dir("c02tr")
    tf = os.path.join(d, "traces.json")
    with open(tf, "w") as f:
        def spec_args(e):
            if e["op"] == "index" and len(e["a"][0]) > 2:
                return [e["a"][0][:2]]
            return e["a"]
        json.dump([[dict({k: e[k] for k in ("op", "oc", "n", "bonds", "out", "cmax_ok")}, a=spec_args(e))
                    for e in tr] for tr in traces], f)
    res = ctx.tlc("Trace", "Trace.cfg", stage="S3-selftest" if selftest else "S3", workers=1,
                  env={"TRACE_FILE": tf}, count=not selftest, timeout=1200)
    expect_states = sum(len(t) + 1 for t in traces)
    if res.distinct != expect_states:
        raise RuntimeError(f"trace validation consumed {res.distinct} states, expected {expect_states}")
    mms = tlc.printed_values(res.out, "MISMATCH")
    if selftest:
        return len(mms)
    nev = sum(len(t) for t in traces)
    ctx.traces_validated += len(traces)
    ctx.evaluations += nev
    ctx.cov["s3_traces"] = len(traces)
    ctx.cov["s3_events"] = nev
    ctx.nontrivial += sum(1 for t in traces if sum(1 for e in t if e["oc"] == "ok") >= 2)
    ctx.sample({"s3_events": traces[0][:2]})
    for txt in mms:
        v = to_py(parse_value(txt))
        _tag, tid, l, flags, eoc, en, eB, eout = v
        e = traces[tid - 1][l - 1]
        ctx.mismatch({"stage": "S3", "kind": "event", "op": e["op"], "a": e["a"],
                      "n_before": e["n_before"], "trace": tid, "event": l,
                      "flags_ok(oc,n,B,out,cache)": flags,
                      "expected": {"oc": eoc, "n": en, "B": eB, "out": eout},
                      "observed": {"oc": e["oc"], "n": e["n"], "B": e["bonds"], "out": e["out"]},
                      "history": [[x["op"], x["a"]] for x in traces[tid - 1][:l]]})
    return len(mms)


def replay(record):
    """Re-execute a stored mismatch against the current code."""
    if record.get("kind") == "step":
        bl = make(record["init"]["n"], record["init"]["B"])
        last = None
        for op, a in record["path"]:
            bl, oc, out = apply_real(bl, op, a)
            n, bonds, cok = project(bl)
            last = {"op": op, "a": a, "oc": oc, "n": n, "B": bonds, "out": out, "cache_ok": cok}
        exp = record["expected"]
        bad = (last["oc"] != exp["oc"] or last["n"] != exp["n"] or _sset(last["B"]) != _sset(exp["B"])
               or not last["cache_ok"])
        return {"last": last, "expected": exp, "mismatch": bad}
    if record.get("kind") == "event":
        from biotite.structure import BondList

        bl = BondList(0)
        last = None
        for op, a in record["history"]:
            bl, oc, out = apply_real(bl, op, a)
            n, bonds, _ = project(bl)
            last = {"op": op, "a": a, "oc": oc, "n": n, "B": bonds, "out": out}
        exp = record["expected"]
        bad = last["oc"] != exp["oc"] or last["n"] != exp["n"] or _sset(last["B"]) != _sset(exp["B"])
        return {"last": last, "expected": exp, "mismatch": bad}
    return {"error": "record kind not replayable in-process (crash records: run the path in a child)",
            "record": record}


MANIFEST = {
    "technique": "TLA+ state machine of BondList (specs/C02) model-checked by TLC; every transition of TLC's state graph replayed into the real BondList; recorded random histories validated by TLC",
    "level_text": "TLC explores every reachable state of the bond-list machine for <=3 atoms / 3 bond types under all 16 operations with in- and out-of-range indices (invariants: canonical mapping, cache soundness, refusal is a no-op), then every transition of that graph is executed against the real BondList in crash-isolated processes comparing atom count, bond set, outcome class and returned views; larger lists (<=30 atoms, all 10 bond types, unsorted index arrays, stepped slices) are covered by recorded histories that TLC re-computes event by event.",
    "level_note": "Bounded: exhaustive only for n<=3 atoms and types {0,1,5}; beyond that only recorded histories. Self-bonds and ill-formed masks are outside the domain. Trusted: TLC, the TLA+ value parser, numpy, the projection get_atom_count()/as_array(). Cython is unavailable, so a defect in bonds.pyx can only be recorded as a known finding.",
}
