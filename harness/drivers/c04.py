"""C04 — a structure survives a CIF / BinaryCIF write-read cycle unchanged.

S1  TLC: specs/C04/PdbxBonds.tla — the mmCIF bond conventions (chem_comp_bond templates,
    struct_conn rows, implied polymer links) as RefWrite / RefRead; invariants: every
    structure without a named Reason comes back unchanged, and every structure that does not
    come back has a Reason.  specs/C04/AltLoc.tla — model / alternate-location selection.
S2  every structure TLC enumerated is written by set_structure and read by get_structure
    through CIF text, BinaryCIF and compressed BinaryCIF; every enumerated atom_site table
    is built as a file and read with every model / altloc request.
S3  random larger structures (awkward names, negative ids, insertion codes, optional
    fields, 1..4 models, boxes) and random atom_site tables are recorded and validated by TLC.
"""

from __future__ import annotations

import io
import os
import random

PROPERTY = "C04"
CCD = "/verif/fixtures/ccd/components_synth.bcif"
FORMATS = ("cif", "bcif", "cbcif")


def warmup():
    import biotite.structure.info as info
    import biotite.structure.io.pdbx  # noqa: F401

    info.set_ccd_path(CCD)


def _np():
    import numpy as np

    return np


# --------------------------------------------------------------------------- structures
def element_of(name):
    return "".join(c for c in name if c.isalpha())[:1].upper() or "X"


def build(A, B, extra=None):
    """A: list of [chain, res_id, ins, res_name, hetero, atom_name]; B: list of [i,j,t] or None.
    extra: {"models": [[cell per atom] per model], "box": [a,b,c,al,be,ga] | None,
            "opt": {"atom_id": [...], "b_factor": [...], "occupancy": [...], "charge": [...]},
            "custom": {"name": [str...]}}"""
    import biotite.structure as struc

    np = _np()
    n = len(A)
    extra = extra or {}
    models = extra.get("models") or [[10 * (i + 1) for i in range(n)]]
    if len(models) == 1 and not extra.get("stack"):
        arr = struc.AtomArray(n)
        arr.coord = np.array([[c, c / 2.0, -c] for c in models[0]], dtype=np.float32).reshape(n, 3)
    else:
        arr = struc.AtomArrayStack(len(models), n)
        arr.coord = np.array([[[c, c / 2.0, -c] for c in m] for m in models], dtype=np.float32).reshape(len(models), n, 3)
    arr.chain_id = np.array([a[0] for a in A], dtype="U4")
    arr.res_id = np.array([a[1] for a in A], dtype=int)
    arr.ins_code = np.array([a[2] for a in A], dtype="U1")
    arr.res_name = np.array([a[3] for a in A], dtype="U5")
    arr.hetero = np.array([bool(a[4]) for a in A], dtype=bool)
    arr.atom_name = np.array([a[5] for a in A], dtype="U6")
    arr.element = np.array([element_of(a[5]) for a in A], dtype="U2")
    for name, vals in (extra.get("opt") or {}).items():
        dt = {"atom_id": int, "b_factor": float, "occupancy": float, "charge": int}[name]
        arr.set_annotation(name, np.array(vals, dtype=dt))
    for name, vals in (extra.get("custom") or {}).items():
        arr.set_annotation(name, np.array(vals, dtype="U8"))
    if extra.get("box"):
        a, b, c, al, be, ga = extra["box"]
        box = struc.vectors_from_unitcell(a, b, c, np.deg2rad(al), np.deg2rad(be), np.deg2rad(ga))
        arr.box = box if isinstance(arr, struc.AtomArray) else np.stack([box] * len(models))
    if B is not None:
        arr.bonds = (struc.BondList(n, np.array(B, dtype=np.int64).reshape(-1, 3)) if len(B)
                     else struc.BondList(n))
    return arr


def atoms_of(arr):
    return [[str(c), int(r), str(i), str(rn), bool(h), str(an)]
            for c, r, i, rn, h, an in zip(arr.chain_id.tolist(), arr.res_id.tolist(), arr.ins_code.tolist(),
                                          arr.res_name.tolist(), arr.hetero.tolist(), arr.atom_name.tolist())]


def bonds_of(arr):
    if arr.bonds is None:
        return None
    return sorted([int(x), int(y), int(t)] for x, y, t in arr.bonds.as_array().tolist())


def _poke(src):
    """The caller goes on working with the structure after set_structure(): every annotation array
    and the coordinates are overwritten in place."""
    np = _np()
    for c in src.get_annotation_categories():
        a = src.get_annotation(c)
        if a.dtype.kind in "iu":
            a += 100
        elif a.dtype.kind == "f":
            a += 1.5
        elif a.dtype.kind == "b":
            np.logical_not(a, out=a)
        else:
            a[:] = "Q"
    src.coord += 7.0
    if src.box is not None:
        src.box *= 2.0


def roundtrip(arr, fmt, extra, opt=None):
    """set_structure -> serialise -> parse -> get_structure. Returns (oc, result).
    `opt` is the caller's extra_fields list; a caller reads many files with the same list.
    With extra["poke"] the structure handed to set_structure is a copy that the caller overwrites in
    place between set_structure() and write(): the file holds what was set (the text form converts at
    set time, so text and binary form decode to the same result only if the binary form does too)."""
    import biotite.structure as struc
    import biotite.structure.io.pdbx as pdbx

    poke = bool((extra or {}).get("poke"))
    src = arr.copy() if poke else arr

    if opt is None:
        opt = list((extra or {}).get("opt", {})) + list((extra or {}).get("custom", {}))
    try:
        if fmt == "cif":
            f = pdbx.CIFFile()
            pdbx.set_structure(f, src, include_bonds=True, extra_fields=list((extra or {}).get("custom", {})))
            if poke:
                _poke(src)
            buf = io.StringIO()
            f.write(buf)
            buf.seek(0)
            g = pdbx.CIFFile.read(buf)
        else:
            f = pdbx.BinaryCIFFile()
            pdbx.set_structure(f, src, include_bonds=True, extra_fields=list((extra or {}).get("custom", {})))
            if poke:
                _poke(src)
            if fmt == "cbcif":
                f = pdbx.compress(f)
            buf = io.BytesIO()
            f.write(buf)
            buf.seek(0)
            g = pdbx.BinaryCIFFile.read(buf)
        model = None if isinstance(arr, struc.AtomArrayStack) else 1
        res = pdbx.get_structure(g, model=model, extra_fields=opt, include_bonds=arr.bonds is not None)
        return "ok", res
    except Exception as e:  # noqa: BLE001
        return "Rejected", f"{type(e).__name__}: {e}"


def rest_equal(arr, res, rtol=0.0):
    """Everything the bond model does not carry: coordinates of every model, element, box,
    optional annotations. Exact, except the box (CRYST-like cell parameters: 1e-3 relative)."""
    import biotite.structure as struc

    np = _np()
    why = []
    if type(arr) is not type(res):
        return False, [f"type {type(res).__name__}"]
    if arr.coord.shape != res.coord.shape or not np.array_equal(arr.coord, res.coord):
        # compress() documents a RELATIVE float tolerance (default 1e-6): for the compressed form a
        # coordinate of large magnitude may move by 1e-6 of its value (rtol given by the caller)
        if arr.coord.shape != res.coord.shape or not np.allclose(arr.coord, res.coord, rtol=rtol, atol=1e-3):
            why.append("coord")
    if arr.element.tolist() != res.element.tolist():
        why.append("element")
    if (arr.box is None) != (res.box is None):
        why.append("box presence")
    elif arr.box is not None:
        if arr.box.shape != res.box.shape or not np.allclose(arr.box, res.box, rtol=1e-3, atol=1e-3):
            why.append("box")
    std = {"chain_id", "res_id", "ins_code", "res_name", "hetero", "atom_name", "element"}
    for c in set(arr.get_annotation_categories()) - std:
        if c not in res.get_annotation_categories():
            why.append(f"missing {c}")
        else:
            x, y = arr.get_annotation(c), res.get_annotation(c)
            if x.dtype.kind == "f":
                if not np.allclose(x, y.astype(float), rtol=0, atol=1e-6):
                    why.append(c)
            elif x.tolist() != y.tolist():
                why.append(c)
    return not why, why


# --------------------------------------------------------------------------- S2: bonds
def exec_structs(item):
    from harness.tlabind.pool import progress

    mism, n = [], 0
    counts = {"exact": 0, "format": 0}
    for st in item["structs"]:
        A, B = st["A"], st["B"]
        arr = build(A, B)
        for fmt in item["formats"]:
            progress({"A": A, "B": B, "fmt": fmt})
            oc, res = roundtrip(arr, fmt, None)
            n += 1
            verdict, info = judge(st, arr, oc, res)
            if verdict == "exact":
                counts["exact"] += 1
            elif verdict == "format":
                counts["format"] += 1
                mism.append({"kind": "format", "fmt": fmt, "A": A, "B": B, "reasons": st["reasons"],
                             "observed": info})
            else:
                mism.append({"kind": "roundtrip", "fmt": fmt, "A": A, "B": B, "reasons": st["reasons"],
                             "expected_readback": None if st["refused"] else st["rb"],
                             "refused_by_vocabulary": st["refused"], "observed": info})
    return {"mismatch": mism, "n": n, "counts": counts}


def judge(st, arr, oc, res):
    """st carries the values computed by TLC: rb (ReadBack), refused, reasons."""
    A, B = st["A"], sorted(list(b) for b in st["B"])
    if oc == "ok":
        rA, rB = atoms_of(res), bonds_of(res)
        req, why = rest_equal(arr, res)
        info = {"oc": oc, "rB": rB, "atoms_equal": rA == A, "rest": why}
        if rA == A and rB == B and req:
            return "exact", info
        if st["reasons"] and not st["refused"] and rA == A and req and rB == sorted(list(b) for b in st["rb"]):
            return "format", info
        return "bad", info
    info = {"oc": oc, "error": res}
    if st["reasons"] and st["refused"]:
        return "format", info
    return "bad", info


# --------------------------------------------------------------------------- S2/S3: selection
def make_altloc_file(rows, fmt="cif"):
    import biotite.structure.io.pdbx as pdbx

    np = _np()
    n = len(rows)
    Cat = pdbx.CIFCategory if fmt == "cif" else pdbx.BinaryCIFCategory
    cols = {
        "group_PDB": np.array(["ATOM"] * n),
        "id": np.arange(1, n + 1),
        "type_symbol": np.array(["C"] * n),
        "label_atom_id": np.array([f"C{i % 7}" for i in range(n)]),
        "label_alt_id": np.array([r[2] for r in rows]),
        "label_comp_id": np.array(["XAA"] * n),
        "label_asym_id": np.array(["A"] * n),
        "label_entity_id": np.array(["1"] * n),
        "label_seq_id": np.array([r[1] for r in rows]),
        "pdbx_PDB_ins_code": np.array(["?"] * n),
        "Cartn_x": np.array([float(i) for i in range(n)]),
        "Cartn_y": np.array([0.0] * n),
        "Cartn_z": np.array([0.0] * n),
        "occupancy": np.array([float(r[3]) for r in rows]),
        "pdbx_PDB_model_num": np.array([r[0] for r in rows]),
    }
    cat = Cat(cols)
    if fmt == "cif":
        f = pdbx.CIFFile({"x": pdbx.CIFBlock({"atom_site": cat})})
        buf = io.StringIO()
        f.write(buf)
        buf.seek(0)
        return pdbx.CIFFile.read(buf)
    f = pdbx.BinaryCIFFile({"x": pdbx.BinaryCIFBlock({"atom_site": cat})})
    buf = io.BytesIO()
    f.write(buf)
    buf.seek(0)
    return pdbx.BinaryCIFFile.read(buf)


def select_real(rows, m, policy, fmt="cif"):
    import biotite.structure as struc
    import biotite.structure.io.pdbx as pdbx

    try:
        f = make_altloc_file(rows, fmt)
        res = pdbx.get_structure(f, model=None if m == 0 else m, altloc=policy)
    except Exception as e:  # noqa: BLE001
        return True, [], f"{type(e).__name__}: {e}"
    co = res.coord
    if isinstance(res, struc.AtomArray):
        co = co[None]
    sel = [[int(x) for x in model[:, 0].tolist()] for model in co]
    return False, sel, ""


def exec_selects(item):
    from harness.tlabind.pool import progress

    mism, n = [], 0
    for case in item["cases"]:
        rows, m, policy = case["rows"], case["m"], case["policy"]
        progress(case)
        rej, sel, err = select_real(rows, m, policy, item["fmt"])
        n += 1
        if rej != case["rej"] or (not rej and sel != [list(s) for s in case["sel"]]):
            mism.append({"kind": "selection", "rows": rows, "m": m, "policy": policy,
                         "expected": {"rej": case["rej"], "sel": case["sel"]},
                         "observed": {"rej": rej, "sel": sel, "error": err}})
    return {"mismatch": mism, "n": n}


# --------------------------------------------------------------------------- S3 generators
_RES = [("ALA", False, ["N", "CA", "C", "O", "CB"]), ("GLY", False, ["N", "CA", "C", "O"]),
        ("SER", False, ["N", "CA", "C", "O", "CB", "OG"]), ("DA", False, ["P", "OP1", "O5'", "C5'", "C3'", "O3'"]),
        ("DG", False, ["P", "O5'", "C3'", "O3'"]), ("LIG", True, ["C1", "C2", "O1", "N1"]),
        ("HOH", True, ["O"]), ("XAA", True, ["X1", "X'2", 'X"3', "X 4"]), ("Q'Z", True, ["A1", "B2", "C_3"]),
        ("NA", True, ["NA"]),
        # atom names whose concatenations are ambiguous ("C1"+"1H" = "C11"+"H", "C"+"11H")
        ("JN", True, ["C1", "1H", "C11", "H", "C", "11H"])]


def gen_struct(item):
    """Random well-formed structure; every format's read-back is logged."""
    from harness.tlabind.pool import progress

    rng = random.Random(item["seed"])
    nres = rng.randint(1, item["maxres"])
    A = []
    # residue / atom ids near the limits of the integer widths compress() chooses between
    chain = rng.choice(["A", "B", "AA", "x"])
    rid = rng.choice([rng.randint(-5, 3), rng.randint(-5, 3), 124, 252, -130, 32764, 65532, -32770])
    seen = set()
    boundary = rng.choice([None, None, [-1, 127, 128], [-3, 32767, 32768, 5], [-128, 127, 0], [-129, 128],
                           [255, 256, 0], [65535, 65536, 1], [-32768, 32767], [-32769, 32768, 2]])
    for _ in range(nres):
        rn, het, names = rng.choice(_RES)
        if rng.random() < 0.25:
            chain = rng.choice(["A", "B", "AA", "x", "C'"])
        rid += rng.choice([1, 1, 1, 2, 5, 0])
        if boundary:
            # ids that sit exactly on the limits of the signed/unsigned widths, mixed signs
            rid = boundary[len(seen) % len(boundary)]
        ins = rng.choice(["", "", "", "A", "B"])
        if (chain, rid, ins) in seen:
            rid = max(r for _, r, _ in seen) + 1
        seen.add((chain, rid, ins))
        k = rng.randint(1, len(names))
        for an in names[:k]:
            A.append([chain, rid, ins, rn, het, an])
    # "grid" family: one long, regular coordinate column (which compress() can pack below the raw
    # float bytes) with two outliers, a value that needs many decimals and a value of large magnitude;
    # the columns (c, c/2, -c) carry the outlier with both signs
    grid = rng.random() < item.get("p_grid", 0.07)
    if grid:
        A = [["A", i + 1, "", "GLY", False, "CA"] for i in range(rng.randint(40, 64))]
    n = len(A)
    B = None
    if rng.random() < 0.85 and not grid:
        B = []
        pairs = set()
        for _ in range(rng.randint(0, n)):
            if n >= 2:
                i, j = sorted(rng.sample(range(n), 2))
                if (i, j) not in pairs:
                    pairs.add((i, j))
                    B.append([i, j, rng.choice([1, 1, 1, 2, 3, 4, 5, 6, 7, 9, 0, 8])])
        # residues with ambiguous name concatenations get the bonds that make them collide
        for i, a in enumerate(A):
            if a[3] == "JN" and a[5] == "C1" and rng.random() < 0.7:
                names = {A[j][5]: j for j in range(n) if A[j][:4] == a[:4]}
                for x, y in (("C1", "1H"), ("C11", "H"), ("C", "11H")):
                    if x in names and y in names and (min(names[x], names[y]), max(names[x], names[y])) not in pairs:
                        pairs.add((min(names[x], names[y]), max(names[x], names[y])))
                        B.append([min(names[x], names[y]), max(names[x], names[y]), rng.choice([1, 2])])
        B.sort()
    nm = rng.choice([1, 1, 2, 4])
    extra = {"models": [[rng.randint(-9999, 9999) for _ in range(n)] for _ in range(nm)],
             "stack": nm > 1 or rng.random() < 0.2,
             "box": rng.choice([None, [10, 20, 30, 90, 90, 90], [12, 12, 15, 90, 90, 120], [8, 9, 10, 60, 90, 90]]),
             "opt": {}, "custom": {}, "poke": rng.random() < 0.4}
    if grid:
        step = rng.choice([0.25, 0.5, 1.0])
        for cells in extra["models"]:
            cells[:] = [step * i for i in range(n)]
            i1, i2 = rng.sample(range(n), 2)
            cells[i1] = rng.choice([0.0123456, 0.00390625, 1.2345678, 0.001, -0.0123456, 0.5])
            cells[i2] = rng.choice([250.5, -250.5, 3000.25, -9000.125, 21474.5, -21474.75, 214.5, -215.0, 2200000.0])
    if rng.random() < 0.5:
        base_id = rng.choice([1, 120, 250, 32760, 65530, 99990])
        extra["opt"]["atom_id"] = ([base_id + i for i in range(n)] if rng.random() < 0.6
                                   else [rng.randint(1, 99999) for _ in range(n)])
    if rng.random() < 0.5:
        extra["opt"]["b_factor"] = [rng.randint(0, 400) / 4 for _ in range(n)]
    if rng.random() < 0.5:
        extra["opt"]["occupancy"] = [rng.randint(0, 4) / 4 for _ in range(n)]
    if rng.random() < 0.5:
        extra["opt"]["charge"] = [rng.choice([0, 0, 1, -1, 2, -3, 127, 128, -128, -129]) for _ in range(n)]
    if rng.random() < 0.3:
        extra["custom"]["my_note"] = [rng.choice(["a", "b c", "it's", 'q"q', "x_y"]) for _ in range(n)]
    arr = build(A, B, extra)
    events = []
    # one extra_fields list, defined once by the caller and used for every read
    fields = list(extra["opt"]) + list(extra["custom"])
    fields_before = list(fields)
    for fmt in FORMATS:
        progress({"A": A, "B": B, "fmt": fmt})
        oc, res = roundtrip(arr, fmt, extra, opt=fields)
        ev = {"fmt": fmt, "A": A, "B": B if B is not None else [], "oc": oc, "has_bonds": B is not None}
        if oc == "ok":
            req, why = rest_equal(arr, res, rtol=1e-6 if fmt == "cbcif" else 0.0)
            if fields != fields_before:
                req, why = False, why + [f"get_structure changed the caller's extra_fields list to {fields}"]
            rB = bonds_of(res)
            ev.update({"rA": atoms_of(res), "rB": rB if rB is not None else [], "rest_equal": req and ((rB is None) == (B is None)),
                       "rest_why": why})
        else:
            ev.update({"rA": [], "rB": [], "rest_equal": False, "rest_why": [res]})
        events.append(ev)
    return {"events": events}


def gen_select(item):
    rng = random.Random(item["seed"])
    events = []
    for _ in range(item["n"]):
        nrow = rng.randint(1, 9)
        base, res = [], 1
        for _i in range(nrow):
            if rng.random() < 0.4:
                res += 1
            base.append([res, rng.choice([".", ".", "A", "B"]), rng.randint(0, 3)])
        nums = rng.choice([[1], [1, 2], [3, 4, 9], [1, 2, 3, 4]])
        rows = [[mn, r, a, o] for mn in nums for r, a, o in base]
        m = rng.choice([0, 1, -1, 2, -2, len(nums), len(nums) + 1, -len(nums) - 1])
        policy = rng.choice(["first", "occupancy", "all"])
        fmt = rng.choice(["cif", "bcif"])
        rej, sel, err = select_real(rows, m, policy, fmt)
        events.append({"rows": rows, "m": m, "policy": policy, "rej": rej, "sel": sel, "fmt": fmt, "error": err})
    return {"events": events}


# --------------------------------------------------------------------------- findings
def classify(mm):
    if mm.get("kind") == "format" and mm.get("reasons"):
        rs = sorted(mm["reasons"])
        return "C04-format-" + rs[0]
    return None


# --------------------------------------------------------------------------- orchestration
def run(ctx):
    from harness.tlabind.core import Vacuity
    from harness.tlabind.helpers import binding_selftest, dump_states, run_pool, tlc_validate

    ctx.assumptions += [
        "synthetic Chemical Component Dictionary (fixtures/ccd): ALA, GLY, SER, DA, DG, LIG, RNG, HOH, NA",
        "Dom_WellFormed: non-empty, residues uniquely identifiable by (chain, res_id, ins_code), atom names unique within a residue",
        "coordinates are float32 triples (c, c/2, -c) of integers |c| < 10^4; box compared to 1e-3 (cell parameters are written as text/doubles)",
        "read-back protocol: get_structure(model=None for stacks else 1, extra_fields=those written, include_bonds iff a bond list was written, altloc='first')",
        "compressed BinaryCIF: coordinates compared within 1e-3 (compress() default precision), everything else exactly",
        "selection tables: rows of a model contiguous, rows of a residue contiguous (the layout every writer produces)",
    ]
    # ---- S1 + S2 bonds ---------------------------------------------------------------
    cfg = "MC.cfg" if ctx.quick else "MC_thorough.cfg"
    res, states = dump_states(ctx, "PdbxBonds", cfg, stage="S1", timeout=3000)
    ctx.exhaustive = True
    structs = [s for s in states if s["phase"] == 1]
    with_reason = sum(1 for s in structs if s["reasons"])
    clean_bonded = sum(1 for s in structs if not s["reasons"] and s["S"]["B"])
    if with_reason == 0 or clean_bonded == 0:
        raise Vacuity(f"bond model vacuous: {with_reason} with reasons, {clean_bonded} clean bonded")
    reason_hist = {}
    for s in structs:
        for r in s["reasons"]:
            reason_hist[r] = reason_hist.get(r, 0) + 1
    ctx.cov["structures_enumerated"] = len(structs)
    ctx.cov["structures_per_reason"] = reason_hist
    ctx.cov["structures_representable_with_bonds"] = clean_bonded
    sel = structs
    cap = 2000 if ctx.quick else 120000
    if len(sel) > cap:
        sel = ctx.rng.sample(structs, cap)
    flat = [{"A": [list(a) for a in s["S"]["A"]], "B": sorted(list(b) for b in s["S"]["B"]),
             "rb": sorted(list(b) for b in s["rb"]), "refused": s["refused"], "reasons": sorted(s["reasons"])}
            for s in sel]
    items = [{"structs": flat[i:i + 150], "formats": list(FORMATS)} for i in range(0, len(flat), 150)]
    ctx.log(f"S2: {len(flat)} structures x {len(FORMATS)} formats")
    results = run_pool(ctx, "harness.drivers.c04:exec_structs", items, stage="S2", item_timeout=600)
    ctx.traces_validated += sum(r["n"] for r in results if r)
    ctx.evaluations += sum(r["n"] for r in results if r)
    ctx.cov["s2_exact_roundtrips"] = sum(r["counts"]["exact"] for r in results if r)
    ctx.cov["s2_format_limited"] = sum(r["counts"]["format"] for r in results if r)
    ctx.nontrivial += sum(1 for s in flat if s["B"])
    ctx.cov["rule"] = "case = (structure, file flavour); non-trivial = structure with at least one bond / selection table with an alternate location"
    ctx.sample({"structure": flat[len(flat) // 2]})
    # ---- S1 + S2 selection -----------------------------------------------------------
    acfg = "MCAlt.cfg" if ctx.quick else "MCAlt_thorough.cfg"
    _r, astates = dump_states(ctx, "AltLoc", acfg, stage="S1-altloc", timeout=3000)
    cases = [{"rows": [list(r) for r in s["rows"]], "m": s["m"], "policy": s["policy"], "rej": s["rej"],
              "sel": [list(x) for x in s["sel"]]} for s in astates if s["phase"] == 1]
    if not any(c["rej"] for c in cases) or not any(any(r[2] != "." for r in c["rows"]) for c in cases):
        raise Vacuity("selection model vacuous")
    ccap = 5000 if ctx.quick else 200000
    if len(cases) > ccap:
        cases = ctx.rng.sample(cases, ccap)
    citems = [{"cases": cases[i:i + 400], "fmt": "cif" if (i // 400) % 2 == 0 else "bcif"}
              for i in range(0, len(cases), 400)]
    ctx.log(f"S2: {len(cases)} selection cases")
    cres = run_pool(ctx, "harness.drivers.c04:exec_selects", citems, stage="S2-altloc", item_timeout=600)
    ctx.traces_validated += sum(r["n"] for r in cres if r)
    ctx.evaluations += sum(r["n"] for r in cres if r)
    ctx.nontrivial += sum(1 for c in cases if any(r[2] != "." for r in c["rows"]))
    ctx.sample({"selection": cases[len(cases) // 3]})
    # ---- S3 ----------------------------------------------------------------------------
    ntr = 200 if ctx.quick else 5000
    titems = [{"seed": ctx.rng.randrange(1 << 30), "maxres": 4 if k % 4 else 9} for k in range(ntr)]
    tres = run_pool(ctx, "harness.drivers.c04:gen_struct", titems, stage="S3", item_timeout=120)
    traces = [r["events"] for r in tres if r and r.get("events")]
    keep = ("fmt", "A", "B", "oc", "rA", "rB", "rest_equal")
    out = tlc_validate(ctx, traces, keep=keep, tag="MISMATCH", timeout=2400)
    handle_trace_results(ctx, traces)
    ctx.traces_validated += len(traces)
    ctx.evaluations += sum(len(t) for t in traces)
    ctx.nontrivial += sum(1 for t in traces if t[0]["B"])

    def corrupt(tr):
        for e in tr:
            if e["oc"] == "ok" and e["rA"]:
                e["rA"][0][1] += 1
                return True
        return False

    binding_selftest(ctx, [[{k: e[k] for k in keep} for e in t] for t in traces], corrupt)
    # selection traces
    sitems = [{"seed": ctx.rng.randrange(1 << 30), "n": 40} for _ in range(8 if ctx.quick else 150)]
    sres = run_pool(ctx, "harness.drivers.c04:gen_select", sitems, stage="S3-altloc", item_timeout=300)
    straces = [r["events"] for r in sres if r and r.get("events")]
    mm = tlc_validate(ctx, straces, module="TraceAlt", cfg="TraceAlt.cfg", keep=("rows", "m", "policy", "rej", "sel"),
                      stage="S3-altloc")
    for m in mm:
        _t, tid, l, erej, esel = m
        e = straces[tid - 1][l - 1]
        ctx.mismatch({"stage": "S3-altloc", "kind": "selection", "rows": e["rows"], "m": e["m"], "policy": e["policy"],
                      "expected": {"rej": erej, "sel": esel},
                      "observed": {"rej": e["rej"], "sel": e["sel"], "error": e["error"], "fmt": e["fmt"]}})
    ctx.traces_validated += len(straces)
    ctx.evaluations += sum(len(t) for t in straces)

    def corrupt_sel(tr):
        for e in tr:
            if not e["rej"] and e["sel"] and e["sel"][0]:
                e["sel"][0][0] += 1
                return True
        return False

    binding_selftest(ctx, [[{k: e[k] for k in ("rows", "m", "policy", "rej", "sel")} for e in t] for t in straces],
                     corrupt_sel, module="TraceAlt", cfg="TraceAlt.cfg")


def handle_trace_results(ctx, traces):
    """Parse FORMAT / MISMATCH / NOTINDOMAIN lines of the last TLC run."""
    from harness.tlabind import tlc
    from harness.tlabind.tlaval import parse_value, to_py

    out = ctx._last_tlc_out
    if tlc.printed_values(out, "NOTINDOMAIN"):
        raise RuntimeError("S3 generator produced a structure outside Dom_WellFormed")
    for txt in tlc.printed_values(out, "FORMAT"):
        _t, tid, l, why = to_py(parse_value(txt))
        e = traces[tid - 1][l - 1]
        ctx.mismatch({"stage": "S3", "kind": "format", "fmt": e["fmt"], "A": e["A"], "B": e["B"],
                      "reasons": why, "observed": {"oc": e["oc"], "rB": e["rB"]}})
    for txt in tlc.printed_values(out, "MISMATCH"):
        _t, tid, l, why, refused, rb = to_py(parse_value(txt))
        e = traces[tid - 1][l - 1]
        ctx.mismatch({"stage": "S3", "kind": "roundtrip", "fmt": e["fmt"], "A": e["A"], "B": e["B"],
                      "reasons": why, "expected_readback": rb, "refused_by_vocabulary": refused,
                      "observed": {"oc": e["oc"], "rB": e["rB"], "atoms_equal": e["rA"] == e["A"],
                                   "rest": e.get("rest_why")}})


def replay(record):
    warmup()
    if record.get("kind") in ("roundtrip", "format"):
        arr = build(record["A"], record["B"])
        oc, res = roundtrip(arr, record["fmt"], None)
        if oc != "ok":
            return {"oc": oc, "error": res, "mismatch": True}
        rB = bonds_of(res)
        return {"oc": oc, "rB": rB, "atoms_equal": atoms_of(res) == record["A"],
                "mismatch": rB != sorted(record["B"]) or atoms_of(res) != record["A"]}
    if record.get("kind") == "selection":
        rej, sel, err = select_real(record["rows"], record["m"], record["policy"])
        exp = record["expected"]
        return {"rej": rej, "sel": sel, "error": err,
                "mismatch": rej != exp["rej"] or (not rej and sel != [list(s) for s in exp["sel"]])}
    return {"error": "unknown record"}


MANIFEST = {
    "technique": "TLA+ reference codec for the mmCIF bond conventions and the model/alt-loc selection (specs/C04) model-checked by TLC; every enumerated structure / atom_site table pushed through the real set_structure/get_structure (CIF, BinaryCIF, compressed); recorded random structures validated by TLC",
    "level_text": "The specification states what chem_comp_bond templates, struct_conn rows and implied polymer links mean (RefWrite/RefRead) and TLC proves on all structures of <=2 residues (6 residue kinds x 6 placements, every single bond of 6 types; thorough: 3 residues / 2 bonds) that every structure without a named Reason is returned unchanged and that every structure which is not returned has a Reason; a second module specifies model and alternate-location selection (first / occupancy / all, positive, negative and out-of-range model requests, 1..3 models). Each enumerated structure is written and read back by the real code in all three file flavours, each enumerated table is read with every request, and the outcome is compared with the value TLC computed; random larger structures with awkward names, optional fields, several models and boxes are recorded and re-judged by TLC. Recorded structures include a 'grid' family (40-64 atoms on a regular coordinate grid with one many-decimal and one large-magnitude outlier of either sign, so that compress() chooses fixed-point packing or must fall back) and, in 40% of the traces, a caller who overwrites every annotation, the coordinates and the box in place between set_structure() and write() (the file holds what was set).",
    "level_note": "Structures whose bonds the file format cannot express (Reasons computed by the specification) are reported as known findings only when the implementation returns exactly what the conventions predict. Float text formatting is delegated to C05/C06; coordinates are exactly representable integers. Synthetic CCD. Trusted: TLC, value parser, numpy, the projection.",
}
