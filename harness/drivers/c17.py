"""C17 — residue / chain / molecule segmentation equals per-atom recomputation.

S1  TLC checks specs/C17/SegMol.tla: for every bounded input the implementation-shaped
    definitions (change mask + where, searchsorted, slicing, np.repeat, DFS, root loop) equal the
    declarative per-atom definitions; the subdivision lemma for bond graphs.
S2  every (input, expected) state of that model is executed against biotite
    (get_residue_* / get_chain_* / residue_iter / chain_iter / apply_* / spread_* /
    get_segment_* / get_molecule_* / molecule_iter / find_connected) on AtomArray and
    AtomArrayStack; selected graphs are run again with every bond subdivided into a path of
    L new atoms (L up to 50,000) under an 8 MiB stack, expectation from the lemma.
    The "extra" states vary the non-key annotations (hetero flag, atom name, element); the
    "hist" states are HISTORIES on one live object: all views, an in-place edit of its
    annotations (element / slice assignment, re-assignment of the annotation, array[i] = Atom),
    all views again (one or two edits) - every answer must be the one for the current rows.
S3  seeded sessions on longer arrays / richer annotations / larger graphs are recorded and
    re-computed by TLC (specs/C17/Trace.tla); a session keeps one or two live arrays and
    interleaves calls with in-place edits of their annotations.
"""

from __future__ import annotations

import json
import os
import random

PROPERTY = "C17"
KF_RECURSION = "C17-find-connected-recursion"
STACK_BYTES = 8 << 20
BIG_COMPONENT = 30000  # atoms; only separates the recursion defect from crashes on small inputs

LEVELS = ("residue", "chain")


# --------------------------------------------------------------------------- real side
def _np():
    import numpy as np

    return np


def _struc():
    import biotite.structure as struc

    return struc


def _F(level):
    s = _struc()
    if level == "residue":
        return {"starts": s.get_residue_starts, "count": s.get_residue_count, "iter": s.residue_iter,
                "apply": s.apply_residue_wise, "spread": s.spread_residue_wise,
                "masks": s.get_residue_masks, "sf": s.get_residue_starts_for,
                "pos": s.get_residue_positions}
    return {"starts": s.get_chain_starts, "count": s.get_chain_count, "iter": s.chain_iter,
            "apply": s.apply_chain_wise, "spread": s.spread_chain_wise,
            "masks": s.get_chain_masks, "sf": s.get_chain_starts_for,
            "pos": s.get_chain_positions}


def _seg():
    import biotite.structure.segments as seg

    return seg


def mk_array(rows, stack=False, edges=None, n=None):
    """Rows -> AtomArray / AtomArrayStack; atom k carries aid = k (identity) and x = k."""
    np, struc = _np(), _struc()
    n = len(rows) if n is None else n
    a = struc.AtomArrayStack(2, n) if stack else struc.AtomArray(n)
    if rows:
        a.chain_id = np.array([r[0] for r in rows], dtype="U4")
        a.res_id = np.array([r[1] for r in rows], dtype=int)
        a.ins_code = np.array([r[2] for r in rows], dtype="U1")
        a.res_name = np.array([r[3] for r in rows], dtype="U5")
        if len(rows[0]) > 4:   # non-key annotations: hetero flag, atom name (fixes the element)
            a.hetero = np.array([bool(r[4]) for r in rows], dtype=bool)
            a.atom_name = np.array([r[5] for r in rows], dtype="U6")
            a.element = np.array([r[5][:1] for r in rows], dtype="U2")
    a.set_annotation("aid", np.arange(n, dtype=int))
    a.coord[..., 0] = np.arange(n)
    if edges is not None:
        a.bonds = mk_bonds(n, edges)
    return a


FIELDS = {1: "chain_id", 2: "res_id", 3: "ins_code", 4: "res_name", 5: "hetero", 6: "atom_name"}


def apply_edit(arr, ed):
    """Execute one edit of Segments!ApplyEdit on the live object (same object afterwards)."""
    struc = _struc()
    kind, f, lo, hi, v = ed["kind"], ed["f"], ed["lo"], ed["hi"], ed["v"]
    if kind == "atom":
        row = list(v) + ["A", 1, "", "X", False, "CA"][len(v):]
        if isinstance(arr, struc.AtomArray):
            arr[lo] = struc.Atom([lo, 0, 0], chain_id=row[0], res_id=row[1], ins_code=row[2],
                                 res_name=row[3], hetero=bool(row[4]), atom_name=row[5],
                                 element=row[5][:1], aid=lo)
        else:   # a stack has no item assignment for atoms: the same writes, annotation by annotation
            for k, name in FIELDS.items():
                getattr(arr, name)[lo] = row[k - 1]
            arr.element[lo] = row[5][:1]
        return
    name = FIELDS[f]
    if kind == "set":
        getattr(arr, name)[lo] = v
    elif kind == "fill":
        getattr(arr, name)[lo:hi] = v
    elif kind == "assign":
        new = getattr(arr, name).copy()
        new[lo:hi] = v
        if lo % 2:
            arr.set_annotation(name, new)
        else:
            setattr(arr, name, new)
    else:
        raise ValueError(f"unknown edit {ed}")
    if f == 6:
        arr.element[lo:hi] = v[:1]


def mk_bonds(n, edges):
    """Bond graph -> BondList; orientation and bond type vary (they must not matter)."""
    np, struc = _np(), _struc()
    if len(edges) == 0:
        return struc.BondList(int(n))
    arr = np.array([[e[1], e[0], 1 + (k % 6)] if k % 2 else [e[0], e[1], 1 + (k % 6)]
                    for k, e in enumerate(edges)], dtype=np.int64)
    return struc.BondList(int(n), arr)


def _call(fn):
    """-> [oc, value]; any exception is the outcome 'Rejected'."""
    try:
        return ["ok", fn()]
    except Exception as e:  # noqa: BLE001
        return ["Rejected", type(e).__name__]


def _tolist(x):
    if x is None:
        return None
    np = _np()
    return np.asarray(x).tolist()


def _funs():
    np = _np()
    return {
        "sum": np.sum, "min": np.min, "max": np.max,
        "first": lambda x: x[0], "last": lambda x: x[-1], "len": lambda x: len(x),
        "minmax": lambda x: np.array([x.min(), x.max()]),
        "half": lambda x: x.sum() / 2,                 # float result, exact in binary
        "anyneg": lambda x: bool((x < 0).any()),       # bool result
    }


def _halves(vals):
    """float results of 'half' -> exact rationals [num, 2] (the specification's form)."""
    if vals is None:
        return None
    out = []
    for v in vals:
        t = float(v) * 2
        out.append([int(t), 2] if t.is_integer() else ["inexact", repr(v)])
    return out


def _post(f, vals):
    return _halves(vals) if f == "half" else vals


AXIS_FUNS = ("sum", "min", "max")


def _rows_of(piece):
    return [[str(c), int(r), str(i), str(nm), bool(h), str(an)] for c, r, i, nm, h, an in
            zip(piece.chain_id.tolist(), piece.res_id.tolist(), piece.ins_code.tolist(),
                piece.res_name.tolist(), piece.hetero.tolist(), piece.atom_name.tolist())]


def _iter_obs(gen, arr):
    """ids of the atoms of every yielded piece; carried = the pieces are containers of the same
    type that carry the annotations and coordinates of exactly those atoms of `arr`."""
    ids, ok = [], True
    rows = _rows_of(arr)
    for piece in gen:
        a = piece.aid.tolist()
        ids.append([int(x) for x in a])
        if type(piece) is not type(arr) or _rows_of(piece) != [rows[k] for k in a]:
            ok = False
        if piece.coord[..., 0].tolist() != ([a, a] if piece.coord.ndim == 3 else a):
            ok = False
    return {"ids": ids, "carried": ok}


def observe(view, inp, stack=False, cache=None):
    """Execute one view of the real API. `view` is a list [name, level, extra...].
    Returns [oc, value] with JSON-able canonical values. `cache` (a dict that lives as long
    as `inp`) lets consecutive views share the constructed containers (the views do not
    modify them)."""
    np = _np()
    name = view[0]
    level = view[1] if len(view) > 1 else ""
    if cache is None:
        cache = {}
    if name in ("mol_indices", "mol_masks", "mol_iter", "mol_count", "fc", "fcmask", "bonds"):
        return _observe_graph(view, inp, stack, cache)
    rows = inp["rows"]
    arr = cache.get(("arr", stack))
    if arr is None:
        arr = cache[("arr", stack)] = mk_array(rows, stack)
    F = _F(level) if level else None
    seg = _seg()
    if name == "rows":     # the annotations of the live object (binding of the edits)
        return _call(lambda: [r[:len(rows[0])] if rows else r for r in _rows_of(arr)])
    if name == "starts":
        return _call(lambda: _tolist(F["starts"](arr)))
    if name == "startsStop":
        return _call(lambda: _tolist(F["starts"](arr, add_exclusive_stop=True)))
    if name == "count":
        return _call(lambda: int(F["count"](arr)))
    if name == "iter":
        return _call(lambda: _iter_obs(F["iter"](arr), arr))
    if name == "iter_seg":
        return _call(lambda: _iter_obs(seg.segment_iter(arr, np.array(view[2], dtype=int)), arr))
    if name == "residues":
        def f():
            ids, names = _struc().get_residues(arr)
            return {"ids": _tolist(ids), "names": [str(x) for x in names.tolist()]}
        return _call(f)
    if name == "chains":
        return _call(lambda: [str(x) for x in _struc().get_chains(arr).tolist()])
    if name == "apply":
        data = np.array(inp["data"], dtype=int)
        return _call(lambda: _post(view[2], _tolist(F["apply"](arr, data, _funs()[view[2]]))))
    if name == "apply_axis":
        data = np.array(inp["data"], dtype=int)
        data2 = np.stack([data, data], axis=1) if len(data) else np.zeros((0, 2), dtype=int)
        return _call(lambda: _tolist(F["apply"](arr, data2, _funs()[view[2]], axis=0)))
    if name == "apply_seg":
        data = np.array(inp["data"], dtype=int)
        return _call(lambda: _post(view[2], _tolist(seg.apply_segment_wise(np.array(view[3], dtype=int), data,
                                                                             _funs()[view[2]]))))
    if name == "spread":
        vals = np.array(view[2], dtype=int)
        return _call(lambda: _tolist(F["spread"](arr, vals)))
    if name == "spread2d":
        vals = np.array(view[2], dtype=int)
        vals2 = np.stack([vals, vals], axis=1) if len(vals) else np.zeros((0, 2), dtype=int)
        return _call(lambda: _tolist(F["spread"](arr, vals2)))
    if name == "spread_seg":
        vals = np.array(view[2], dtype=int)
        return _call(lambda: _tolist(seg.spread_segment_wise(np.array(view[3], dtype=int), vals)))
    if name in ("sf", "pos", "masks"):
        idx = inp["idx"]
        ix = list(idx) if stack else np.array(idx, dtype=int)   # lists and arrays are both accepted
        return _call(lambda: _tolist(F[name](arr, ix)))
    if name in ("sf_seg", "pos_seg", "masks_seg"):
        idx = np.array(inp["idx"], dtype=int)
        fn = {"sf_seg": seg.get_segment_starts_for, "pos_seg": seg.get_segment_positions,
              "masks_seg": seg.get_segment_masks}[name]
        return _call(lambda: _tolist(fn(np.array(view[2], dtype=int), idx)))
    raise ValueError(f"unknown view {view}")


def _bond_list(subject):
    return subject if isinstance(subject, _struc().BondList) else subject.bonds


def apply_bond_edit(cache, b, turn=0):
    """Execute one edit of BondGraph!ApplyBondEdit on every live object of the cache (bond
    list, atom array, stack); orientation and bond type vary (they must not matter)."""
    for pos, key in enumerate(sorted(k for k in cache if k[0] == "g")):
        bl = _bond_list(cache[key])
        i, j = (b["i"], b["j"]) if (turn + pos) % 2 else (b["j"], b["i"])
        if b["how"] == "add":
            bl.add_bond(i, j, 1 + (turn + i + j) % 6)
        elif b["how"] == "remove":
            bl.remove_bond(i, j)
        else:
            raise ValueError(f"unknown bond edit {b}")


def _observe_graph(view, inp, stack, cache):
    np, struc = _np(), _struc()
    name = view[0]
    n, edges = inp["n"], inp["E"]
    how = view[1] if len(view) > 1 else "bonds"
    if ("g", how) in cache and name not in ("fc", "fcmask"):
        subject = cache[("g", how)]
    elif name in ("fc", "fcmask"):
        subject = None
    elif how == "bonds":
        subject = cache[("g", how)] = mk_bonds(n, edges)
    else:
        subject = cache[("g", how)] = mk_array([["A", 1, "", "X"]] * n, stack=(how == "stack"),
                                               edges=edges, n=n)
    if name == "bonds":    # the bonds of the live object (binding of the bond edits)
        return _call(lambda: sorted(sorted(int(x) for x in r[:2]) for r in _bond_list(subject).as_array().tolist()))
    if name in ("fc", "fcmask"):
        bl = cache.get(("g", "bonds"))
        if bl is None:
            bl = cache[("g", "bonds")] = mk_bonds(n, edges)
        root = int(view[2])
        if name == "fc":
            return _call(lambda: [int(x) for x in struc.find_connected(bl, root).tolist()])
        return _call(lambda: [int(k) for k, v in
                              enumerate(np.asarray(struc.find_connected(bl, root, as_mask=True)).tolist()) if v])
    if name == "mol_indices":
        return _call(lambda: [[int(x) for x in m.tolist()] for m in struc.get_molecule_indices(subject)])
    if name == "mol_masks":
        def f():
            m = struc.get_molecule_masks(subject)
            if m.dtype != bool or m.ndim != 2 or m.shape[1] != n:
                raise AssertionError(f"mask array of shape {m.shape} dtype {m.dtype}")
            return [[int(k) for k in np.where(r)[0].tolist()] for r in m]
        return _call(f)
    if name == "mol_iter":
        def f():
            out = []
            for piece in struc.molecule_iter(subject):
                if type(piece) is not type(subject):
                    raise AssertionError("molecule_iter changed the container type")
                out.append([int(x) for x in piece.aid.tolist()])
            return out
        return _call(f)
    raise ValueError(f"unknown view {view}")


# --------------------------------------------------------------------------- comparison
def _canon_sets(x):
    return sorted(sorted(int(v) for v in s) for s in x)


def _is_empty(v):
    return v is None or v == [] or v == {"ids": [], "carried": True}


def agree(view, exp, obs):
    """exp: the specification's value (to_py form of [oc |-> .., out |-> ..] or a bare value
    for views that always succeed); obs: [oc, value] from observe()."""
    name = view[0]
    if isinstance(exp, dict) and set(exp) == {"oc", "out"}:
        eoc, eout = exp["oc"], exp["out"]
    else:
        eoc, eout = "ok", exp
    ooc, oval = obs
    if eoc == "Rejected":
        return ooc == "Rejected"
    if eoc == "any":
        return ooc == "Rejected" or _is_empty(oval)
    if ooc != "ok":
        return False
    if name in ("iter", "iter_seg"):
        return oval["ids"] == eout and oval["carried"]
    if name in ("apply_axis", "spread2d"):
        return oval == [[v, v] for v in eout]
    if name in ("mol_indices", "mol_masks", "mol_iter"):
        flat = [v for s in oval for v in s]
        return (_canon_sets(oval) == _canon_sets(eout) and len(flat) == len(set(flat))
                and len(oval) == len(eout))
    if name in ("fc", "fcmask"):
        return sorted(oval) == sorted(eout) and len(oval) == len(set(oval))
    return oval == eout


def _mm(family, view, inp, exp, obs, stack):
    return {"kind": "case", "family": family, "view": view, "stack": stack, "inp": inp,
            "expected": exp, "observed": obs}


# --------------------------------------------------------------------------- S2 children
def _seg_views(inp, exp):
    """All (view, expected) pairs of one "seg" state."""
    n = len(inp["rows"])
    out = []
    for level in LEVELS:
        v = exp[level]
        out.append((["starts", level], v["starts"]))
        if n > 0:   # empty array: the code returns [] also with the stop (not compared)
            out.append((["startsStop", level], v["startsStop"]))
        out.append((["count", level], v["count"]))
        out.append((["iter", level], v["iter"]))
        for f, r in v["apply"].items():
            out.append((["apply", level, f], r))
            if f in AXIS_FUNS:
                out.append((["apply_axis", level, f], r))
            if n > 0:
                out.append((["apply_seg", level, f, v["startsStop"]], r))
        out.append((["spread", level, v["spreadVals"]], v["spread"]))
        out.append((["spread2d", level, v["spreadVals"]], v["spread"]))
        if n > 0:
            out.append((["spread_seg", level, v["spreadVals"], v["startsStop"]], v["spread"]))
            out.append((["iter_seg", level, v["startsStop"]], v["iter"]))
    out.append((["residues", ""], exp["residues"]))
    out.append((["chains", ""], exp["chains"]))
    return out


def _idx_views(inp, exp):
    n = len(inp["rows"])
    out = []
    for level in LEVELS:
        v = exp[level]
        for name in ("sf", "pos", "masks"):
            out.append(([name, level], v[name]))
            if n > 0:
                out.append(([name + "_seg", level, v["ss"]], v[name]))
    return out


def _h_views(step, first):
    """All (view, expected) pairs of one step of a history; `first` = the level asked first."""
    out = [(["rows", ""], step["rows"])]
    for level in (first,) + tuple(lv for lv in LEVELS if lv != first):
        v = step[level]
        out.append((["starts", level], v["starts"]))
        out.append((["startsStop", level], v["startsStop"]))
        out.append((["count", level], v["count"]))
        out.append((["iter", level], v["iter"]))
        for f in sorted(v["apply"]):
            out.append((["apply", level, f], v["apply"][f]))
        out.append((["spread", level, v["spreadVals"]], v["spread"]))
        for name in ("sf", "pos", "masks"):
            out.append(([name, level], v[name]))
        if level == "residue":
            out.append((["residues", ""], step["residues"]))
        else:
            out.append((["chains", ""], step["chains"]))
    return out


def _h_plan(exp, stack):
    """The calls of a history, step by step. The level asked first alternates so that for
    both levels a call directly before an edit and a call directly after one occur."""
    return [_h_views(step, LEVELS[(k + int(stack)) % 2]) for k, step in enumerate(exp)]


def run_history(inp, plan, stack, only=None, on_call=None, quiet=()):
    """One live object: the views of step 0, then for every edit the edit and the views of
    the next step. plan[k] = [(view, expected or None), ...]. Returns (mismatches, calls);
    `only` = (step, view) restricts the comparison (replay); after the steps in `quiet`
    nothing is asked (several edits between two calls)."""
    mism, calls = [], 0
    n = len(inp["rows"])
    cache = {}
    for k, views in enumerate(plan):
        if k > 0:
            arr = cache[("arr", stack)]
            apply_edit(arr, inp["edits"][k - 1])
        if k in quiet:
            continue
        cur = {"rows": [], "data": inp["data"], "idx": list(range(n))}
        for view, e in views:
            if view[0] == "rows":
                cur["rows"] = e if e is not None else cur["rows"]
            if not cache:
                cache[("arr", stack)] = mk_array(inp["rows"], stack)
            if on_call:
                on_call(k, view)
            obs = observe(view, cur, stack, cache)
            calls += 1
            if e is None or (only is not None and only != (k, view)):
                continue
            if not agree(view, e, obs):
                mism.append({"kind": "case", "family": "hist", "view": view, "stack": stack, "step": k,
                             "quiet": list(quiet), "inp": inp, "plan": [[v for v, _ in vs] for vs in plan],
                             "expected": e, "observed": obs})
    return mism, calls


def _g_plan(exp):
    """The calls of a history on a bond list, step by step."""
    plan = []
    for step in exp:
        views = [(["bonds", how], sorted(map(list, step["E"]))) for how in ("bonds", "array", "stack")]
        views += _graph_views(None, step)
        plan.append(views)
    return plan


def run_bond_history(inp, plan, only=None, on_call=None, quiet=()):
    """Live bond list / atom array / stack: the views of step 0, then for every bond edit the
    edit (on each live object) and the views of the next step (none after a step in `quiet`).
    Three live objects (bond list, array, stack) are asked in turn; the order is reversed every
    other time so that the last object asked before an edit is the first one asked after it."""
    mism, calls, asked = [], 0, 0
    cache = {}
    cur = {"n": inp["n"], "E": inp["E"]}
    for k, views in enumerate(plan):
        if k > 0:
            apply_bond_edit(cache, inp["edits"][k - 1], k)
        if k in quiet:
            continue
        asked += 1
        if asked % 2 == 0:
            views = views[::-1]
        for view, e in views:
            if on_call:
                on_call(k, view)
            obs = observe(view, cur, False, cache)
            calls += 1
            if e is None or (only is not None and only != (k, view)):
                continue
            if not agree(view, e, obs):
                mism.append({"kind": "case", "family": "ghist", "view": view, "stack": False, "step": k,
                             "quiet": list(quiet), "inp": inp, "plan": [[v for v, _ in vs] for vs in plan],
                             "expected": e, "observed": obs})
    return mism, calls


def _graph_views(inp, exp):
    out = []
    for how in ("bonds", "array", "stack"):
        out.append((["mol_indices", how], exp["comps"]))
        out.append((["mol_masks", how], exp["comps"]))
    out.append((["mol_iter", "array"], exp["comps"]))
    out.append((["mol_iter", "stack"], exp["comps"]))
    for root, r in exp["fc"]:
        out.append((["fc", "bonds", root], r))
        if root >= 0:
            out.append((["fcmask", "bonds", root], r))
    return out


def _views_of(kind, inp, exp):
    if kind == "seg":
        return inp, _seg_views(inp, exp)
    if kind == "idx":
        return inp, _idx_views(inp, exp)
    if kind in ("graph", "loop"):
        return inp, _graph_views(inp, exp)
    if kind == "lemma":
        g = {"n": exp["n"], "E": exp["E"]}
        # the driver's own subdivision must be the specification's (projection self-check)
        mine = sorted(map(list, subdivide_edges(inp["n"], exp["eseq"], inp["L"])))
        if mine != sorted(map(list, exp["E"])):
            raise AssertionError(f"driver subdivision differs from Subdivide for {inp}")
        return g, [(["mol_indices", "bonds"], exp["comps"]), (["mol_masks", "array"], exp["comps"]),
                   (["mol_iter", "array"], exp["comps"])]
    raise ValueError(kind)


def warmup():
    import biotite.structure  # noqa: F401
    import biotite.structure.segments  # noqa: F401


def exec_states(item):
    """Parse a byte range of TLC's dump and execute every state in it."""
    from harness.tlabind.pool import progress
    from harness.tlabind.tlaval import parse_state, to_py

    with open(item["path"], "rb") as fh:
        fh.seek(item["start"])
        text = fh.read(item["end"] - item["start"]).decode()
    mism, counts, edits = [], {}, {}
    ncalls = nontriv = nstates = 0
    for block in _blocks(text):
        if 'kind = "root"' in block or 'kind = "chunk"' in block:
            continue
        st = {k: to_py(v) for k, v in parse_state(block).items()}
        kind, inp, exp = st["kind"], st["inp"], st["exp"]
        nstates += 1
        counts[kind] = counts.get(kind, 0) + 1
        nontriv += _nontrivial(kind, inp, exp)
        if kind in ("hist", "extra"):
            for k, ed in enumerate(inp["edits"]):
                moved = any(exp[k][lv]["starts"] != exp[k + 1][lv]["starts"] for lv in LEVELS)
                key = ed["kind"] + ("/moved" if moved else "/kept")
                edits[key] = edits.get(key, 0) + 1
            # one-edit histories and the extra family run on both container types; a two-edit
            # history runs on one of them (fixed by the edits) with calls after every edit and on
            # the other one with both edits between two calls
            two = len(inp["edits"]) == 2
            pick = sum(ed["lo"] + ed["hi"] + ed["f"] for ed in inp["edits"]) % 2 == 1
            for stack in (False, True):
                mm, c = run_history(inp, _h_plan(exp, stack), stack, quiet=(1,) if two and stack != pick else (),
                                    on_call=lambda k, view: progress({"family": kind, "step": k, "view": view,
                                                                      "inp": inp}))
                for m in mm:
                    m["family"] = kind
                mism.extend(mm)
                ncalls += c
            continue
        if kind == "ghist":
            for k, b in enumerate(inp["edits"]):
                key = b["how"] + ("/moved" if exp[k]["comps"] != exp[k + 1]["comps"] else "/kept")
                edits[key] = edits.get(key, 0) + 1
            # with calls after every edit, and (two edits) with both edits between two calls
            for quiet in ((), (1,))[:len(inp["edits"])]:
                mm, c = run_bond_history(inp, _g_plan(exp), quiet=quiet,
                                         on_call=lambda k, view: progress({"family": kind, "step": k, "view": view,
                                                                           "inp": inp}))
                mism.extend(mm)
                ncalls += c
            continue
        subject, views = _views_of(kind, inp, exp)
        cache = {}
        for view, e in views:
            stacks = (False,) if kind in ("graph", "lemma", "loop") else (False, True)
            for stack in stacks:
                if stack and view[0].endswith("_seg") and view[0] != "iter_seg":
                    continue   # segments.py functions that never see the atom container
                progress({"family": kind, "view": view, "inp": subject})
                obs = observe(view, subject, stack, cache)
                ncalls += 1
                if not agree(view, e, obs):
                    mism.append(_mm(kind, view, subject, e, obs, stack))
    return {"mismatch": mism, "states": nstates, "calls": ncalls, "kinds": counts, "edits": edits,
            "nontrivial": nontriv}


def _blocks(text):
    cur = []
    for line in text.splitlines(keepends=True):
        if line.startswith("State ") and line.rstrip().endswith(":"):
            if cur and "".join(cur).strip():
                yield "".join(cur)
            cur = []
        else:
            cur.append(line)
    if cur and "".join(cur).strip():
        yield "".join(cur)


def _nontrivial(kind, inp, exp):
    """Rule (ctx.cov['rule'])."""
    if kind == "hist":     # an edit moved a boundary
        return int(any(a[lv]["starts"] != b[lv]["starts"] for a, b in zip(exp, exp[1:]) for lv in LEVELS))
    if kind == "ghist":    # a bond edit merged or split molecules
        return int(any(a["comps"] != b["comps"] for a, b in zip(exp, exp[1:])))
    if kind == "extra":    # >= 2 residues and non-key annotations that are not constant
        return int(len(exp[0]["residue"]["starts"]) >= 2 and len({tuple(r[4:]) for r in inp["rows"]}) >= 2)
    if kind in ("seg", "idx"):
        key = "starts" if kind == "seg" else "ss"
        s = exp["residue"][key]
        nseg = len(s) - (1 if kind == "idx" and s else 0)
        return int(nseg >= 2 and len(inp["rows"]) > nseg)
    return int(len(inp["E"]) >= 1 and len(exp["comps"]) >= 2)


# --------------------------------------------------------------------------- scaling
def subdivide_edges(n, eseq, L):
    """Concretisation of BondGraph!Subdivide: bond number k (1-based position in the
    specification's EdgeSeq) gets the new atoms n+(k-1)L .. n+kL-1 as a path."""
    out = []
    for k, (u, v) in enumerate(eseq):
        if L == 0:
            out.append([u, v])
            continue
        lo = n + k * L
        out.append([u, lo])
        out.append([v, lo + L - 1])
        out.extend([lo + m, lo + m + 1] for m in range(L - 1))
    return out


def _largest_component(n, sym, L):
    return max([len(c["nodes"]) + L * len(c["edges"]) for c in sym] or [0])


def exec_scale(item):
    """One graph with every bond subdivided by L atoms, 8 MiB stack. Expected components come
    from the specification's symbolic form (old atoms + bond numbers), lemma Law_Subdivide."""
    import resource

    from harness.tlabind.pool import progress

    np, struc = _np(), _struc()
    n, eseq, sym, L = item["n"], item["eseq"], item["sym"], item["L"]
    soft, hard = resource.getrlimit(resource.RLIMIT_STACK)
    resource.setrlimit(resource.RLIMIT_STACK, (STACK_BYTES, hard))
    N = n + L * len(eseq)
    label = np.full(N, -1, dtype=np.int64)
    for c, comp in enumerate(sym):
        label[np.array(comp["nodes"], dtype=np.int64)] = c
        for k in comp["edges"]:
            label[n + (k - 1) * L: n + k * L] = c
    sizes = np.bincount(label, minlength=len(sym)) if N else np.zeros(0, dtype=int)
    info = {"family": "scale", "n": n, "E": eseq, "L": L, "atoms": int(N),
            "max_component": _largest_component(n, sym, L)}
    ed = subdivide_edges(n, eseq, L)
    if ed:
        e = np.array(ed, dtype=np.int64)
        bl = struc.BondList(int(N), np.concatenate([e, np.ones((len(e), 1), dtype=np.int64)], axis=1))
    else:
        bl = struc.BondList(int(N))
    mism, calls = [], 0

    def judge(view, pieces):
        """pieces: list of index arrays; must be exactly the label classes."""
        seen = set()
        ok = len(pieces) == len(sym)
        for p in pieces:
            p = np.asarray(p)
            if len(p) == 0:
                ok = False
                continue
            c = int(label[p[0]])
            if c in seen or not (label[p] == c).all() or len(p) != sizes[c] or len(np.unique(p)) != len(p):
                ok = False
            seen.add(c)
        if not ok:
            mism.append({"kind": "case", "family": "scale", "view": view, "inp": {"n": n, "E": eseq, "L": L},
                         "expected": {"components": len(sym), "sizes": sizes.tolist()},
                         "observed": {"components": len(pieces), "sizes": [int(len(p)) for p in pieces][:20]}})

    roots = sorted({0, n - 1, N - 1, N // 2} & set(range(N)))
    for r in roots:
        progress(dict(info, view=["fc", r]))
        got = struc.find_connected(bl, r)
        calls += 1
        want = np.where(label == label[r])[0]
        if len(got) != len(want) or not (np.asarray(got) == want).all():
            mism.append({"kind": "case", "family": "scale", "view": ["fc", r], "inp": {"n": n, "E": eseq, "L": L},
                         "expected": {"size": int(len(want))}, "observed": {"size": int(len(got))}})
    progress(dict(info, view=["mol_indices"]))
    judge(["mol_indices"], struc.get_molecule_indices(bl))
    progress(dict(info, view=["mol_masks"]))
    judge(["mol_masks"], [np.where(m)[0] for m in struc.get_molecule_masks(bl)])
    calls += 2
    if N <= 20000:
        arr = mk_array([], n=int(N))
        arr.bonds = bl
        progress(dict(info, view=["mol_iter"]))
        judge(["mol_iter"], [p.aid for p in struc.molecule_iter(arr)])
        calls += 1
    return {"mismatch": mism, "calls": calls, "atoms": int(N), "max_component": info["max_component"]}


# --------------------------------------------------------------------------- S3 child
CHAINS = ["A", "B", "C", ""]
INS = ["", "A", "B"]
NAMES = ["X", "Y", "ALA", "HOH"]


ATOM_NAMES = ["CA", "N", "O", "C1"]


def _rand_key(rng):
    return [rng.choice(CHAINS), rng.randint(-2, 6), rng.choice(INS), rng.choice(NAMES)]


def _rand_rows(rng, n):
    """Rows of six components. The non-key annotations (hetero, atom name) vary on their own:
    constant, changing with the residues (ligand-like), or atom by atom."""
    rows = []
    cur = _rand_key(rng)
    style = rng.choice(["const", "residue", "atom", "atom"])
    het = rng.random() < 0.3
    for _ in range(n):
        r = rng.random()
        new = True
        if r < 0.45:
            new = False
        elif r < 0.60:
            cur[1] += rng.choice([1, 1, 1, 2, -1, -3])
        elif r < 0.70:
            cur[0] = rng.choice(CHAINS)
        elif r < 0.80:
            cur[2] = rng.choice(INS)
        elif r < 0.90:
            cur[3] = rng.choice(NAMES)
        else:
            cur = _rand_key(rng)
        if style == "atom" or (style == "residue" and new):
            het = rng.random() < 0.5
        rows.append(list(cur) + [het, rng.choice(ATOM_NAMES)])
    return rows


def _rand_edit(rng, rows):
    """A random edit inside the array (Dom_Edit). Half of the values are taken from an atom
    next to the edited range (boundaries disappear), the others are fresh (boundaries appear)."""
    n = len(rows)
    kind = rng.choice(["set", "set", "fill", "assign", "atom"])
    lo = rng.randrange(n)
    hi = lo + 1 if kind in ("set", "atom") else rng.randint(lo + 1, n)
    nb = [k for k in (lo - 1, hi) if 0 <= k < n]
    if kind == "atom":
        if nb and rng.random() < 0.5:
            row = list(rows[rng.choice(nb)])
        else:
            row = _rand_key(rng) + [rng.random() < 0.5, rng.choice(ATOM_NAMES)]
        return {"kind": kind, "f": 0, "lo": lo, "hi": hi, "v": row}
    f = rng.choice([1, 2, 2, 3, 4, 5, 5, 6])
    if nb and rng.random() < 0.5:
        v = rows[rng.choice(nb)][f - 1]
    else:
        v = [rng.choice(CHAINS), rows[lo][1] + rng.choice([-3, -1, 1, 2, 100]), rng.choice(INS),
             rng.choice(NAMES), rng.random() < 0.5, rng.choice(ATOM_NAMES)][f - 1]
    return {"kind": kind, "f": f, "lo": lo, "hi": hi, "v": v}


def _rand_graph(rng, n):
    pairs = [[i, j] for i in range(n) for j in range(i + 1, n)]
    style = rng.random()
    if style < 0.3:      # sparse forest-like
        k = rng.randint(0, max(0, n - 1))
    elif style < 0.6:
        k = rng.randint(0, n + 2)
    elif style < 0.8:    # a few long paths over a random atom order
        order = list(range(n))
        rng.shuffle(order)
        cut = {rng.randrange(n) for _ in range(rng.randint(0, 3))} if n else set()
        e = [sorted([order[i], order[i + 1]]) for i in range(n - 1) if i not in cut]
        return sorted(e)
    else:
        k = rng.randint(0, len(pairs))
    rng.shuffle(pairs)
    return sorted(pairs[:min(k, len(pairs))])


def gen_trace(item):
    """A seeded session against the real API; every call is logged with its observation."""
    from harness.tlabind.pool import progress

    rng = random.Random(item["seed"])
    ev = []
    if item["what"] == "seg":
        # one or two live arrays; calls and in-place edits of their annotations interleave
        subj = []
        for slot in range(1 if rng.random() < 0.5 else 2):
            n = rng.choice([0, 1, 2]) if rng.random() < 0.12 else rng.randint(3, item["nmax"])
            rows = _rand_rows(rng, n)
            data = [rng.randint(-9, 9) for _ in range(n)]
            subj.append({"n": n, "inp": {"rows": rows, "data": data}, "stack": rng.random() < 0.3, "cache": {}})
            ev.append({"op": "load", "slot": slot + 1, "rows": rows, "data": data, "stack": subj[-1]["stack"]})
        for _ in range(item["length"]):
            op = rng.choice(["starts", "startsStop", "count", "iter", "apply", "apply", "spread", "sf", "pos",
                             "masks", "sf", "masks", "residues", "chains", "edit", "edit", "edit", "edit"])
            level = rng.choice(LEVELS)
            slot = rng.randrange(len(subj))
            S = subj[slot]
            n, inp, stack, cache = S["n"], S["inp"], S["stack"], S["cache"]
            e = {"op": op, "slot": slot + 1, "level": level}
            case = inp
            if op == "startsStop" and n == 0:
                continue
            if op == "edit":
                if n == 0:
                    continue
                if not cache:
                    observe(["count", "residue"], inp, stack, cache)    # the live object exists
                arr = cache[("arr", stack)]
                ed = _rand_edit(rng, _rows_of(arr))
                progress({"family": "s3", "view": ["edit", ed], "inp": inp})
                apply_edit(arr, ed)
                ev.append({"op": "edit", "slot": slot + 1, "ed": ed, "oc": "ok", "out": _rows_of(arr)})
                continue
            if op in ("residues", "chains"):
                e["level"] = ""
                view = [op, ""]
            elif op == "apply":
                e["f"] = rng.choice(sorted(_funs()))
                view = [op, level, e["f"]]
            elif op == "spread":
                # as many values as the implementation counts segments now (Dom_SpreadVals)
                oc, c = observe(["count", level], inp, stack, cache)
                ev.append({"op": "count", "slot": slot + 1, "level": level, "view": ["count", level],
                           "oc": oc, "none": False, "out": c if oc == "ok" else []})
                e["vals"] = [rng.randint(-20, 20) for _ in range(c if oc == "ok" else 0)]
                view = [op, level, e["vals"]]
            elif op in ("sf", "pos", "masks"):
                k = rng.randint(0, 5)
                idx = [rng.randrange(n) for _ in range(k)] if n else [0] * min(k, 1)
                if n and rng.random() < 0.15:
                    idx.insert(rng.randint(0, len(idx)), rng.choice([-1, n, n + 3, -n]))
                e["idx"] = idx
                case = dict(inp, idx=idx)
                view = [op, level]
            else:
                view = [op, level]
            e["view"] = view
            progress({"family": "s3", "view": view, "inp": case})
            oc, v = observe(view, case, stack, cache)
            if op == "iter" and oc == "ok":
                e["carried"] = v["carried"]
                v = v["ids"]
            e["oc"] = oc
            e["none"] = bool(oc == "ok" and v is None)
            e["out"] = v if oc == "ok" and v is not None else []
            ev.append(e)
    else:
        # one live bond list (and the atom array / stack built on first use); calls and
        # add_bond / remove_bond interleave
        n = rng.choice([0, 1]) if rng.random() < 0.08 else rng.randint(2, item["nmax"])
        E = _rand_graph(rng, n)
        inp = {"n": n, "E": E}
        cache = {}
        ev.append({"op": "graph", "n": n, "E": E})
        observe(["bonds", "bonds"], inp, False, cache)        # the live bond list exists
        for turn in range(item["length"]):
            op = rng.choice(["mol_indices", "mol_masks", "mol_iter", "fc", "fc", "fcmask", "bond", "bond"])
            e = {"op": op}
            if op == "bond":
                if n < 2:
                    continue
                i, j = sorted(rng.sample(range(n), 2))
                now = observe(["bonds", "bonds"], inp, False, cache)[1]
                if now and rng.random() < 0.5:
                    i, j = rng.choice(now)                     # an existing bond
                b = {"how": rng.choice(["add", "remove", "remove"]), "i": i, "j": j}
                progress({"family": "s3", "view": ["bond", b], "inp": inp})
                apply_bond_edit(cache, b, turn)
                outs = [observe(["bonds", k[1]], inp, False, cache)[1] for k in sorted(cache) if k[0] == "g"]
                # objects built later start from the bonds the live bond list has now
                inp = {"n": n, "E": outs[0]}
                ev.append({"op": "bond", "b": b, "turn": turn, "oc": "ok", "out": outs})
                continue
            if op in ("fc", "fcmask"):
                root = rng.randint(-1, n + 1) if op == "fc" and rng.random() < 0.2 else (rng.randrange(n) if n else 0)
                e["root"] = root
                view = [op, "bonds", root]
            else:
                view = [op, rng.choice(["array", "stack"] if op == "mol_iter" else ["bonds", "array", "stack"])]
            e["view"] = view
            progress({"family": "s3", "view": view, "inp": inp})
            oc, v = observe(view, inp, False, cache)
            e["oc"] = oc
            e["out"] = v if oc == "ok" else []
            ev.append(e)
    return {"events": ev}


def _redo(events):
    """Re-execute a recorded session (loads, edits, calls) on fresh live objects;
    -> observation [oc, value] of its last event."""
    subj, graph, obs = {}, None, None
    for e in events:
        op = e["op"]
        if op == "load":
            subj[e["slot"]] = {"inp": {"rows": e["rows"], "data": e["data"]}, "stack": e.get("stack", False),
                               "cache": {}}
        elif op == "graph":
            graph = {"n": e["n"], "E": e["E"]}
            gcache = {}
            observe(["bonds", "bonds"], graph, False, gcache)
        elif op == "bond":
            apply_bond_edit(gcache, e["b"], e["turn"])
            outs = [observe(["bonds", k[1]], graph, False, gcache)[1] for k in sorted(gcache) if k[0] == "g"]
            graph = {"n": graph["n"], "E": outs[0]}
            obs = ["ok", outs]
        elif op == "edit":
            S = subj[e["slot"]]
            if not S["cache"]:
                observe(["count", "residue"], S["inp"], S["stack"], S["cache"])
            arr = S["cache"][("arr", S["stack"])]
            apply_edit(arr, e["ed"])
            obs = ["ok", _rows_of(arr)]
        elif "slot" in e:
            S = subj[e["slot"]]
            obs = observe(e["view"], dict(S["inp"], idx=e.get("idx", [])), S["stack"], S["cache"])
            if op == "iter" and obs[0] == "ok":
                obs = ["ok", obs[1]["ids"]] if obs[1]["carried"] else ["ok", {"not carried": obs[1]["ids"]}]
        else:
            obs = observe(e["view"], graph, False, gcache)
    return obs


# --------------------------------------------------------------------------- classification
def classify(mm):
    """Known finding: a native crash (SIGSEGV) inside find_connected / get_molecule_* on a bond
    graph with a connected component of tens of thousands of atoms (recursive DFS)."""
    if mm.get("kind") == "crash" and mm.get("signal") == 11:
        p = mm.get("progress") or {}
        if (p.get("family") == "scale" and p.get("max_component", 0) >= BIG_COMPONENT
                and p.get("view", [""])[0] in ("fc", "mol_indices", "mol_masks", "mol_iter")):
            return KF_RECURSION
    return None


# --------------------------------------------------------------------------- orchestration
def _split_dump(path, nitems):
    """Byte ranges of the dump file that start at 'State n:' lines."""
    size = os.path.getsize(path)
    marks = []
    with open(path, "rb") as fh:
        pos = 0
        for line in fh:
            if line.startswith(b"State ") and line.rstrip().endswith(b":"):
                marks.append(pos)
            pos += len(line)
    if not marks:
        return [], 0
    per = max(1, (len(marks) + nitems - 1) // nitems)
    items = []
    for i in range(0, len(marks), per):
        end = marks[i + per] if i + per < len(marks) else size
        items.append({"path": path, "start": marks[i], "end": end})
    return items, len(marks)


def _scale_plan(ctx, graphs):
    """(graph state, L) pairs for the scaling runs, chosen with the seeded generator."""
    by_n = {}
    for g in graphs:
        by_n.setdefault(g["inp"]["n"], []).append(g)
    for v in by_n.values():
        v.sort(key=lambda g: json.dumps(g["inp"], sort_keys=True))
    small = [g for k in sorted(by_n) if k <= 4 for g in by_n[k] if g["inp"]["E"]]
    five = [g for g in by_n.get(5, []) if g["inp"]["E"]]
    plan = []
    q = ctx.quick
    for g in (ctx.rng.sample(small, min(len(small), 30)) if q else small):
        plan.append((g, 10))
    for g in ctx.rng.sample(five, min(len(five), 20 if q else 200)):
        plan.append((g, 10))
    for g in ctx.rng.sample(small + five, min(len(small + five), 16 if q else 120)):
        plan.append((g, 1000))
    # long paths: up to two bonds per component keep the recursion below ~60,000 frames at
    # L = 20,000; L = 50,000 with two or more bonds in a component exceeds an 8 MiB stack
    few = [g for g in small if all(len(c["edges"]) <= 2 for c in g["exp"]["sym"])]
    for g in ctx.rng.sample(few, min(len(few), 5 if q else 16)):
        plan.append((g, 20000))
    named = {json.dumps(sorted(map(list, g["inp"]["E"]))): g for g in small}
    for key in ("[[0, 1]]", "[[0, 1], [1, 2]]", "[[0, 1], [0, 2], [1, 2]]", "[[0, 1], [2, 3]]",
                "[[0, 1], [0, 2], [0, 3]]"):
        g = named.get(key)
        if g is not None and (not q or key in ("[[0, 1]]", "[[0, 1], [1, 2]]", "[[0, 1], [2, 3]]")):
            plan.append((g, 50000))
    return plan


def run(ctx):
    from harness.tlabind import helpers, pool, tlc
    from harness.tlabind.core import Vacuity
    from harness.tlabind.tlaval import parse_state, to_py

    quick = ctx.quick
    ctx.assumptions += [
        "Dom_Indices: atom indices given to *_starts_for / *_positions / *_masks are 0 <= i < n (others: Rejected)",
        "Dom_Data / Dom_SpreadVals: one datum per atom, one value per segment (np.repeat broadcasting of other lengths is outside the domain)",
        "empty atom array: starts=[], count=0, names=[], iteration yields nothing are compared; index-taking views and apply accept an exception or an empty/None result; add_exclusive_stop on an empty array is not compared",
        "reducing functions are the nine of Segments!Funs on integer data (sum,min,max,first,last,len, array-valued minmax, float-valued half = sum/2 compared as an exact rational, bool-valued anyneg; axis=0 variants on two equal columns)",
        "molecules are compared as sets of atom sets (order of the list is not demanded); bond types and bond orientation are irrelevant",
        "large graphs: expectation from the subdivision lemma (checked by TLC for L<=2); runs under an explicit 8 MiB stack limit",
        "Dom_Edit: in-place edits of the annotations lie inside the array (element, non-empty slice, re-assigned annotation array, array[i] = Atom); the rows read back from the object after an edit are compared with Segments!ApplyEdit, the array length never changes within a history",
        "non-key annotations are represented by the hetero flag and the atom name (the element follows the atom name); other annotation categories are not varied",
        "trusted: TLC, the TLA+ value parser, numpy, the construction of AtomArray/BondList from rows/edges, the aid annotation used to identify atoms in yielded sub-arrays",
    ]
    ctx.cov["rule"] = ("non-trivial = segmentation with >= 2 residues of which one has >= 2 atoms; "
                       "bond graph with >= 1 bond and >= 2 molecules; history in which an edit moves a "
                       "boundary; >= 2 residues with non-constant non-key annotations")
    # ---- S1: exhaustive bounded model + dump of all (input, expected) states ---------------
    d = tlc.scratch_dir("c17")
    prefix = os.path.join(d, "states")
    cfg = "MC.cfg" if quick else "MC_thorough.cfg"
    res = ctx.tlc("SegMol", cfg, stage="S1", dump=prefix, workers=8 if quick else 16,
                  timeout=600 if quick else 3000)
    ctx.exhaustive = True
    path = prefix + ".dump" if os.path.exists(prefix + ".dump") else prefix
    items, nstates = _split_dump(path, 256 if quick else 1500)
    if nstates != res.distinct:
        raise RuntimeError(f"dump holds {nstates} states, TLC reported {res.distinct}")
    # ---- S2a: every state against the real API ---------------------------------------------
    results = helpers.run_pool(ctx, "harness.drivers.c17:exec_states", items, stage="S2", item_timeout=120)
    kinds, edits, calls, done = {}, {}, 0, 0
    for r in results:
        if not r or "crash" in r:
            continue
        done += r.get("states", 0)
        calls += r.get("calls", 0)
        ctx.nontrivial += r.get("nontrivial", 0)
        for k, v in r.get("kinds", {}).items():
            kinds[k] = kinds.get(k, 0) + v
        for k, v in r.get("edits", {}).items():
            edits[k] = edits.get(k, 0) + v
    ctx.cov["s2_states_per_family"] = kinds
    ctx.cov["s2_history_edits"] = dict(sorted(edits.items()))
    ctx.cov["s2_real_calls"] = calls
    ctx.traces_validated += done
    ctx.evaluations += calls
    missing = {"seg", "idx", "graph", "lemma", "loop", "extra", "hist", "ghist"} - set(kinds)
    if missing:
        raise Vacuity(f"input families never executed: {sorted(missing)}")
    # histories: every kind of edit both moved a boundary and left the segmentation alone
    missing = {k + w for k in ("set", "fill", "assign", "atom") for w in ("/moved", "/kept")} - set(edits)
    missing |= {k + w for k in ("add", "remove") for w in ("/moved", "/kept")} - set(edits)
    if missing:
        raise Vacuity(f"edits of the history family never occurred: {sorted(missing)}")
    ctx.log(f"S2: {done}/{nstates} states, {calls} real calls, families {kinds}")
    # ---- S2b: scaling through the subdivision lemma ----------------------------------------
    graphs = []
    with open(path) as fh:
        text = fh.read()
    for block in _blocks(text):
        if 'kind = "graph"' in block:
            st = {k: to_py(v) for k, v in parse_state(block).items()}
            graphs.append(st)
    del text
    plan = _scale_plan(ctx, graphs)
    sitems = [{"n": g["inp"]["n"], "eseq": g["exp"]["eseq"], "sym": g["exp"]["sym"], "L": L} for g, L in plan]
    sres = helpers.run_pool(ctx, "harness.drivers.c17:exec_scale", sitems, stage="S2-scale",
                            item_timeout=300, procs=8)
    ok_big = crashed = 0
    biggest_ok = 0
    for it, r in zip(sitems, sres):
        if r and "crash" in r:
            crashed += 1
            continue
        if r:
            ctx.evaluations += r.get("calls", 0)
            ctx.traces_validated += 1
            if not r.get("mismatch"):
                biggest_ok = max(biggest_ok, r.get("max_component", 0))
                ok_big += int(r.get("max_component", 0) >= 10000)
    ctx.cov["s2_scale_runs"] = len(sitems)
    ctx.cov["s2_scale_crashed"] = crashed
    ctx.cov["s2_scale_largest_component_handled"] = biggest_ok
    ctx.cov["s2_scale_runs_with_component_ge_10000_ok"] = ok_big
    ctx.log(f"S2-scale: {len(sitems)} runs, {crashed} crashed, largest component handled {biggest_ok}")
    if ok_big == 0:
        raise Vacuity("no scaling run with a component of >= 10,000 atoms completed")
    for g, L in plan[:2]:
        ctx.sample({"s2_scale": {"n": g["inp"]["n"], "E": g["inp"]["E"], "L": L, "sym": g["exp"]["sym"]}})
    ctx.sample({"s2_state": graphs[len(graphs) // 2]})
    # ---- S3: recorded sessions validated by TLC --------------------------------------------
    ntr = 36 if quick else 900
    titems = []
    for k in range(ntr):
        what = "graph" if k % 3 == 2 else "seg"
        titems.append({"seed": ctx.rng.randrange(1 << 30), "what": what,
                       "length": 14 if quick else 16,
                       "nmax": (9 if what == "graph" else 14)})
    tres = pool.run_isolated("harness.drivers.c17:gen_trace", titems, item_timeout=60)
    traces = []
    for it, r in zip(titems, tres):
        if "driver_error" in r:
            raise RuntimeError(f"S3 driver error: {r['driver_error']}\n{r.get('tb', '')}")
        if "crash" in r:
            ctx.mismatch({"stage": "S3", "kind": "crash", "signal": r["crash"],
                          "progress": r.get("progress"), "item": it})
            continue
        traces.append(r["events"])
    try:
        mms = helpers.tlc_validate(ctx, traces, timeout=1200)
    except (tlc.TLCFailure, RuntimeError) as e:
        if not ctx.violations:
            raise
        # the implementation already disagrees with the model in S2; a session recorded from
        # it may leave the domain of the trace specification - the verdict stands
        ctx.note(f"S3 trace validation not completed after S2 violations: {str(e)[:300]}")
        return
    nev = sum(len(t) - 1 for t in traces)
    ctx.traces_validated += len(traces)
    ctx.evaluations += nev
    ctx.cov["s3_traces"] = len(traces)
    ctx.cov["s3_events"] = nev
    ops = {}
    for t in traces:
        for e in t:
            ops[e["op"]] = ops.get(e["op"], 0) + 1
    ctx.cov["s3_events_per_op"] = ops
    if not ops.get("edit"):
        raise Vacuity("no recorded session edited a live array")
    ctx.sample({"s3_events": traces[0][:3]})
    for m in mms:
        _tag, tid, l = m[0], m[1], m[2]
        e = traces[tid - 1][l - 1]
        ctx.mismatch({"stage": "S3", "kind": "event", "trace": tid, "event": l, "op": e["op"],
                      "history": traces[tid - 1][:l], "call": e, "expected": m[3:]})

    turn = {"k": 0, "edits": 0}

    def corrupt(tr):
        # every second trace: the rows read back after an edit (the edit must bind), otherwise
        # and in traces without an edit: the first non-empty observation
        turn["k"] += 1
        if turn["k"] % 2 == 0:
            for e in tr[1:]:
                if e["op"] == "edit" and e["out"]:
                    row = e["out"][e["ed"]["lo"]]
                    row[4] = not row[4]
                    turn["edits"] += 1
                    return True
        for e in tr[1:]:
            if e["op"] != "edit" and e.get("oc") == "ok" and isinstance(e.get("out"), list) and e["out"]:
                x = e["out"]
                while isinstance(x[0], list) and x[0]:
                    x = x[0]
                if isinstance(x[0], bool):
                    x[0] = not x[0]
                elif isinstance(x[0], int):
                    x[0] = x[0] + 1
                else:
                    continue
                return True
        return False

    helpers.binding_selftest(ctx, traces, corrupt, max_traces=8)
    ctx.cov["selftest_corrupted_edits"] = turn["edits"]


def replay(record):
    """Re-execute one stored mismatch against the current code."""
    kind = record.get("kind")
    if kind == "case" and record.get("family") in ("seg", "idx", "graph", "lemma", "loop"):
        obs = observe(record["view"], record["inp"], record.get("stack", False))
        return {"view": record["view"], "inp": record["inp"], "expected": record["expected"],
                "observed": obs, "mismatch": not agree(record["view"], record["expected"], obs)}
    if kind == "case" and record.get("family") in ("hist", "extra"):
        # the whole history is re-executed on a fresh live object (every call of every step, in
        # the recorded order); the recorded step/view is compared with the recorded expectation
        plan = [[(v, record["expected"] if (k, v) == (record["step"], record["view"]) else None) for v in vs]
                for k, vs in enumerate(record["plan"])]
        mm, _ = run_history(record["inp"], plan, record.get("stack", False), quiet=tuple(record.get("quiet", ())))
        return {"view": record["view"], "step": record["step"], "inp": record["inp"],
                "expected": record["expected"], "observed": mm[0]["observed"] if mm else "as expected",
                "mismatch": bool(mm)}
    if kind == "case" and record.get("family") == "ghist":
        plan = [[(v, record["expected"] if (k, v) == (record["step"], record["view"]) else None) for v in vs]
                for k, vs in enumerate(record["plan"])]
        mm, _ = run_bond_history(record["inp"], plan, quiet=tuple(record.get("quiet", ())))
        return {"view": record["view"], "step": record["step"], "inp": record["inp"],
                "expected": record["expected"], "observed": mm[0]["observed"] if mm else "as expected",
                "mismatch": bool(mm)}
    if kind == "case" and record.get("family") == "scale":
        return {"error": "scale cases are replayed through ./check (they need the 8 MiB stack child)",
                "record": record}
    if kind == "event":
        # re-execute the recorded session up to the call and compare with the value TLC printed
        e = record["call"]
        obs = _redo(record["history"])
        exp = record.get("expected") or []
        view = e.get("view", [e["op"]])
        if len(exp) == 2 and exp[0] in ("ok", "Rejected", "any"):
            if e["op"] == "edit":
                bad = obs != ["ok", exp[1]]
            elif e["op"] == "bond":
                bad = obs[0] != "ok" or any(sorted(map(list, o)) != sorted(map(list, exp[1])) for o in obs[1])
            else:
                bad = not agree(["starts"] if e["op"] == "iter" else view, {"oc": exp[0], "out": exp[1]}, obs)
        elif len(exp) == 2 and exp[0] == "WrongSegmentCount":
            # the number of values to spread was the implementation's own segment count (the
            # "count" event logged directly before); the specification counts exp[1][0]
            obs = _redo(record["history"][:-1])
            bad = obs != ["ok", exp[1][0]]
        else:
            bad = True
        return {"view": view, "history": record["history"][:-1], "logged": e, "observed_now": obs,
                "spec_expected": exp, "mismatch": bad}
    if kind == "crash":
        return {"error": "crash records are replayed through ./check", "record": record, "crash": True}
    return {"error": "unknown record", "record": record}


MANIFEST = {
    "technique": "TLA+ specification of residue/chain segmentation and of bond-graph components (specs/C17), implementation-shaped definitions proved equal to per-atom definitions by TLC on all bounded inputs; every TLC state (input, expected) executed against the real functions; graphs scaled to 10^5 atoms through a model-checked subdivision lemma; recorded sessions re-computed by TLC",
    "level_text": "TLC enumerates all annotation sequences up to length 3 over 16 rows (length 4 in the thorough tier) plus up to length 4 (5) over rows differing in exactly one field, all index arrays up to length 2 (3) with out-of-range entries, all bond graphs on <=5 (6) atoms; for each it checks that change-mask/searchsorted/slice/repeat/DFS-shaped definitions equal the atom-by-atom definitions, then every such state is run against get_residue_*/get_chain_*/residue_iter/chain_iter/apply_*/spread_*/get_segment_*/get_molecule_*/molecule_iter/find_connected on AtomArray and AtomArrayStack. Arrays of <=3 (4) atoms whose hetero flag and atom name vary independently of the four keys (12-row alphabet) are run the same way, and histories on one live object are enumerated: every array of <=3 (4) atoms x every single in-place edit of an annotation (element or slice assignment, re-assigned annotation array, array[i] = Atom; 6 fields), and every pair of edits on uniform arrays of <=2 (3) atoms - all views are asked before and after each edit and must answer for the current annotations. Graphs are re-run with each bond subdivided into paths of 10..50,000 atoms under an 8 MiB stack. Longer arrays (<=14 atoms, 4 chains, negative ids, varying hetero flags / atom names) and random graphs (<=9 atoms) are covered by recorded sessions validated by TLC; a session keeps one or two live arrays and interleaves calls with random in-place edits.",
    "level_note": "Bounded model checking plus conformance, not proof. Reducing functions are nine fixed functions (integer, float, bool and array results) on integer data; float data are not used. For empty arrays only starts/count/names/iteration are compared. The order of the molecule list is not demanded. Histories edit annotations in place only (no change of the array length, no edits through views or copies sharing memory); of the non-key annotations only the hetero flag, atom name and element are varied. Large graphs are checked only in the subdivided-small-graph family and their expectation rests on a lemma model-checked for L<=2. Crashes of the recursive find_connected on components of tens of thousands of atoms are a listed known finding (bonds.pyx cannot be rebuilt here).",
}
