"""X09: trajectory files - windowed, strided, chunked and atom-selected reading equals slicing
the written frames; TrajectoryFile as a state machine.

S1  TLC checks MCTraj (specs/X09): the implementation-shaped reader (cursor arithmetic of
    TrajectoryFile.read / _read_chunk_wise / read_iter on the primitive read(n_frames, stride))
    equals the Python slice full[start:stop:step] for every bounded call, whatever the chunk size.
S2  every enumerated call (format x frame count x start x stop x step x chunk/stack size x atom
    selection) is executed against the real XTCFile / TRRFile / DCDFile / NetCDFFile on a file
    written with set_coord/set_time/set_box + write, and compared with the frames TLC computed.
S3  seeded histories of a live file object (set_* / getters / copy / write + read back /
    get_structure) and calls on bigger trajectories are recorded and re-computed by TLC (Trace.tla).
"""

from __future__ import annotations

import os
import shutil

PROPERTY = "X09"

MANIFEST = {
    "technique": "TLA+ specification (TrajRead: declarative Python slice next to the implementation-shaped "
                 "cursor/chunk reader, iterator, template binding, file object state machine) model-checked by "
                 "TLC; every enumerated call replayed against the four real trajectory classes; recorded "
                 "histories and calls validated by TLC (trace validation)",
    "level_text": "TLC enumerates every read / read_iter call on 1..4 frames (thorough: 1..7) of 3 (4) atoms over "
                  "start, stop, step, chunk_size / stack_size (incl. None, 0, beyond the end) and three atom "
                  "selections for XTC, TRR, DCD and NetCDF, checks ReadImpl = ReadDecl and IterImpl = IterDecl, "
                  "and every such call is executed against biotite (read, read_iter, read_iter_structure) on a "
                  "file written through the setters; seeded object histories and calls on trajectories of up "
                  "to 24 frames x 6 atoms are re-computed by TLC.",
    "level_note": "Bounded model checking plus conformance, not proof. Coordinates lie on a 1/8 Angstrom grid "
                  "and boxes are orthorhombic so that all formats store them to known precision (XTC 0.01 "
                  "Angstrom). Windows without frames are only required not to deliver frames (the formats "
                  "differ: empty result or exception). Negative start/stop/step and stop < start are outside "
                  "the domain.",
}

KF_TRR = "X09-trr-stride-atom-selection-overflow"
PROBE = "trr_stride_atomsel"
ALL_OPS = ("new", "set", "copy", "wr", "gs", "read", "iter", "iters")
BAD = -999


# --------------------------------------------------------------------------- real side
def warmup():
    import biotite.structure  # noqa: F401
    import biotite.structure.io.dcd  # noqa: F401
    import biotite.structure.io.netcdf  # noqa: F401
    import biotite.structure.io.trr  # noqa: F401
    import biotite.structure.io.xtc  # noqa: F401


def _cls(fmt):
    if fmt == "xtc":
        from biotite.structure.io.xtc import XTCFile as C
    elif fmt == "trr":
        from biotite.structure.io.trr import TRRFile as C
    elif fmt == "dcd":
        from biotite.structure.io.dcd import DCDFile as C
    else:
        from biotite.structure.io.netcdf import NetCDFFile as C
    return C


TOL = {"xtc": 0.0101, "trr": 1e-4, "dcd": 1e-4, "nc": 1e-4}   # Angstrom; XTC: 0.001 nm


# input generator: the content table of TrajRead (Coord / TimeOf / BoxOf).  It is bound to the
# specification in S2: calls that select the whole trajectory compare it with TLC's frames.
def gen_coord(m, na, v):
    import numpy as np

    a = np.zeros((m, na, 3), dtype=np.float32)
    for k in range(m):
        for j in range(na):
            a[k, j] = [(k * 4 + j) % 33, (k * 7 + j * 3 + v) % 33, ((k // 8) + j + 2 * v) % 33]
    return a / np.float32(8)


def gen_time(m, v):
    import numpy as np

    return (np.arange(m, dtype=np.float32) + 1 + v) / np.float32(2)


def gen_box(m, v):
    import numpy as np

    b = np.zeros((m, 3, 3), dtype=np.float32)
    for k in range(m):
        b[k] = np.diag([32 + 8 * (k % 8), 64 + 8 * v, 128])
    return b / np.float32(8)


def _grid(arr, unit, tol):
    import numpy as np

    x = np.asarray(arr, dtype=np.float64) * unit
    r = np.rint(x)
    bad = ~(np.abs(x - r) <= tol * unit)
    r = r.astype(np.int64)
    r[bad] = BAD
    return r


def proj_coord(c, fmt):
    """(m, n, 3) float array -> nested int lists in 1/8 Angstrom (BAD where off the grid)."""
    return _grid(c, 8, TOL[fmt]).tolist()


def proj_time(t):
    return _grid(t, 2, 1e-4).tolist()


def proj_box(b):
    """(m, 3, 3) -> [[lx, ly, lz], ...] in 1/8 Angstrom; BAD when not orthorhombic to 1e-3."""
    import numpy as np

    b = np.asarray(b, dtype=np.float64)
    out = []
    for k in range(len(b)):
        d = _grid(np.diag(b[k]), 8, 2e-3).tolist()
        off = b[k] - np.diag(np.diag(b[k]))
        if np.abs(off).max() > 2e-3:
            d = [BAD, BAD, BAD]
        out.append(d)
    return out


def opt(x):
    return [] if x is None else [x]


def unopt(o):
    return None if len(o) == 0 else o[0]


def _template(labels, stack=False):
    import biotite.structure as struc
    import numpy as np

    n = len(labels)
    t = struc.AtomArray(n)
    t.atom_name[:] = [f"A{x}" for x in labels]
    t.res_id[:] = np.asarray(labels, dtype=int) + 100
    t.coord[:] = -1
    if stack:
        t = struc.stack([t, t])
    return t


def _labels_of(s):
    names = [str(x) for x in s.atom_name]
    ids = [int(x) for x in s.res_id]
    return [int(nm[1:]) if nm[1:].isdigit() and int(nm[1:]) + 100 == i else BAD for nm, i in zip(names, ids)]


class Files:
    """Files written through the real setters, one per (fmt, m, na, v)."""

    def __init__(self):
        from harness.tlabind import tlc

        self.dir = os.path.join(tlc.SCRATCH, f"x09-{os.getpid()}")
        os.makedirs(self.dir, exist_ok=True)
        self.known = {}

    def get(self, fmt, m, na, v):
        key = (fmt, m, na, v)
        if key not in self.known:
            f = _cls(fmt)()
            f.set_coord(gen_coord(m, na, v))
            if fmt != "dcd":
                f.set_time(gen_time(m, v))
            f.set_box(gen_box(m, v))
            fn = os.path.join(self.dir, f"t{m}_{na}_{v}.{fmt}")
            f.write(fn)
            self.known[key] = fn
        return self.known[key]

    def close(self):
        shutil.rmtree(self.dir, ignore_errors=True)


def _form(x, flip):
    """Python int or numpy integer for an index argument."""
    import numpy as np

    if x is None:
        return None
    return (int(x), np.int64(x), np.int32(x))[flip % 3]


def _ai_form(ai, flip):
    import numpy as np

    if ai is None:
        return None
    if flip % 3 == 0:
        return np.array(ai, dtype=np.int64)
    if flip % 3 == 1:
        return np.array(ai, dtype=np.int32)
    return list(ai)


def _frames(coord, box, time, fmt):
    return {"coord": proj_coord(coord, fmt),
            "time": [] if time is None else proj_time(time),
            "box": [[BAD] * 3] * len(coord) if box is None else proj_box(box)}


def call_read(files, c, flip=0):
    """One real call of Class.read; returns (oc, frames, argument untouched)."""
    import numpy as np

    fn = files.get(c["fmt"], c["m"], c["na"], c["v"])
    ai = _ai_form(unopt(c["ai"]), flip)
    before = None if ai is None else list(ai)
    try:
        f = _cls(c["fmt"]).read(fn, _form(unopt(c["start"]), flip), _form(unopt(c["stop"]), flip + 1),
                                _form(unopt(c["step"]), flip + 2), ai, _form(unopt(c["cs"]), flip))
        coord = f.get_coord()
        if coord is None or len(coord) == 0:
            return "Empty", None, True
        res = _frames(coord, f.get_box(), f.get_time(), c["fmt"])
        if coord.ndim != 3:
            res["coord"] = [[BAD]]
        oc = "ok"
    except Exception:  # noqa: BLE001
        return "Rejected", None, True
    return oc, res, (before is None or list(ai) == before)


def call_iter(files, c, flip=0, structure=False, templ=None, templ_stack=False):
    import numpy as np

    import biotite.structure as struc

    fn = files.get(c["fmt"], c["m"], c["na"], c["v"])
    ai = _ai_form(unopt(c["ai"]), flip)
    stack = unopt(c["cs"])
    args = (_form(unopt(c["start"]), flip), _form(unopt(c["stop"]), flip + 1), _form(unopt(c["step"]), flip + 2),
            ai, _form(stack, flip))
    items, shapes, labels = [], [], []
    try:
        if structure:
            t = _template(templ, templ_stack)
            for s in _cls(c["fmt"]).read_iter_structure(fn, t, *args):
                if isinstance(s, struc.AtomArrayStack):
                    shapes.append(["stack", s.stack_depth()])
                    coord, box = s.coord, s.box
                elif isinstance(s, struc.AtomArray):
                    shapes.append(["array", 1])
                    coord, box = s.coord[None], (None if s.box is None else s.box[None])
                else:
                    shapes.append(["other", 0])
                    coord, box = np.zeros((0, 0, 3)), None
                fr = _frames(coord, box, None, c["fmt"])
                items.append({"coord": fr["coord"], "box": fr["box"]})
                labels.append(_labels_of(s))
        else:
            for coord, box, time in _cls(c["fmt"]).read_iter(fn, *args):
                if stack is None:
                    if coord.ndim != 2:
                        items.append({"coord": [[BAD]], "time": [], "box": []})
                        continue
                    coord = coord[None]
                    box = None if box is None else box[None]
                    time = None if time is None else np.array([time])
                items.append(_frames(coord, box, time, c["fmt"]))
    except Exception:  # noqa: BLE001
        return "Rejected", [], [], []
    if not items:
        return "Empty", [], [], []
    return "ok", items, shapes, labels


def native_safe(fmt, step, ai, na):
    """Dom_NativeSafe of TrajRead (generator side of S3)."""
    return not (fmt == "trr" and step is not None and step >= 2 and ai is not None and len(ai) < na)


PROBE_SCRIPT = """
import sys, warnings
import numpy as np
warnings.simplefilter("ignore")
sys.path.insert(0, "/verif")
from harness.drivers import x09
fn, na = sys.argv[1], int(sys.argv[2])
want = x09.proj_coord(x09.gen_coord(4, na, 0)[::2, :1], "trr")
for _ in range(20):
    g = x09._cls("trr").read(fn, step=2, atom_i=np.array([0]))
    if x09.proj_coord(g.get_coord(), "trr") != want:
        print("WRONG")
print("SURVIVED")
"""


def probe_trr(item):
    """The excluded class, in a fresh interpreter of its own: TRR, step >= 2, proper atom subset.
    Returns the exit status per atom count (negative = killed by that signal)."""
    import subprocess
    import sys

    files = Files()
    try:
        out = []
        for na in item["nas"]:
            fn = files.get("trr", 4, na, 0)
            r = subprocess.run([sys.executable, "-c", PROBE_SCRIPT, fn, str(na)], capture_output=True, text=True,
                               timeout=120, env=dict(os.environ, PYTHONPATH=os.environ.get("PYTHONPATH", "")))
            out.append({"na": na, "rc": r.returncode, "wrong": "WRONG" in r.stdout,
                        "survived": "SURVIVED" in r.stdout, "err": r.stderr[-200:]})
        return {"runs": out}
    finally:
        files.close()


def _oc_ok(want, got):
    return got in ("Empty", "Rejected") if want == "EmptyOrRejected" else got == want


def _norm(x):
    if isinstance(x, dict):
        return {k: _norm(v) for k, v in x.items()}
    if isinstance(x, (list, tuple)):
        return [_norm(v) for v in x]
    return x


def run_case(files, c, out, seed=0):
    """Execute one enumerated call; returns (mismatch records, counters)."""
    mism = []
    flip = (seed + c["m"] + len(c["start"]) + 2 * len(c["step"]) + sum(c["start"]) + sum(c["stop"])) % 3
    cnt = {"calls": 0}
    base = {"case": c, "expected_oc": out["oc"]}
    if c["kind"] == "read":
        oc, res, untouched = call_read(files, c, flip)
        cnt["calls"] += 1
        if not _oc_ok(out["oc"], oc) or (out["oc"] == "ok" and res != out["res"]):
            mism.append(dict(base, kind="read", observed_oc=oc, expected=out["res"], observed=res))
        if not untouched:
            mism.append(dict(base, kind="read_arg_mutated"))
    else:
        oc, items, _, _ = call_iter(files, c, flip)
        cnt["calls"] += 1
        if not _oc_ok(out["oc"], oc) or (out["oc"] == "ok" and items != out["items"]):
            mism.append(dict(base, kind="iter", observed_oc=oc, expected=out["items"], observed=items))
        labels = unopt(c["ai"]) or list(range(c["na"]))
        oc2, items2, shapes, labs = call_iter(files, c, flip + 1, structure=True, templ=labels,
                                              templ_stack=bool(flip % 2))
        cnt["calls"] += 1
        want = [{"coord": it["coord"], "box": it["box"]} for it in out["items"]]
        wshape = [["array", 1] if not c["cs"] else ["stack", len(it["coord"])] for it in out["items"]]
        if (not _oc_ok(out["oc"], oc2)
                or (out["oc"] == "ok" and (items2 != want or shapes != wshape or any(lb != labels for lb in labs)))):
            mism.append(dict(base, kind="iters", observed_oc=oc2, expected=want, observed=items2,
                             shapes=shapes, labels=labs))
    return mism, cnt


def exec_states(item):
    """Parse a byte range of the TLC dump and run every computed state against the real classes."""
    from harness.tlabind.pool import progress
    from harness.tlabind.tlaval import parse_state, to_py

    with open(item["path"], "rb") as fh:
        fh.seek(item["start"])
        text = fh.read(item["end"] - item["start"]).decode()
    blocks, cur = [], []
    for line in text.splitlines(keepends=True):
        if line.startswith("State ") and line.rstrip().endswith(":"):
            if cur:
                blocks.append("".join(cur))
            cur = []
        else:
            cur.append(line)
    if cur:
        blocks.append("".join(cur))
    files = Files()
    mism = []
    cnt = {"states": 0, "cases": 0, "calls": 0, "nontrivial": 0, "bound": 0, "multichunk": 0,
           "oc": {}, "kf": {}, "step2": 0, "atomsel": 0, "beyond": 0, "unsafe": 0}
    try:
        for b in blocks:
            if not b.strip():
                continue
            st = {k: _norm(to_py(v)) for k, v in parse_state(b.strip()).items()}
            cnt["states"] += 1
            if st["phase"] != 1:
                continue
            c, out = st["inp"], st["out"]
            if not out["safe"]:
                cnt["unsafe"] += 1
                continue
            progress({"case": c})
            whole = (not c["start"] or c["start"] == [0]) and not c["stop"] and not c["step"] and not c["ai"]
            if whole and c["kind"] == "read" and out["oc"] == "ok":
                # binding of the input generator to the specification's content table
                gen = _frames(gen_coord(c["m"], c["na"], c["v"]), gen_box(c["m"], c["v"]),
                              gen_time(c["m"], c["v"]) if c["fmt"] != "dcd" else None, "dcd")
                if gen != out["res"]:
                    return {"driver_error": f"input generator differs from TrajRead content: {c}"}
                cnt["bound"] += 1
            mm, k = run_case(files, c, out, item.get("seed", 0))
            mism += mm
            cnt["cases"] += 1
            cnt["calls"] += k["calls"]
            cnt["oc"][out["oc"]] = cnt["oc"].get(out["oc"], 0) + 1
            key = c["kind"] + ":" + c["fmt"]
            cnt["kf"][key] = cnt["kf"].get(key, 0) + 1
            nt = out["oc"] == "ok" and (bool(c["step"]) or bool(c["cs"]) or bool(c["ai"]) or bool(c["start"]))
            cnt["nontrivial"] += int(nt)
            cnt["multichunk"] += int(out["chunks"] >= 2 or (c["kind"] == "iter" and len(out["items"]) >= 2))
            cnt["step2"] += int(bool(c["step"]) and c["step"][0] >= 2 and out["oc"] == "ok")
            cnt["atomsel"] += int(bool(c["ai"]) and out["oc"] == "ok")
            cnt["beyond"] += int(bool(c["stop"]) and c["stop"][0] > c["m"] and out["oc"] == "ok")
    finally:
        files.close()
    return {"mismatch": mism[:40], "n_mismatch": len(mism), "cnt": cnt}


# --------------------------------------------------------------------------- S3 sessions
def _getters(f, fmt):
    c, t, b = f.get_coord(), f.get_time(), f.get_box()
    return {"coord": [] if c is None else [proj_coord(c, "dcd")],
            "time": [] if t is None else [proj_time(t)],
            "box": [] if b is None else [proj_box(b)]}


def gen_session(item):
    """Seeded histories; returns {"traces": [...]}; every observation comes from the real code."""
    import random

    import numpy as np

    from harness.tlabind.pool import progress

    rng = random.Random(item["seed"])
    files = Files()
    traces = []
    try:
        for ti in range(item["n"]):
            tr = []
            fmt = rng.choice(["xtc", "trr", "dcd", "nc"])
            if ti % 2 == 0:
                # ---- a live file object
                na = rng.randint(1, 6)
                f = _cls(fmt)()
                tr.append({"op": "new", "fmt": fmt, "na": na, "g": _getters(f, fmt)})
                m0 = rng.randint(1, 12)
                for _ in range(rng.randint(5, 12)):
                    r = rng.random()
                    progress({"trace": ti, "events": len(tr)})
                    if r < 0.5:
                        field = rng.choice(["coord", "coord", "time", "box"])
                        m = m0 if rng.random() < 0.7 else rng.randint(1, 12)
                        v = rng.randint(0, 2)
                        arr = None if rng.random() < 0.07 else [m, v]
                        a = None if arr is None else {"coord": lambda: gen_coord(m, na, v),
                                                      "time": lambda: gen_time(m, v),
                                                      "box": lambda: gen_box(m, v)}[field]()
                        try:
                            getattr(f, "set_" + field)(a)
                            oc = "ok"
                        except Exception:  # noqa: BLE001
                            oc = "Rejected"
                        tr.append({"op": "set", "field": field, "arr": opt(arr), "oc": oc, "g": _getters(f, fmt)})
                    elif r < 0.58:
                        try:
                            f.copy()
                            oc = "ok"
                        except Exception:  # noqa: BLE001
                            oc = "Rejected"
                        tr.append({"op": "copy", "oc": oc, "g": _getters(f, fmt)})
                    elif f.get_coord() is None:
                        continue
                    elif r < 0.8:
                        fn = os.path.join(files.dir, f"s{item['seed']}_{ti}_{len(tr)}.{fmt}")
                        try:
                            f.write(fn)
                            g = _cls(fmt).read(fn)
                            back = _getters(g, fmt)
                            # read back coordinates are compared at the precision of the format
                            back["coord"] = [proj_coord(g.get_coord(), fmt)]
                            oc = "ok"
                        except Exception:  # noqa: BLE001
                            oc, back = "Rejected", {"coord": [], "time": [], "box": []}
                        tr.append({"op": "wr", "oc": oc, "back": back, "g": _getters(f, fmt)})
                    else:
                        n_t = na if rng.random() < 0.6 else rng.choice([x for x in range(1, 8) if x != na])
                        labels = [rng.randint(0, 30) for _ in range(n_t)]
                        t = _template(labels, stack=rng.random() < 0.5)
                        ev = {"op": "gs", "templ": labels}
                        try:
                            s = f.get_structure(t)
                            ev.update(oc="ok", labels=_labels_of(s), depth=int(s.stack_depth()),
                                      coord=proj_coord(s.coord, "dcd"),
                                      box=[] if s.box is None else [proj_box(s.box)])
                        except Exception:  # noqa: BLE001
                            ev.update(oc="Rejected", labels=[], depth=0, coord=[], box=[])
                        ev["g"] = _getters(f, fmt)
                        tr.append(ev)
            else:
                # ---- calls on a written trajectory beyond the exhaustive bounds
                m, na, v = rng.randint(1, 24), rng.randint(1, 6), rng.randint(0, 2)
                for _ in range(rng.randint(6, 10)):
                    progress({"trace": ti, "events": len(tr)})
                    start = rng.choice([None, 0, rng.randint(0, m + 2), rng.randint(0, m)])
                    stop = rng.choice([None, rng.randint(0, m + 6), m, m + 1])
                    if stop is not None and stop < (start or 0):
                        stop = (start or 0) + rng.randint(0, 3)
                    step = rng.choice([None, 1, 2, 3, rng.randint(1, 9)])
                    cs = rng.choice([None, 1, 2, 3, rng.randint(1, 12)])
                    ai = None
                    if rng.random() < 0.5:
                        ai = sorted(rng.sample(range(na), rng.randint(1, na)))
                    if not native_safe(fmt, step, ai, na):
                        step = None if rng.random() < 0.5 else 1
                    c = {"fmt": fmt, "m": m, "na": na, "v": v, "start": opt(start), "stop": opt(stop),
                         "step": opt(step), "ai": opt(ai), "cs": opt(cs)}
                    op = rng.choice(["read", "read", "iter", "iters"])
                    flip = rng.randint(0, 2)
                    if op == "read":
                        if rng.random() < 0.05:
                            c["cs"] = [0]
                        oc, res, _ = call_read(files, c, flip)
                        tr.append(dict(c, op="read", oc=oc, res=res or {"coord": [], "time": [], "box": []}))
                    elif op == "iter":
                        oc, items, _, _ = call_iter(files, c, flip)
                        tr.append(dict(c, op="iter", oc=oc, items=items))
                    else:
                        sel = ai if ai is not None else list(range(na))
                        labels = list(sel) if rng.random() < 0.85 else list(sel) + [0]
                        oc, items, shapes, labs = call_iter(files, c, flip, structure=True, templ=labels,
                                                            templ_stack=rng.random() < 0.5)
                        tr.append(dict(c, op="iters", templ=labels, oc=oc, items=items, shapes=shapes, labels=labs))
            traces.append(tr)
    finally:
        files.close()
    return {"traces": traces}


def _corrupt(trace):
    """Change one logged observation so that it can no longer be right."""
    for e in trace:
        if e["op"] == "read" and e["oc"] == "ok":
            e["res"]["coord"][-1][0][0] += 1
            return True
        if e["op"] == "iter" and e["oc"] == "ok":
            e["items"] = e["items"][:-1] if len(e["items"]) > 1 else e["items"] + e["items"]
            return True
        if e["op"] == "set" and e["oc"] == "ok" and e["g"]["coord"]:
            e["g"]["coord"][0][0][0][1] += 1
            return True
        if e["op"] == "set" and e["oc"] == "Rejected":
            e["oc"] = "ok"
            return True
    return False


def classify(mm):
    # exactly: the dedicated probe process (TRR, step 2, atom subset) died from abort / segfault
    if (mm.get("kind") == "crash" and mm.get("stage") == "S2-probe" and mm.get("signal") in (6, 11)
            and isinstance(mm.get("item"), dict) and mm["item"].get("probe") == PROBE):
        return KF_TRR
    return None


def replay(record):
    warmup()
    c = record.get("case")
    if not c:
        return {"mismatch": False, "note": "record without a case (S3 records are re-judged by TLC only)"}
    files = Files()
    try:
        if record.get("kind", "").startswith("read"):
            oc, res, untouched = call_read(files, c)
            bad = not _oc_ok(record["expected_oc"], oc) or (record["expected_oc"] == "ok" and res != record["expected"]) \
                or not untouched
            return {"mismatch": bool(bad), "observed_oc": oc, "observed": res}
        structure = record.get("kind") == "iters"
        labels = unopt(c["ai"]) or list(range(c["na"]))
        oc, items, shapes, labs = call_iter(files, c, structure=structure, templ=labels)
        bad = not _oc_ok(record["expected_oc"], oc) or (record["expected_oc"] == "ok" and items != record["expected"])
        return {"mismatch": bool(bad), "observed_oc": oc, "observed": items}
    finally:
        files.close()


def _split_dump(path, nitems):
    size = os.path.getsize(path)
    marks = []
    with open(path, "rb") as fh:
        pos = 0
        for line in fh:
            if line.startswith(b"State ") and line.rstrip().endswith(b":"):
                marks.append(pos)
            pos += len(line)
    if not marks:
        return [], 0
    per = max(1, (len(marks) + nitems - 1) // nitems)
    items = []
    for i in range(0, len(marks), per):
        end = marks[i + per] if i + per < len(marks) else size
        items.append({"path": path, "start": marks[i], "end": end})
    return items, len(marks)


def run(ctx):
    from harness.tlabind import helpers, tlc
    from harness.tlabind.core import Vacuity

    quick = ctx.quick
    ctx.assumptions += [
        "Dom_Window: start, stop >= 0, step >= 1, stop >= start when both are given (negative values and stop < start are not documented; the code passes stop - start to the reader)",
        "Dom_AtomI: atom_i is a strictly increasing sequence of valid atom indices (int64 / int32 array or list)",
        "Dom_Traj: at least one frame and one atom; coordinates on the 1/8 Angstrom grid in [0, 4], time on the 1/2 ps grid, orthorhombic boxes with lengths on the 1/8 Angstrom grid",
        "precision: XTC coordinates to 0.01 Angstrom (0.001 nm), all other values to 1e-4 (coordinates, time) / 2e-3 (box, which DCD and NetCDF store as lengths and angles)",
        "a window without frames: documentation silent; an empty result or any exception conform (outcome EmptyOrRejected), frames do not",
        "chunk_size < 1: any exception (the code raises ValueError); copy(): any exception (documented NotImplementedError); DCDFile.set_time(array): any exception (documented)",
        "set_*(None) stores None and leaves the model count unchanged (modelled from the code)",
        "read back of time / box that were never set is not specified (formats differ)",
        "trusted: TLC, the TLA+ value parser, numpy, biotraj as the primitive read(n_frames, stride) whose cursor semantics FRead models (measured for all four formats)",
    ]
    ctx.cov["rule"] = ("non-trivial call = outcome ok with at least one of start / step / chunk or stack size / "
                       "atom_i given; non-trivial history = one with a rejected or a None-valued setter call, "
                       "a write + read back or a get_structure")

    # ---- S1: exhaustive bounded model + dump of all (input, expected) states ---------------
    d = tlc.scratch_dir("x09")
    prefix = os.path.join(d, "states")
    cfg = "MC.cfg" if quick else "MC_thorough.cfg"
    res = ctx.tlc("MCTraj", cfg, stage="S1", dump=prefix, workers=16, timeout=900 if quick else 3600)
    ctx.exhaustive = True
    path = prefix + ".dump" if os.path.exists(prefix + ".dump") else prefix
    items, nstates = _split_dump(path, 160 if quick else 640)
    if nstates != res.distinct:
        raise RuntimeError(f"dump holds {nstates} states, TLC reported {res.distinct}")
    for it in items:
        it["seed"] = ctx.seed

    # ---- S2: every computed state against the real classes ---------------------------------
    results = helpers.run_pool(ctx, "harness.drivers.x09:exec_states", items, stage="S2", item_timeout=600)
    ctx.log(f"S2: {len(items)} items executed")
    tot = {"states": 0, "cases": 0, "calls": 0, "nontrivial": 0, "bound": 0, "multichunk": 0, "step2": 0,
           "atomsel": 0, "beyond": 0, "unsafe": 0}
    ocs, kf, nmm = {}, {}, 0
    for r in results:
        if not r or "cnt" not in r:
            continue
        for k in tot:
            tot[k] += r["cnt"][k]
        for k, v in r["cnt"]["oc"].items():
            ocs[k] = ocs.get(k, 0) + v
        for k, v in r["cnt"]["kf"].items():
            kf[k] = kf.get(k, 0) + v
        nmm += r.get("n_mismatch", 0)
    if tot["states"] != nstates or (tot["cases"] + tot["unsafe"]) * 2 != nstates:
        raise RuntimeError(f"executed {tot['cases']} cases of {nstates} dumped states ({tot['states']} parsed)")
    ctx.cov.update(s2_cases=tot["cases"], s2_calls=tot["calls"], s2_outcomes=dict(sorted(ocs.items())),
                   s2_kind_format=dict(sorted(kf.items())), s2_multichunk=tot["multichunk"],
                   s2_step_ge_2=tot["step2"], s2_atom_selected=tot["atomsel"], s2_stop_beyond_end=tot["beyond"],
                   s2_generator_bound=tot["bound"], s2_skipped_native_unsafe=tot["unsafe"], s2_mismatching_cases=nmm)
    need = {f"{k}:{f}" for k in ("read", "iter") for f in ("xtc", "trr", "dcd", "nc")}
    if not need <= set(kf):
        raise Vacuity(f"kind/format never executed: {sorted(need - set(kf))}")
    if not {"ok", "Rejected", "EmptyOrRejected"} <= set(ocs):
        raise Vacuity(f"outcome classes never executed: {ocs}")
    for k in ("multichunk", "step2", "atomsel", "beyond", "bound"):
        if tot[k] == 0:
            raise Vacuity(f"input class never executed: {k}")
    ctx.traces_validated += tot["cases"]
    ctx.evaluations += tot["calls"]
    ctx.nontrivial += tot["nontrivial"]

    # ---- S2-probe: the class excluded by Dom_NativeSafe, in a process of its own -------------
    pitem = {"probe": PROBE, "nas": [3, 4, 5, 8, 16]}
    pr = helpers.run_pool(ctx, "harness.drivers.x09:probe_trr", [pitem], stage="S2-probe", item_timeout=300)
    runs = (pr[0] or {}).get("runs", []) if pr else []
    ctx.cov["probe_trr_atom_counts"] = [r["na"] for r in runs]
    crashed = [r for r in runs if r["rc"] < 0]
    if crashed:
        # one record however many of the probes died (which ones do depends on the heap layout)
        r = crashed[0]
        ctx.mismatch({"stage": "S2-probe", "kind": "crash", "signal": -r["rc"], "item": pitem,
                      "stderr": r["err"][-120:]})
    for r in runs:
        if r["rc"] < 0:
            continue
        elif r["wrong"] or not r["survived"]:
            ctx.mismatch({"stage": "S2-probe", "kind": "probe_wrong_frames", "na": r["na"], "stderr": r["err"]})
    ctx.evaluations += 20 * sum(1 for r in runs if r["survived"])
    ctx.log(f"S2-probe: {[(r['na'], r['rc']) for r in runs]}")

    # ---- S3: recorded histories and calls, re-computed by TLC ----------------------------
    nitems, per = (16, 12) if quick else (48, 40)
    sitems = [{"seed": ctx.rng.randrange(1 << 30), "n": per} for _ in range(nitems)]
    sres = helpers.run_pool(ctx, "harness.drivers.x09:gen_session", sitems, stage="S3", item_timeout=600)
    ctx.log("S3: sessions recorded")
    traces = [tr for r in sres if r and "traces" in r for tr in r["traces"] if tr]
    ops, special = {}, {"set_rejected": 0, "set_none": 0, "gs_rejected": 0, "gs_ok": 0, "wr": 0, "call_ok": 0,
                        "call_empty": 0}
    nontriv = 0
    for tr in traces:
        nt = False
        for e in tr:
            ops[e["op"]] = ops.get(e["op"], 0) + 1
            if e["op"] == "set":
                special["set_rejected"] += e["oc"] == "Rejected"
                special["set_none"] += not e["arr"]
                nt |= e["oc"] == "Rejected" or not e["arr"]
            elif e["op"] == "gs":
                special["gs_rejected" if e["oc"] == "Rejected" else "gs_ok"] += 1
                nt = True
            elif e["op"] == "wr":
                special["wr"] += 1
                nt = True
            elif e["op"] in ("read", "iter", "iters"):
                special["call_ok" if e["oc"] == "ok" else "call_empty"] += 1
                nt |= e["oc"] == "ok" and bool(e["step"] or e["cs"] or e["ai"] or e["start"])
        nontriv += nt
    ctx.cov["s3_ops"] = dict(sorted(ops.items()))
    ctx.cov["s3_special"] = {k: int(v) for k, v in special.items()}
    missing = [o for o in ALL_OPS if not ops.get(o)]
    if missing:
        raise Vacuity(f"S3 never recorded: {missing}")
    for k, v in special.items():
        if not v:
            raise Vacuity(f"S3 never recorded the class {k}")
    mms = helpers.tlc_validate(ctx, traces, stage="S3", timeout=1200)
    for m in mms:
        tid, idx = m[1], m[2]
        ev = traces[tid - 1][idx - 1]
        rec = {"stage": "S3", "kind": "trace_" + str(m[3]), "trace": tid, "event": idx, "expected": m[4],
               "observed": {k: ev[k] for k in ev if k not in ("g",)}}
        if ev["op"] in ("read", "iter", "iters"):
            rec["case"] = {k: ev[k] for k in ("fmt", "m", "na", "v", "start", "stop", "step", "ai", "cs")}
        ctx.mismatch(rec)
    ctx.traces_validated += len(traces)
    ctx.evaluations += sum(len(t) for t in traces)
    ctx.nontrivial += nontriv
    ctx.sample({"trace": traces[0][:3]} if traces else {})
    helpers.binding_selftest(ctx, traces, _corrupt, max_traces=6)
