"""X01 — translation, codon tables and ORF finding follow the per-codon definition.

Specification: specs/X01/Codon.tla (characters, codon numbers, CodonTable constructor / lookups / derived
tables, the table file read character by character, NucleotideSequence construction, complete translation,
ORFs declaratively and as the code's per-frame scan, the rendering of str(table)), CodonUniverse.tla (the
text of codon_tables.txt, synthetic tables / table files / argument variants), MC.tla (single-call universe),
TableMachine.tla (histories of calls on a registry of immutable tables), Trace.tla (trace validation).

S1  TLC checks the laws of Codon.tla on every case of MC.tla (implementation-shaped = declarative for load(),
    the constructor, ORFs, numbers; lookups of one table agree with each other; table 1 of the file is the
    standard genetic code) and the invariants of TableMachine.tla.
S2  every (inp, res) pair of MC's dump is executed against the real classes and compared with res; every
    transition of TableMachine's state graph is replayed: after each call every table of the registry,
    default_table() and a fresh load(1) are compared with the state.
S3  seeded random events (random dictionaries, random table files, DNA up to 300 nt, both strands, histories
    of 3..9 calls) and the calls the repository's own tests make are logged and judged by TLC (Trace.tla).
"""

from __future__ import annotations

import json
import os
import random
import re

PROPERTY = "X01"

NUC = "ACGT"
PROT = "ACDEFGHIKLMNPQRSTVWYBZX*"
CODON_CODE_FORMS = ["tuple", "list", "array_int64", "array_uint8"]      # CodonUniverse!CodonCodeForms
AA_CODE_FORMS = ["int", "numpy_int64", "numpy_uint8"]                   # CodonUniverse!AaCodeForms
MAP_FORMS = ["int64", "uint8", "int32"]                                 # CodonUniverse!MapForms
# CodonUniverse!BadProbes (compared with what the specification publishes in S2)
BAD_PROBES = [["word", list("ANG")], ["word", list("AT")], ["word", list("ATGA")], ["word", []],
              ["word", list("RYN")], ["code", [1, 2]], ["code", [0, 1, 2, 3]], ["code", []],
              ["map", [[0, 3], [1, 1]]], ["map", [[0, 1, 2, 3]]], ["map", [[2]]], ["code", [2]]]
OBS_FIELDS = ["aaOf", "codonsOf", "aaCodeOf", "codonsOfCode", "map", "mapEmpty", "dictSyms", "dictCodes", "starts",
              "isStart", "strEntries", "eqRebuilt", "eqChanged", "probes", "codeForms", "aaCodeForms", "mapForms"]


# --------------------------------------------------------------------------- projections
def num_of_word(w):
    """'ATG' -> 14; -1 for anything that is not three letters of ACGT."""
    w = "".join(w)
    if len(w) != 3 or any(ch not in NUC for ch in w):
        return -1
    return 16 * NUC.index(w[0]) + 4 * NUC.index(w[1]) + NUC.index(w[2])


def word_of_num(n):
    return NUC[n // 16] + NUC[(n % 16) // 4] + NUC[n % 4]


def num_of_code(c):
    try:
        a, b, d = (int(x) for x in c)
    except Exception:  # noqa: BLE001
        return -1
    if not all(0 <= x <= 3 for x in (a, b, d)):
        return -1
    return 16 * a + 4 * b + d


def call(fn):
    try:
        return "ok", fn()
    except Exception as e:  # noqa: BLE001
        return "Rejected", f"{type(e).__name__}: {e}"[:200]


def table_text_lines():
    """The lines of the table file biotite reads, as arrays of characters."""
    from biotite.sequence import CodonTable

    with open(CodonTable._table_file) as f:
        return [list(line) for line in f.read().split("\n")]


class _TableFile:
    """CodonTable.load() / table_names() read CodonTable._table_file: point it to another text."""

    def __init__(self, lines):
        self.lines = lines

    def __enter__(self):
        import tempfile

        from biotite.sequence import CodonTable

        self.old = CodonTable._table_file
        if self.lines is None:
            return self
        base = os.path.join(os.path.dirname(os.path.dirname(os.path.dirname(os.path.abspath(__file__)))), ".scratch")
        os.makedirs(base, exist_ok=True)
        fd, self.path = tempfile.mkstemp(prefix="x01tab", suffix=".txt", dir=base)
        with os.fdopen(fd, "w") as f:
            f.write("\n".join("".join(line) for line in self.lines))
        CodonTable._table_file = self.path
        return self

    def __exit__(self, *a):
        from biotite.sequence import CodonTable

        CodonTable._table_file = self.old
        if self.lines is not None:
            try:
                os.unlink(self.path)
            except OSError:
                pass


def load_key(key):
    """key = ['id', n] / ['name', chars] -> CodonTable (raises like load())."""
    from biotite.sequence import CodonTable

    return CodonTable.load(int(key[1]) if key[0] == "id" else "".join(key[1]))


def make_table(src):
    """A table source of specs/X01/Trace.tla -> CodonTable (raises when the real call raises)."""
    from biotite.sequence import CodonTable

    k = src["k"]
    if k == "default":
        return CodonTable.default_table()
    if k == "id":
        return CodonTable.load(int(src["id"]))
    if k == "name":
        return CodonTable.load("".join(src["name"]))
    if k == "dict":
        return CodonTable({"".join(w): a for w, a in src["pairs"]}, ["".join(w) for w in src["starts"]])
    if k == "text":
        with _TableFile(src["text"]):
            return load_key(src["key"])
    if k == "starts":
        return make_table(src["base"]).with_start_codons(["".join(w) for w in src["starts"]])
    if k == "map":
        return make_table(src["base"]).with_codon_mappings({"".join(w): a for w, a in src["pairs"]})
    raise ValueError(f"unknown table source {k}")


def proj_table(t):
    """CodonTable -> {'aa': 64 symbols in the order of the codon numbers, 'starts': sorted numbers}."""
    d = t.codon_dict()
    aa = [d.get(word_of_num(n), "?") for n in range(64)]
    if len(d) != 64:
        aa = aa + ["?"]
    return {"aa": aa, "starts": sorted({num_of_word(w) for w in t.start_codons()})}


def proj_make(fn):
    oc, t = call(fn)
    if oc != "ok":
        return {"oc": "Rejected", "aa": [], "starts": [], "error": t}
    return dict(proj_table(t), oc="ok")


def _codon_code_in_form(c, form):
    import numpy as np

    if form == "tuple":
        return tuple(c)
    if form == "list":
        return list(c)
    return np.array(c, dtype=np.int64 if form == "array_int64" else np.uint8)


def _aa_code_in_form(k, form):
    import numpy as np

    return int(k) if form == "int" else (np.int64(k) if form == "numpy_int64" else np.uint8(k))


def _parse_str_entries(text):
    """str(table) -> [[codon number, amino acid, marked]...] sorted; words: codon, amino acid, optional 'i'."""
    out = []
    ws = text.split()
    i = 0
    while i < len(ws):
        if len(ws[i]) != 3 or i + 1 >= len(ws):
            out.append([-1, ws[i][:1], False])
            i += 1
            continue
        marked = i + 2 < len(ws) and ws[i + 2] == "i"
        out.append([num_of_word(ws[i]), ws[i + 1], bool(marked)])
        i += 3 if marked else 2
    return sorted(out)


def observe_table(t):
    """Everything the 'table' case / event compares (CodonUniverse!Obs), from the real API."""
    import numpy as np
    from biotite.sequence import CodonTable  # noqa: F401  (eval(repr(t)))

    rows = [[n // 16, (n % 16) // 4, n % 4] for n in range(64)]
    obs = {}

    def safe(fn, bad):
        oc, v = call(fn)
        return v if oc == "ok" else bad

    obs["aaOf"] = [safe(lambda n=n: str(t[word_of_num(n)]), "?") for n in range(64)]

    def codons_of(item):
        ws = t[item]
        nums = [num_of_word(w) if isinstance(w, str) else num_of_code(w) for w in ws]
        return sorted(nums) if len(set(nums)) == len(nums) else sorted(nums) + [-1]
    obs["codonsOf"] = [safe(lambda a=a: codons_of(a), [-2]) for a in PROT]
    obs["aaCodeOf"] = [safe(lambda r=r: int(t[tuple(r)]), -1) for r in rows]
    obs["codonsOfCode"] = [safe(lambda k=k: codons_of(k), [-2]) for k in range(len(PROT))]

    def mapped(arr):
        res = t.map_codon_codes(arr)
        if not isinstance(res, np.ndarray) or res.shape != arr.shape[:-1]:
            return [-3]
        return [int(x) for x in res]
    obs["map"] = safe(lambda: mapped(np.array(rows, dtype=np.int64)), [-1])
    obs["mapEmpty"] = safe(lambda: mapped(np.zeros((0, 3), dtype=np.int64)), [-1])
    d = safe(lambda: t.codon_dict(), {})
    obs["dictSyms"] = [d.get(word_of_num(n), "?") for n in range(64)] + ([] if len(d) == 64 else ["?"])
    dc = safe(lambda: t.codon_dict(code=True), {})
    dcn = {num_of_code(k): int(v) for k, v in dc.items()}
    obs["dictCodes"] = [dcn.get(n, -1) for n in range(64)] + ([] if len(dc) == 64 else [-1])
    s1 = safe(lambda: sorted({num_of_word(w) for w in t.start_codons()}), [-1])
    s2 = safe(lambda: sorted({num_of_code(c) for c in t.start_codons(code=True)}), [-2])
    obs["starts"] = s1 if s1 == s2 else s1 + [-2]
    obs["isStart"] = safe(lambda: [bool(x) for x in t.is_start_codon(np.array(rows, dtype=np.int64))], [])
    obs["strEntries"] = safe(lambda: _parse_str_entries(str(t)), [])

    def eq_rebuilt():
        u = CodonTable(t.codon_dict(), t.start_codons())
        v = eval(repr(t))  # noqa: S307 - the class's own repr
        return bool(t == u) and bool(u == t) and not bool(t != u) and bool(v == t) and proj_table(v) == proj_table(t)
    obs["eqRebuilt"] = safe(eq_rebuilt, False)

    def eq_changed():
        other_aa = "W" if t["AAA"] != "W" else "K"
        u = t.with_codon_mappings({"AAA": other_aa})
        v = t.with_start_codons(["CCC"] if set(t.start_codons()) != {"CCC"} else ["ATG"])
        return bool(t == u) or bool(t == v) or bool(t == 3) or not bool(t != 3) or not bool(t != u)
    obs["eqChanged"] = safe(eq_changed, True)

    def probe(p):
        kind, arg = p
        if kind == "word":
            return call(lambda: t["".join(arg)])[0]
        if kind == "code":
            return call(lambda: t[tuple(arg)])[0]
        return call(lambda: t.map_codon_codes(np.array(arg, dtype=np.int64).reshape(len(arg), -1)))[0]
    obs["probes"] = [probe(p) for p in BAD_PROBES]

    def same(fn, ref):
        oc, v = call(fn)
        return "Rejected" if oc != "ok" else ("same" if v == ref else "differs")
    obs["codeForms"] = [same(lambda f=f: [int(t[_codon_code_in_form(r, f)]) for r in rows], obs["aaCodeOf"])
                        for f in CODON_CODE_FORMS]
    obs["aaCodeForms"] = [same(lambda f=f: [codons_of(_aa_code_in_form(k, f)) for k in range(len(PROT))],
                               obs["codonsOfCode"]) for f in AA_CODE_FORMS]
    obs["mapForms"] = [same(lambda f=f: [mapped(np.array(rows, dtype=f)),
                                         [bool(x) for x in t.is_start_codon(np.array(rows, dtype=f))]],
                            [obs["map"], obs["isStart"]]) for f in MAP_FORMS]
    return obs


def observe_translate(table, seq, amb, strand, complete, met):
    """NucleotideSequence(seq, ambiguous) [.reverse().complement()] .translate(...) -> {ctor, oc, val}.
    table: CodonTable or None (= the default table through codon_table=None)."""
    from biotite.sequence import NucleotideSequence, ProteinSequence

    flag = {"auto": None, "no": False, "yes": True}[amb]
    oc, s = call(lambda: NucleotideSequence("".join(seq), ambiguous=flag))
    if oc != "ok":
        return {"ctor": "Rejected", "oc": "Rejected", "val": [], "error": s}
    kw = {} if not met else {"met_start": True}
    oc, r = call(lambda: (s.reverse().complement() if strand == "rc" else s).translate(complete=complete, codon_table=table, **kw))
    if oc != "ok":
        return {"ctor": "ok", "oc": "Rejected", "val": [], "error": r}
    if complete:
        if not isinstance(r, ProteinSequence):
            return {"ctor": "ok", "oc": "ok", "val": ["?type"]}
        return {"ctor": "ok", "oc": "ok", "val": list(str(r))}
    prots, pos = r
    if len(prots) != len(pos) or not all(isinstance(p, ProteinSequence) for p in prots):
        return {"ctor": "ok", "oc": "ok", "val": [[-1, -1, ["?shape"]]]}
    return {"ctor": "ok", "oc": "ok", "val": [[int(a), int(b), list(str(p))] for p, (a, b) in zip(prots, pos)]}


# --------------------------------------------------------------------------- S2 children
def warmup():
    import numpy  # noqa: F401

    import biotite.sequence  # noqa: F401


def _parse_states(texts):
    from harness.tlabind.tlaval import parse_state, to_py

    return [{k: to_py(v) for k, v in parse_state(t).items()} for t in texts]


def ref_to_src(ref, variants):
    """Table reference of CodonUniverse!TableOf -> table source (Trace.tla)."""
    k = ref[0]
    if k == "default":
        return {"k": "default"}
    if k == "id":
        return {"k": "id", "id": ref[1]}
    if k == "syn":
        v = variants["syn"][ref[1]]
        return {"k": "dict", "pairs": v["pairs"], "starts": v["starts"]}
    if k == "starts":
        return {"k": "starts", "base": ref_to_src(ref[1], variants), "starts": variants["starts"][ref[2]]}
    if k == "map":
        return {"k": "map", "base": ref_to_src(ref[1], variants), "pairs": variants["maps"][ref[2]]}
    raise ValueError(f"table reference {ref}")


def _mm(op, inp, field, expected, observed, **kw):
    return dict({"kind": "case", "op": op, "inp": inp, "field": field, "expected": expected, "observed": observed}, **kw)


def exec_translate(item):
    """Cases of the family "translate": the three calls on one sequence object."""
    from biotite.sequence import NucleotideSequence

    from harness.tlabind.pool import progress

    variants = item["variants"]
    tables = {}
    out = {"mismatch": [], "cases": 0, "calls": 0, "nested": 0, "open": 0, "met_differs": 0, "orfs": 0, "rejected": 0}
    for st in _parse_states(item["texts"]):
        _fam, codes, ref, strand = st["inp"]
        res = st["res"]
        key = json.dumps(ref)
        seq = "".join(NUC[c] for c in codes)
        inp = {"seq": seq, "table": ref, "strand": strand}
        progress({"stage": "S2-translate", "inp": inp})
        if key not in tables:
            oc, t = ("ok", None) if ref[0] == "default" else call(lambda: make_table(ref_to_src(ref, variants)))
            tables[key] = (oc, t)
            if oc != "ok":
                out["mismatch"].append(_mm("translate", inp, "table", "ok", "Rejected", error=t))
        if tables[key][0] != "ok":
            continue
        tab = tables[key][1]
        oc, s = call(lambda: NucleotideSequence(seq).reverse().complement() if strand == "rc" else NucleotideSequence(seq))
        if oc != "ok":
            out["mismatch"].append(_mm("translate", inp, "sequence", "ok", "Rejected", error=s))
            continue
        oc, r = call(lambda: s.translate(complete=True, codon_table=tab))
        got = {"oc": oc, "val": list(str(r)) if oc == "ok" else []}
        if got != res["complete"]:
            out["mismatch"].append(_mm("translate", inp, "complete", res["complete"], got))
        out["rejected"] += oc != "ok"
        for field, kw in (("orfs", {}), ("orfsMet", {"met_start": True})):
            oc, r = call(lambda: s.translate(codon_table=tab, **kw))
            if oc == "ok":
                prots, pos = r
                got = [[int(a), int(b), list(str(p))] for p, (a, b) in zip(prots, pos)] if len(prots) == len(pos) \
                    else [[-1, -1, []]]
            else:
                got = ["Rejected", r]
            if got != res[field]:
                out["mismatch"].append(_mm("translate", inp, field, res[field], got))
        e = res["orfs"]
        out["orfs"] += len(e)
        out["nested"] += any(e[i][1] == e[j][1] for i in range(len(e)) for j in range(i))
        out["open"] += any(not x[2] or x[2][-1] != "*" for x in e)
        out["met_differs"] += res["orfs"] != res["orfsMet"]
        out["cases"] += 1
        out["calls"] += 3
    return out


def _compare_obs(op, inp, expected, obs):
    """One mismatch record per field of the observation bundle that differs."""
    return [_mm(op, inp, f, expected[f], obs[f]) for f in OBS_FIELDS if expected[f] != obs[f]]


def exec_cases(item):
    """Cases of the other families (seq, load, names, table, ctor, pin).  item: texts, variants, and for the
    cases that read a synthetic table file its lines (text)."""
    from biotite.sequence import CodonTable, NucleotideSequence

    from harness.tlabind.pool import progress

    variants = item["variants"]
    out = {"mismatch": [], "cases": 0, "calls": 0, "by_family": {}, "rejected": 0, "ok": 0}
    with _TableFile(item.get("text")):
        for st in item["states"]:
            inp, res = st["inp"], st["res"]
            fam = inp[0]
            progress({"stage": "S2-" + fam, "inp": inp if fam != "load" else inp[2]})
            out["by_family"][fam] = out["by_family"].get(fam, 0) + 1
            out["cases"] += 1
            if fam == "seq":
                chars, amb = inp[1], inp[2]
                c = observe_translate(None, chars, amb, "fwd", True, False)
                o = observe_translate(None, chars, amb, "fwd", False, False)
                oc, s = call(lambda: NucleotideSequence("".join(chars), ambiguous={"auto": None, "no": False, "yes": True}[amb]))
                got = {"ctor": c["ctor"],
                       "amb": [] if oc != "ok" else [len(s.get_alphabet()) > 4],
                       "text": [] if oc != "ok" else list(str(s)),
                       "complete": {"oc": c["oc"], "val": c["val"]},
                       "orfs": {"oc": o["oc"], "val": o["val"]}}
                for f in ("ctor", "amb", "text", "complete", "orfs"):
                    if got[f] != res[f]:
                        out["mismatch"].append(_mm("seq", {"chars": chars, "amb": amb}, f, res[f], got[f]))
                out["calls"] += 3
                out["rejected"] += c["oc"] != "ok"
            elif fam in ("load", "pin"):
                key = inp[2] if fam == "load" else ["id", 1]
                got = proj_make(lambda: load_key(key))
                err = got.pop("error", None)
                if got != res:
                    out["mismatch"].append(_mm("load", {"text": inp[1] if fam == "load" else ["real"], "key": key}, "table",
                                               res, got, error=err))
                if fam == "pin":
                    d = proj_table(CodonTable.default_table())
                    if d["aa"] != res["aa"] or d["starts"] != [num_of_word("ATG")]:
                        out["mismatch"].append(_mm("pin", {}, "default_table", {"aa": res["aa"], "starts": [14]}, d))
                out["calls"] += 1
                out["rejected"] += got["oc"] != "ok"
                out["ok"] += got["oc"] == "ok"
            elif fam == "names":
                oc, names = call(lambda: [list(x) for x in CodonTable.table_names()])
                if oc != "ok" or names != res:
                    out["mismatch"].append(_mm("names", {"text": inp[1]}, "names", res, names))
                out["calls"] += 1
            elif fam == "table":
                src = ref_to_src(inp[1], variants)
                oc, t = call(lambda: make_table(src))
                if oc != res["oc"]:
                    extra = {"observed_table": proj_table(t)} if oc == "ok" else {"error": t}
                    out["mismatch"].append(_mm("table", {"ref": inp[1], "src": src}, "oc", res["oc"], oc, **extra))
                elif oc == "ok":
                    out["mismatch"] += _compare_obs("table", {"ref": inp[1], "src": src}, res["obs"][0], observe_table(t))
                    out["ok"] += 1
                out["calls"] += 40
                out["rejected"] += res["oc"] != "ok"
            elif fam == "ctor":
                v = variants["ctor"][inp[1]]
                got = proj_make(lambda: make_table({"k": "dict", "pairs": v["pairs"], "starts": v["starts"]}))
                err = got.pop("error", None)
                if got != res:
                    out["mismatch"].append(_mm("ctor", {"variant": inp[1], "starts": v["starts"], "npairs": len(v["pairs"])},
                                               "table", res, got, error=err))
                out["calls"] += 1
                out["rejected"] += got["oc"] != "ok"
                # no verdict: the codon named in the message is the first missing one (Codon!FirstMissing)
                if inp[1] in variants.get("missing", {}) and got["oc"] != "ok":
                    w = "".join(variants["missing"][inp[1]])
                    out.setdefault("diag", []).append(
                        f"constructor variant {inp[1]}: message {'names' if repr(w) in (err or '') else 'does not name'} the first missing codon {w}")
            else:
                raise ValueError(f"family {fam}")
    return out


def _brief_src(src):
    """A table source without the 64 dictionary items (for records)."""
    if src["k"] == "dict":
        return {"k": "dict", "aa": "".join(a for _w, a in sorted(src["pairs"], key=lambda p: num_of_word(p[0])))
                if len(src["pairs"]) == 64 else src["pairs"], "starts": ["".join(w) for w in src["starts"]]}
    if src["k"] == "text":
        return {"k": "text", "key": src["key"], "lines": len(src["text"])}
    if src["k"] in ("starts", "map"):
        return dict(src, base=_brief_src(src["base"]))
    return src


# --------------------------------------------------------------------------- table machine (S2) and histories (S3)
def _other_aa(a):
    return "W" if a != "W" else "K"


def machine_call(regs, c, variants):
    """One call of TableMachine on the registry `regs` (list of CodonTable) -> (outcome, result of translate)."""
    import numpy as np
    from biotite.sequence import CodonTable, NucleotideSequence

    op, slot, arg = c
    rows = np.array([[n // 16, (n % 16) // 4, n % 4] for n in range(64)], dtype=np.int64)
    if op in ("load", "default", "ctor", "with_starts", "with_map", "make"):
        if op == "load":
            fn = lambda: load_key(variants["loadkeys"][arg])                                    # noqa: E731
        elif op == "default":
            fn = CodonTable.default_table
        elif op == "ctor":
            v = variants["ctor"][arg]
            fn = lambda: make_table({"k": "dict", "pairs": v["pairs"], "starts": v["starts"]})   # noqa: E731
        elif op == "make":
            fn = lambda: make_table(arg)                                                        # noqa: E731
        elif op == "with_starts":
            words = variants["starts"][arg] if isinstance(arg, str) else arg
            fn = lambda: regs[slot - 1].with_start_codons(["".join(w) for w in words])           # noqa: E731
        else:
            pairs = variants["maps"][arg] if isinstance(arg, str) else arg
            fn = lambda: regs[slot - 1].with_codon_mappings({"".join(w): a for w, a in pairs})   # noqa: E731
        oc, t = call(fn)
        if oc == "ok":
            regs.append(t)
        return oc, []
    t = regs[slot - 1]
    oc, out = call(lambda: _machine_use(t, op, arg, variants, rows))
    return (oc, out) if oc == "ok" else (oc, [])


def _machine_use(t, op, arg, variants, rows):
    """The calls of the machine that only use a table: -> result of translate ([] otherwise)."""
    from biotite.sequence import NucleotideSequence

    if op == "poke":
        # write into what the table hands out; the table must not change
        if arg == "dict":
            d = t.codon_dict()
            for k in list(d):
                d[k] = _other_aa(d[k])
            d.pop("AAA", None)
        elif arg == "dictcode":
            d = t.codon_dict(code=True)
            for k in list(d):
                d[k] = 0
        elif arg == "map":
            inp = rows.copy()
            a = t.map_codon_codes(inp)
            if a.flags.writeable:
                a[:] = 0
            inp[:] = 0
        elif arg == "isstart":
            inp = rows.copy()
            a = t.is_start_codon(inp)
            if getattr(a, "flags", None) is not None and a.flags.writeable:
                a[...] = ~a
            inp[:] = 3
        elif arg == "starts":
            s = list(t.start_codons(code=True))
            s.append((0, 0, 0))
            s2 = list(t.start_codons())
            s2.clear()
        elif arg == "codons":
            x = list(t["L"])
            x.clear()
            y = list(t[9])
            y.append((0, 0, 0))
        else:
            raise KeyError(arg)
        return []
    if op == "translate":
        dna = variants["probeDna"] if arg in ("-", None) else arg["seq"]
        met = True if arg in ("-", None) else bool(arg["met"])
        seq = "".join(NUC[x] for x in dna)
        prots, pos = NucleotideSequence(seq).translate(codon_table=t, met_start=met)
        return [[int(a), int(b), list(str(p))] for p, (a, b) in zip(prots, pos)]
    raise KeyError(op)


def resolve_call(c, variants):
    """A call of TableMachine with its arguments spelled out (so that a record can be replayed on its own)."""
    op, slot, arg = c
    if op == "load":
        key = variants["loadkeys"][arg]
        return ["make", 0, {"k": "id", "id": key[1]} if key[0] == "id" else {"k": "name", "name": key[1]}]
    if op == "default":
        return ["make", 0, {"k": "default"}]
    if op == "ctor":
        v = variants["ctor"][arg]
        return ["make", 0, {"k": "dict", "pairs": v["pairs"], "starts": v["starts"]}]
    if op == "with_starts":
        return [op, slot, variants["starts"][arg]]
    if op == "with_map":
        return [op, slot, variants["maps"][arg]]
    if op == "translate":
        return [op, slot, {"seq": variants["probeDna"], "met": True}]
    return [op, slot, arg]


def _globals_now():
    from biotite.sequence import CodonTable

    def one(fn):
        oc, v = call(lambda: proj_table(fn()))
        return v if oc == "ok" else {"aa": [], "starts": [], "error": v}
    return one(CodonTable.default_table), one(lambda: CodonTable.load(1))


def exec_path(item):
    """Replay one path of TableMachine's state graph."""
    from harness.tlabind.pool import progress

    with open(item["graph"]) as f:
        g = json.load(f)
    states, labels, variants = g["states"], g["labels"], g["variants"]
    mism, steps = [], 0
    for one in item["paths"]:
        m, k = _exec_one_path(g, states, labels, variants, one)
        mism += m
        steps += k
    return {"mismatch": mism, "steps": steps}


def _exec_one_path(g, states, labels, variants, path_steps):
    from harness.tlabind.pool import progress

    regs, path, mism = [], [], []
    steps = 0
    for lab, dst in path_steps:
        c = labels[lab]
        path.append(c)
        progress({"stage": "S2-machine", "path": path})
        oc, out = machine_call(regs, c, variants)
        steps += 1
        exp = states[dst]
        got = {"oc": oc, "reg": [proj_table(t) for t in regs], "out": out}
        d, s = _globals_now()
        for field, e, o in (("oc", exp["oc"], got["oc"]), ("reg", exp["reg"], got["reg"]), ("out", exp["out"], got["out"]),
                            ("default_table", g["def"], d), ("load(1)", g["std"], s)):
            if e != o:
                mism.append({"kind": "step", "op": c[0], "call": c, "path": list(path), "field": field,
                             "expected": e, "observed": o,
                             "resolved_path": [resolve_call(x, variants) for x in path]})
        if mism:
            break
    return mism, steps


# --------------------------------------------------------------------------- S3 generators
STD_AA = "KNKNTTTTRSRSIIMIQHQHPPPPRRRRLLLLEDEDAAAAGGGGVVVV*Y*YSSSS*CWCLFLF"


def rand_pairs(rng, order=True):
    """A random total dictionary: mostly the standard code with a few changes, sometimes arbitrary."""
    if rng.random() < 0.5:
        aa = list(STD_AA)
        for _ in range(rng.randint(0, 6)):
            aa[rng.randrange(64)] = rng.choice(PROT)
    else:
        aa = [rng.choice(PROT[:20] + "*" * rng.randint(0, 4)) for _ in range(64)]
    pairs = [[list(word_of_num(n)), aa[n]] for n in range(64)]
    if order and rng.random() < 0.5:
        rng.shuffle(pairs)
    return pairs


def rand_starts(rng, kmax=6):
    return [list(word_of_num(rng.randrange(64))) for _ in range(rng.randint(1, kmax))]


def rand_text(rng):
    """A random well-formed table file (Codon!Dom_TableText): 1..3 table blocks, random column orders, names,
    ids, label widths, order of the data lines, comment blocks, empty lines.  -> (lines, ids, names)"""
    nblocks = rng.randint(1, 3)
    ids = rng.sample(range(0, 100), nblocks)
    pool = ["Standard", "Alpha", "Alpha Two", "Al", "Beta, Gamma and Delta", "X", "Mito 1", "standard", "Yeast", "id 3"]
    names = rng.sample(pool, rng.randint(nblocks, min(len(pool), 2 * nblocks)))
    lines = []
    if rng.random() < 0.5:
        lines += [list("# random table file"), list("#"), []]
    all_names = []
    for b in range(nblocks):
        mine = names[b::nblocks]
        all_names += mine
        cols = list(range(64))
        rng.shuffle(cols)
        pairs = {num_of_word(w): a for w, a in rand_pairs(rng, order=False)}
        starts = {num_of_word(w) for w in rand_starts(rng)}
        width = rng.choice([5, 6, 7, 9])
        sep = rng.choice([";", "; ", " ; ", ";  "])
        block = [list("name " + sep.join(mine)) if rng.random() < 0.9 else None,
                 list("id" + " " * rng.randint(0, 2) + str(ids[b]) + " " * rng.randint(0, 1))]
        if block[0] is None:
            all_names = all_names[:-len(mine)]
        block = [x for x in block if x is not None]
        if rng.random() < 0.3:
            block.reverse()
        data = [("AA", "".join(pairs[c] for c in cols)), ("Init", "".join("i" if c in starts else "-" for c in cols)),
                ("Base1", "".join(word_of_num(c)[0] for c in cols)), ("Base2", "".join(word_of_num(c)[1] for c in cols)),
                ("Base3", "".join(word_of_num(c)[2] for c in cols))]
        if rng.random() < 0.5:
            rng.shuffle(data)
        for label, payload in data:
            block.append(list(label + " " * max(0, width - len(label)) + payload + " " * rng.randint(0, 2)))
        lines += block
        if b + 1 < nblocks:
            lines += [[] for _ in range(rng.randint(1, 3))]
            if rng.random() < 0.2:
                lines += [list("# between"), []]
    lines += [[] for _ in range(rng.randint(0, 2))]
    return lines, ids, all_names


def rand_src(rng, depth=0):
    """A random table source; built tables only (sources that are refused come from rand_bad_src)."""
    r = rng.random()
    if depth < 2 and r < 0.25:
        base = rand_src(rng, depth + 1)
        if rng.random() < 0.5:
            return {"k": "starts", "base": base, "starts": rand_starts(rng)}
        return {"k": "map", "base": base,
                "pairs": [[list(word_of_num(rng.randrange(64))), rng.choice(PROT)] for _ in range(rng.randint(0, 5))]}
    if r < 0.35:
        return {"k": "default"}
    if r < 0.55:
        return {"k": "id", "id": rng.choice(REAL_IDS)}
    if r < 0.62:
        return {"k": "name", "name": list(rng.choice(REAL_NAMES))}
    if r < 0.85:
        return {"k": "dict", "pairs": rand_pairs(rng), "starts": rand_starts(rng)}
    lines, ids, names = rand_text(rng)
    key = ["id", rng.choice(ids)] if rng.random() < 0.6 or not names else ["name", list(rng.choice(names))]
    return {"k": "text", "text": lines, "key": key}


def rand_bad_src(rng):
    """Sources whose construction the documentation refuses (or, rarely, accepts): missing codons, start
    codons of a wrong length / with ambiguous letters, unknown ids and names."""
    r = rng.random()
    if r < 0.25:
        pairs = rand_pairs(rng)
        for _ in range(rng.randint(1, 3)):
            pairs.pop(rng.randrange(len(pairs)))
        return {"k": "dict", "pairs": pairs, "starts": rand_starts(rng)}
    if r < 0.45:
        bad = rng.choice([list("AT"), list("ATGA"), list("ANG"), list("AYG"), list("atg")[:2]])
        starts = rand_starts(rng, 2)
        starts.insert(rng.randrange(len(starts) + 1), bad)
        return {"k": "dict", "pairs": rand_pairs(rng), "starts": starts}
    if r < 0.6:
        return {"k": "id", "id": rng.choice([0, 7, 8, 17, 18, 19, 20, 32, 33, 99, 101])}
    if r < 0.7:
        return {"k": "name", "name": list(rng.choice(["standard", "Standard ", "Mitochondrial", "Nuclear", "1", "Bacterial"]))}
    if r < 0.8:
        lines, ids, names = rand_text(rng)
        key = ["id", rng.choice([k for k in range(100) if k not in ids])] if rng.random() < 0.5 else \
            ["name", list(rng.choice([n for n in ["Nope", "Alpha T", "Gamma", "Stand"] if n not in names]))]
        return {"k": "text", "text": lines, "key": key}
    base = rand_src(rng, 1)
    if r < 0.9:
        bad = rng.choice([[list("AT")], [list("ATG"), list("CNG")], [list("ATGG")], [list("ATG"), list("A")],
                          [list("G")], [list("A"), list("C")]])
        return {"k": "starts", "base": base, "starts": bad}
    return {"k": "map", "base": base, "pairs": [[list("AAA"), "K"], rng.choice([[list("ARA"), "K"], [list("AAA"), "J"], [list("NNN"), "X"]])]}


def rand_dna(rng, table=None):
    """Random DNA enriched in start and stop codons, random length (also not divisible by 3), random case."""
    n = rng.choice([0, 1, 2, 3, 4, 5] + [rng.randint(6, 40)] * 6 + [rng.randint(41, 300)] * 4)
    if table is not None and rng.random() < 0.7:
        oc, hot = call(lambda: list(table.start_codons()) * 3 + [w for w, a in table.codon_dict().items() if a == "*"])
        hot = [w for w in (hot if oc == "ok" else []) if isinstance(w, str) and len(w) == 3] or ["ATG"]
        s = "".join(rng.choice("ACGT") for _ in range(rng.randint(0, 2)))
        while len(s) < n:
            s += rng.choice(hot) if rng.random() < 0.3 else "".join(rng.choice("ACGT") for _ in range(rng.choice([3, 3, 3, 1, 2])))
        s = s[:n]
    else:
        s = "".join(rng.choice("ACGT") for _ in range(n))
    if rng.random() < 0.3:
        s = "".join(ch.lower() if rng.random() < 0.5 else ch for ch in s)
    return s


REAL_IDS = [1]
REAL_NAMES = ["Standard"]


def event_translate(rng, src, table):
    seq = rand_dna(rng, table)
    amb = rng.choice(["auto"] * 6 + ["no", "yes"])
    r = rng.random()
    if r < 0.08 and seq:
        i = rng.randrange(len(seq))
        seq = seq[:i] + rng.choice("NRYWSKMBDHVnry") + seq[i + 1:]          # ambiguous letter
    elif r < 0.1 and seq:
        i = rng.randrange(len(seq))
        seq = seq[:i] + rng.choice("XUJ-") + seq[i + 1:]                     # no nucleotide letter at all
    complete = rng.random() < 0.35
    if complete and rng.random() < 0.6:
        seq = seq[:len(seq) - len(seq) % 3]
    met = (not complete) and rng.random() < 0.4
    strand = rng.choice(["fwd", "fwd", "rc"])
    obs = observe_translate(None if src["k"] == "default" and rng.random() < 0.7 else table,
                            list(seq), amb, strand, complete, met)
    obs.pop("error", None)
    return {"op": "translate", "src": src, "seq": list(seq), "amb": amb, "strand": strand, "complete": complete,
            "met": met, "obs": obs}


def event_lookup(rng, src, table):
    import numpy as np

    kind = rng.choice(["word", "aa", "code", "aacode"])
    if kind == "word":
        arg = list(rng.choice([word_of_num(rng.randrange(64))] * 6 + ["ANG", "AT", "ATGC", "NNN", "AYG"]))
        oc, v = call(lambda: table["".join(arg)])
        val = [str(v)] if oc == "ok" else []
    elif kind == "aa":
        arg = [rng.choice(PROT)]
        oc, v = call(lambda: table[arg[0]])
        val = sorted(num_of_word(w) for w in v) if oc == "ok" else []
    elif kind == "code":
        n = rng.randrange(64)
        arg = [n // 16, (n % 16) // 4, n % 4]
        if rng.random() < 0.15:
            arg = arg[:rng.choice([0, 1, 2])] if rng.random() < 0.5 else arg + [0]
        form = rng.choice(CODON_CODE_FORMS)
        oc, v = call(lambda: table[_codon_code_in_form(arg, form)])
        val = [int(v)] if oc == "ok" and np.ndim(v) == 0 else []
    else:
        arg = [rng.randrange(len(PROT))]
        oc, v = call(lambda: table[arg[0]])
        val = sorted(num_of_code(c) for c in v) if oc == "ok" else []
    return {"op": "lookup", "src": src, "kind": kind, "arg": arg, "obs": {"oc": oc, "val": val}}


def event_history(rng):
    """3..9 calls on a registry of tables; after each call all tables and the default table are logged."""
    regs, calls = [], []
    for _ in range(rng.randint(3, 9)):
        r = rng.random()
        if not regs or r < 0.25:
            src = rand_src(rng, 1) if rng.random() < 0.85 else rng.choice([{"k": "id", "id": 7}, {"k": "name", "name": list("Nope")}])
            if src["k"] == "text":
                src = {"k": "default"}
            c = {"c": "make", "src": src}
            oc, out = machine_call(regs, ["make", 0, src], None)
        else:
            slot = rng.randint(1, len(regs))
            if r < 0.45:
                starts = rand_starts(rng, 3) if rng.random() < 0.85 else [list("ATG"), list(rng.choice(["AT", "ANG", "ATGA"]))]
                c = {"c": "with_starts", "slot": slot, "starts": starts}
                oc, out = machine_call(regs, ["with_starts", slot, starts], None)
            elif r < 0.65:
                pairs = [[list(word_of_num(rng.randrange(64))), rng.choice(PROT)] for _ in range(rng.randint(1, 4))]
                if rng.random() < 0.15:
                    pairs.append([list("ANA"), "K"])
                c = {"c": "with_map", "slot": slot, "pairs": pairs}
                oc, out = machine_call(regs, ["with_map", slot, pairs], None)
            elif r < 0.85:
                what = rng.choice(["dict", "dictcode", "map", "starts", "isstart", "codons"])
                c = {"c": "poke", "slot": slot, "what": what}
                oc, out = machine_call(regs, ["poke", slot, what], None)
            else:
                seq = rand_dna(rng, regs[slot - 1]).upper()[:60]
                met = rng.random() < 0.5
                dna = [NUC.index(ch) for ch in seq]
                c = {"c": "translate", "slot": slot, "seq": list(seq), "met": met}
                oc, out = machine_call(regs, ["translate", slot, {"seq": dna, "met": met}], None)
                c["out"] = out
        d, _s = _globals_now()
        calls.append(dict(c, oc=oc, reg=[proj_table(t) for t in regs], **{"def": d}))
    return {"op": "history", "calls": calls}


def gen_s3(item):
    from harness.tlabind.pool import progress

    global REAL_IDS, REAL_NAMES
    REAL_IDS, REAL_NAMES = item["ids"], item["names"]
    rng = random.Random(item["seed"])
    events = []
    for _ in range(item["n"]):
        kind = rng.choice(item["kinds"])
        progress({"stage": "S3", "kind": kind, "events": len(events)})
        if kind == "history":
            events.append(event_history(rng))
            continue
        if kind == "names":
            lines, _ids, _names = rand_text(rng)
            from biotite.sequence import CodonTable

            with _TableFile(lines):
                oc, names = call(lambda: [list(x) for x in CodonTable.table_names()])
            events.append({"op": "names", "text": lines, "obs": names if oc == "ok" else [["?"]]})
            continue
        if kind == "make":
            src = rand_bad_src(rng) if rng.random() < 0.6 else rand_src(rng)
            obs = proj_make(lambda: make_table(src))
            obs.pop("error", None)
            events.append({"op": "make", "src": src, "obs": obs})
            continue
        src = rand_src(rng)
        progress({"stage": "S3", "kind": kind, "src": _brief_src(src)})
        oc, table = call(lambda: make_table(src))
        if oc != "ok":                          # judged by TLC as a "make" event (the specification builds it)
            events.append({"op": "make", "src": src, "obs": {"oc": "Rejected", "aa": [], "starts": []}})
            continue
        if kind == "table":
            events.append({"op": "table", "src": src, "obs": observe_table(table)})
        elif kind == "lookup":
            events.append(event_lookup(rng, src, table))
        else:
            events.append(event_translate(rng, src, table))
    return {"events": events}


# --------------------------------------------------------------------------- classification / replay
def _is_short_starts(src):
    return (isinstance(src, dict) and src.get("k") == "starts" and len(src.get("starts", [])) >= 1
            and all(len(w) == 1 and w[0] in NUC for w in src["starts"]))


def classify(mm):
    """Known findings (findings.d/X01.json), each for exactly one shape of disagreement."""
    if mm.get("kind") not in ("case", "event"):
        return None
    op, field = mm.get("op"), mm.get("field")
    exp, obs = mm.get("expected"), mm.get("observed")
    if op == "table" and field == "strEntries" and isinstance(exp, list) and isinstance(obs, list) and len(exp) == 64:
        # str(table) drops the start codon mark of exactly the codons ending in T
        cut = [[n, a, bool(m) and n % 4 != 3] for n, a, m in exp]
        if obs == cut and obs != exp:
            return "X01-str-start-mark"
    if op == "table" and field == "aaCodeForms" and exp == ["same"] * 3 and obs == ["same", "Rejected", "Rejected"]:
        return "X01-aa-code-numpy-int"
    src = (mm.get("inp") or {}).get("src") if mm.get("kind") == "case" else (mm.get("event") or {}).get("src")
    if op in ("table", "make") and field == "oc" and exp == "Rejected" and obs == "ok" and _is_short_starts(src):
        got = (mm.get("observed_table") or {}).get("starts")
        if got == sorted({21 * NUC.index(w[0]) for w in src["starts"]}):
            return "X01-with-starts-short"
    return None


def _reobserve_event(e):
    """Run the calls of a recorded event again -> its observation now."""
    if e["op"] == "table":
        return observe_table(make_table(e["src"]))
    if e["op"] == "make":
        o = proj_make(lambda: make_table(e["src"]))
        o.pop("error", None)
        return o
    if e["op"] == "names":
        from biotite.sequence import CodonTable

        with _TableFile(e["text"]):
            return [list(x) for x in CodonTable.table_names()]
    if e["op"] == "translate":
        t = make_table(e["src"])
        o = observe_translate(t, e["seq"], e["amb"], e["strand"], e["complete"], e["met"])
        o.pop("error", None)
        return o
    if e["op"] == "history":
        regs, out = [], []
        for c in e["calls"]:
            arg = {"make": c.get("src"), "with_starts": c.get("starts"), "with_map": c.get("pairs"), "poke": c.get("what"),
                   "translate": {"seq": [NUC.index(x) for x in c.get("seq", [])], "met": c.get("met")}}[c["c"]]
            oc, res = machine_call(regs, [c["c"], c.get("slot", 0), arg], None)
            d, _s = _globals_now()
            out.append({"oc": oc, "reg": [proj_table(t) for t in regs], "def": d, "out": res})
        return out
    return None


def replay(record):
    """Re-execute a stored mismatch against the current code: mismatch = the expected value is still not
    what the code gives."""
    kind, op = record.get("kind"), record.get("op")
    if kind == "case" and op == "translate":
        i = record["inp"]
        tab = None if i["table"][0] == "default" else (make_table({"k": "id", "id": i["table"][1]}) if i["table"][0] == "id" else None)
        if i["table"][0] == "syn":
            return {"error": "synthetic table: run the check"}
        f = record["field"]
        o = observe_translate(tab, list(i["seq"]), "auto", i["strand"], f == "complete", f == "orfsMet")
        got = {"oc": o["oc"], "val": o["val"]} if f == "complete" else o["val"]
        return {"observed": got, "expected": record["expected"], "mismatch": got != record["expected"]}
    if kind == "case" and op == "table":
        src = record["inp"]["src"]
        oc, t = call(lambda: make_table(src))
        if record["field"] == "oc":
            return {"observed": oc, "expected": record["expected"], "mismatch": oc != record["expected"]}
        got = observe_table(t)[record["field"]]
        return {"observed": got, "expected": record["expected"], "mismatch": got != record["expected"]}
    if kind == "case" and op in ("load", "ctor", "names", "seq", "pin"):
        return {"error": "replay by running the check (the case needs the specification's text / variants)", "record": record}
    if kind == "event":
        e = record["event"]
        now = _reobserve_event(e)
        f = record["field"]
        if e["op"] == "history":
            k = int(f.split()[1]) - 1
            c = e["calls"][k]
            same = now[k]["oc"] == c["oc"] and now[k]["reg"] == c["reg"] and now[k]["def"] == c["def"]
            return {"observed": now[k], "recorded": {x: c[x] for x in ("oc", "reg", "def")}, "mismatch": same}
        got = now[f] if isinstance(now, dict) and f in now else now
        return {"observed": got, "expected": record.get("expected"), "mismatch": got != record.get("expected")}
    if kind == "step":
        regs, oc, out = [], None, []
        for c in record["resolved_path"]:
            oc, out = machine_call(regs, c, None)
        d, sd = _globals_now()
        got = {"oc": oc, "reg": [proj_table(t) for t in regs], "out": out, "default_table": d, "load(1)": sd}[record["field"]]
        return {"observed": got, "expected": record["expected"], "mismatch": got != record["expected"]}
    return {"error": "unknown record", "record": record}


# --------------------------------------------------------------------------- orchestration
def exec_any(item):
    """One pool run for everything that touches biotite: item['job'] selects the executor."""
    return {"translate": exec_translate, "cases": exec_cases, "path": exec_path, "gen": gen_s3}[item["job"]](item)


FLAG_NAMES = {"make": ["in_domain", "oc", "aa", "starts"], "names": ["in_domain", "names"],
              "translate": ["in_domain", "ctor", "oc", "val"], "lookup": ["in_domain", "oc", "val"],
              "table": ["in_domain"] + OBS_FIELDS}


def _split_dump(path):
    texts, cur = [], []
    with open(path) as f:
        for line in f:
            if line.startswith("State ") and line.rstrip().endswith(":"):
                if cur:
                    texts.append("".join(cur))
                cur = []
            else:
                cur.append(line)
    if cur:
        texts.append("".join(cur))
    texts = [t.strip() for t in texts if "phase = 1" in t]
    texts.sort()            # TLC's dump order depends on worker scheduling
    return texts


def _validate(ctx, traces, stage, text_file, selftest=False, batch=2500, parallel=3):
    """TLC judges recorded events (Trace.tla), in batches of bounded size (up to `parallel` TLC runs at a time).
    -> list of (trace index, event index, flags, expected)."""
    import time
    from concurrent.futures import ThreadPoolExecutor

    from harness.tlabind import tlc as T
    from harness.tlabind.tlaval import parse_value, to_py

    d = T.scratch_dir("x01tr")
    batches = []
    start = 0
    while start < len(traces):
        stop, nev = start, 0
        while stop < len(traces) and (stop == start or nev + len(traces[stop]) <= batch):
            nev += len(traces[stop])
            stop += 1
        tf = os.path.join(d, f"traces_{stage}_{len(batches)}.json")
        with open(tf, "w") as f:
            json.dump(traces[start:stop], f, separators=(",", ":"))
        batches.append((start, stop, tf))
        start = stop

    def one(k):
        b0, b1, tf = batches[k]
        time.sleep(0.4 * (k % parallel))        # the scratch directories of run_tlc are named by the millisecond
        return ctx.tlc("Trace", "Trace.cfg", stage=stage + ("-selftest" if selftest else ""),
                       workers=1 if b1 - b0 < 4 else 8, env={"TRACE_FILE": tf, "X01_TEXT": text_file},
                       count=False, timeout=1800)

    if len(batches) > 1:
        with ThreadPoolExecutor(max_workers=parallel) as ex:
            results = list(ex.map(one, range(len(batches))))
    else:
        results = [one(k) for k in range(len(batches))]
    out = []
    for (b0, b1, _tf), res in zip(batches, results):
        expect = sum(len(t) + 1 for t in traces[b0:b1])
        if res.distinct != expect:
            raise RuntimeError(f"X01 {stage}: trace validation visited {res.distinct} states, expected {expect}")
        if not selftest:
            ctx.states += res.distinct
            ctx.transitions += res.generated
        for x in T.printed_values(res.out, "MISMATCH"):
            v = to_py(parse_value(x))
            out.append((v[1] - 1 + b0, v[2] - 1, v[3], v[4]))
    return out


def _brief_event(e):
    b = dict(e)
    if "src" in b:
        b["src"] = b["src"]
    return b


def _report(ctx, traces, mms, stage):
    """One mismatch record per failed flag of every rejected event."""
    seen = set()
    n = 0
    for ti, li, flags, exp in mms:
        if (ti, li) in seen:
            continue
        seen.add((ti, li))
        e = traces[ti][li]
        if e["op"] == "history":
            for k, ok in enumerate(flags):
                if not ok:
                    c = e["calls"][k]
                    ctx.mismatch({"stage": stage, "kind": "event", "op": "history", "field": f"call {k + 1}", "call": c["c"],
                                  "expected_registry_at_end": exp,
                                  "observed": {x: c[x] for x in ("oc", "reg", "def")}, "event": e})
                    n += 1
            continue
        names = FLAG_NAMES[e["op"]]
        if not flags[0]:
            raise RuntimeError(f"X01 {stage}: generated input outside its domain: {json.dumps(_brief_event(e))[:600]}")
        oc_differs = e["op"] in ("make", "translate", "lookup") and not flags[names.index("oc")]
        for name, ok in zip(names[1:], flags[1:]):
            if ok or (oc_differs and name != "oc"):       # a different outcome: the values differ as a consequence
                continue
            obs = e["obs"]
            rec = {"stage": stage, "kind": "event", "op": e["op"], "field": name,
                   "expected": exp.get(name) if isinstance(exp, dict) else exp,
                   "observed": obs.get(name) if isinstance(obs, dict) else obs, "event": e}
            if e["op"] == "names":
                rec["expected"], rec["observed"] = exp, obs
            if e["op"] == "make" and obs.get("oc") == "ok":
                rec["observed_table"] = {"aa": obs["aa"], "starts": obs["starts"]}
            ctx.mismatch(rec)
            n += 1
    return n


def _nontrivial_event(e):
    if e["op"] == "translate":
        return e["obs"]["oc"] == "ok" and (len(e["obs"]["val"]) >= 2)
    if e["op"] == "history":
        return sum(1 for c in e["calls"] if c["c"] in ("with_starts", "with_map") and c["oc"] == "ok") >= 1
    if e["op"] == "make":
        return e["src"]["k"] in ("text", "starts", "map", "dict")
    return True


def run(ctx):
    from concurrent.futures import ThreadPoolExecutor

    from harness.tlabind import dot, helpers, pool
    from harness.tlabind import tlc as T
    from harness.tlabind.core import Vacuity
    from harness.tlabind.tlaval import to_py

    quick = ctx.quick
    tier = "" if quick else "_thorough"
    ctx.assumptions += [
        "Dom_Ctor / Dom_NewStarts: dictionary keys are words of three characters, amino acids are symbols of the protein alphabet, at least one start codon (CodonTable(d, []) and with_start_codons([]) fail inside numpy today; whether a table without start codons may exist is left open)",
        "Dom_CodonCode: codon codes handed to table[...] / map_codon_codes / is_start_codon are 0..3 (table[(1, 2, 4)] returns the amino acid of another codon today; codes outside the alphabet are not judged)",
        "Dom_TableText: table files consist of comment blocks and table blocks separated by empty lines; in a table block the name / id lines precede the five data lines (each once, any order, 64 columns naming 64 distinct codons, at least one start codon); ids and names are unique in the file",
        "Dom_Translate: met_start only in ORF mode",
        "refusals are judged where the statement or the docstrings name them: dictionary without all 64 codons, start codon not of length 3, ambiguous letters in codons, table[...] with a word of another length or a code of another length, map_codon_codes with a last dimension other than 3, unknown table id / name, complete translation of a length not divisible by 3, translation of a sequence with the ambiguous alphabet; outcome = any exception",
        "table == other is judged only when the start codons are equal as sequences or differ as sets (the code compares tuples: the same start codons in another order compare unequal; left open)",
        "the order of the tuples returned by table['M'] / table[14] / start_codons() and of table_names() entries with equal names is not judged (sets), table_names() is compared as a sequence in file order",
        "the text of codon_tables.txt is the reference for the built-in tables (read from the file the imported biotite reads); only table 1 (standard code, start codons TTG CTG ATG) and the default table are pinned in the specification",
        "trusted: TLC, the TLA+ value parser, the projections (proj_table, observe_table, _parse_str_entries, observe_translate), numpy",
    ]
    ctx.cov["rule"] = ("non-trivial = translate case / event with at least two ORFs; table observation bundles; load / make of a table "
                       "from a synthetic file, a dictionary or a derived table; machine paths and histories with at least one derived table")

    # ---------------------------------------------------------------- the table text, as the imported biotite reads it
    lines = pool.in_fork(table_text_lines)
    if not isinstance(lines, list):
        raise RuntimeError(f"X01: cannot read the table file: {lines}")
    d = T.scratch_dir("x01")
    text_file = os.path.join(d, "text.json")
    with open(text_file, "w") as f:
        json.dump(lines, f, separators=(",", ":"))
    env = {"X01_TEXT": text_file}

    # ---------------------------------------------------------------- S1: both models (and the recording of the
    # repository's tests, which needs nothing from TLC), in parallel
    prefix = os.path.join(d, "states")
    dotf = os.path.join(d, "g.dot")

    def run_mc():
        return ctx.tlc("MC", f"MC{tier}.cfg", stage="S1", dump=prefix, timeout=3000, env=env, count=False)

    def run_machine():
        import time

        time.sleep(0.5)
        return ctx.tlc("TableMachine", f"MC_machine{tier}.cfg", stage="S1-machine", dump_dot=dotf, workers=1,
                       timeout=3000, env=env, count=False)

    with ThreadPoolExecutor(max_workers=3) as ex:
        f1, f2, f3 = ex.submit(run_mc), ex.submit(run_machine), ex.submit(record_repo_tests, ctx)
        res_mc, res_m, repo = f1.result(), f2.result(), f3.result()
    for r in (res_mc, res_m):
        ctx.states += r.distinct
        ctx.transitions += r.generated
    ctx.exhaustive = True
    texts = _split_dump(prefix + ".dump" if os.path.exists(prefix + ".dump") else prefix)
    fam_re = re.compile(r'inp = <<\s*"(\w+)"')
    by_fam = {}
    for t in texts:
        m = fam_re.search(t)
        by_fam.setdefault(m.group(1), []).append(t)
    need = {"translate", "seq", "load", "names", "text", "table", "ctor", "variants", "pin"}
    if need - set(by_fam):
        raise Vacuity(f"families without cases: {sorted(need - set(by_fam))}")
    ctx.cov["s1_cases_per_family"] = {k: len(v) for k, v in sorted(by_fam.items())}
    variants = _parse_states(by_fam["variants"])[0]["res"]
    if variants["probes"] != BAD_PROBES or variants["forms"] != [CODON_CODE_FORMS, AA_CODE_FORMS, MAP_FORMS]:
        raise RuntimeError("X01: the driver's probe list / forms differ from CodonUniverse!BadProbes / *Forms")
    tr_variants = {"syn": variants["syn"], "starts": {}, "maps": {}}

    # ---------------------------------------------------------------- items: translate cases
    t_items = [{"job": "translate", "texts": ch, "variants": tr_variants} for ch in helpers.chunked(by_fam["translate"], 400)]
    # ---------------------------------------------------------------- items: the other families
    states = {fam: _parse_states(by_fam[fam]) for fam in ("seq", "load", "names", "text", "table", "ctor", "pin")}
    text_of = {json.dumps(st["inp"][1]): st["res"] for st in states["text"]}
    groups = {}
    for fam in ("load", "names"):
        for st in states[fam]:
            groups.setdefault(json.dumps(st["inp"][1]), []).append(st)
    c_items = []
    for key, sts in sorted(groups.items()):
        ref = json.loads(key)
        if ref[0] != "real" and key not in text_of:
            raise RuntimeError(f"X01: no rendered text for {key}")
        c_items.append({"job": "cases", "states": sts, "variants": variants, "text": None if ref[0] == "real" else text_of[key]})
    for fam, size in (("seq", 200), ("table", 4), ("ctor", 12), ("pin", 1)):
        c_items += [{"job": "cases", "states": ch, "variants": variants} for ch in helpers.chunked(states[fam], size)]
    # ---------------------------------------------------------------- items: the table machine, every transition
    g = dot.load(dotf)
    if not g.edges:
        raise RuntimeError("X01: empty state graph")
    labels, lab_ix, ops_seen = [], {}, {}
    for (_s, lab, _d) in g.edges:
        if lab not in lab_ix:
            _name, args = dot.parse_label(lab)
            lab_ix[lab] = len(labels)
            labels.append(to_py(args[0]))
        op = labels[lab_ix[lab]][0]
        ops_seen[op] = ops_seen.get(op, 0) + 1
    needops = {"load", "default", "ctor", "with_starts", "with_map", "poke", "translate"}
    if needops - set(ops_seen):
        raise Vacuity(f"machine actions never taken: {sorted(needops - set(ops_seen))}")
    ids = {nid: k for k, nid in enumerate(g.state_text)}
    mstates = [None] * len(ids)
    refused = 0
    for nid, k in ids.items():
        st = g.state(nid)
        mstates[k] = {"oc": st["oc"], "out": to_py(st["out"]),
                      "reg": [{"aa": list(to_py(t["aa"])), "starts": sorted(set(to_py(t["starts"])))} for t in st["reg"]]}
        refused += st["oc"] != "ok"
    if refused == 0:
        raise Vacuity("machine: no refused call in the state graph")
    tab = {json.dumps(st["inp"][1]): st["res"] for st in states["table"]}
    defo, stdo = tab['["default"]']["obs"][0], tab['["id", 1]']["obs"][0]
    gfile = os.path.join(d, "graph.json")
    with open(gfile, "w") as f:
        json.dump({"states": mstates, "labels": labels, "variants": variants,
                   "def": {"aa": defo["dictSyms"], "starts": defo["starts"]},
                   "std": {"aa": stdo["dictSyms"], "starts": stdo["starts"]}}, f)
    paths, covered = dot.covering_paths(g, max_len=8, rng=ctx.rng)
    plist = [[[lab_ix[lab], ids[dst]] for lab, dst in steps] for _root, steps in paths]
    p_items = [{"job": "path", "graph": gfile, "paths": ch} for ch in helpers.chunked(plist, 20)]
    # ---------------------------------------------------------------- items: S3 generators
    real_ok = [st for st in states["load"] if st["inp"][1][0] == "real" and st["res"]["oc"] == "ok"]
    rids = sorted(st["inp"][2][1] for st in real_ok if st["inp"][2][0] == "id")
    rnames = sorted("".join(st["inp"][2][1]) for st in real_ok if st["inp"][2][0] == "name")
    nitems = 24 if quick else 400
    per = 14 if quick else 30
    kinds = ["translate"] * 6 + ["table", "make", "make", "names", "lookup", "lookup", "history", "history"]
    g_items = [{"job": "gen", "seed": ctx.rng.randrange(1 << 30), "n": per, "ids": rids, "names": rnames, "kinds": kinds}
               for _ in range(nitems)]

    # ---------------------------------------------------------------- one pool run for all real-code calls
    all_items = g_items + c_items + p_items + t_items
    all_res = helpers.run_pool(ctx, "harness.drivers.x01:exec_any", all_items, stage="S2", item_timeout=600)
    for it, r in zip(all_items, all_res):
        if r and "crash" not in r:
            for mm in r.get("mismatch", ()):
                if it["job"] != "gen":
                    mm["stage"] = {"translate": "S2-translate", "cases": "S2", "path": "S2-machine"}[it["job"]]

    def res_of(job):
        return [r for it, r in zip(all_items, all_res) if it["job"] == job and r and "crash" not in r]

    # ---------------------------------------------------------------- S2: translate cases
    results = res_of("translate")
    agg = {k: sum(r.get(k, 0) for r in results) for k in ("cases", "calls", "nested", "open", "met_differs", "orfs", "rejected")}
    ctx.cov["s2_translate"] = agg
    ctx.log(f"S2-translate: {agg['cases']} sequences x tables, {agg['calls']} calls, {agg['orfs']} ORFs "
            f"({agg['nested']} cases with nested ORFs, {agg['open']} with an ORF without stop)")
    if agg["cases"] != len(by_fam["translate"]) and not ctx.violations:
        raise RuntimeError(f"S2-translate: {agg['cases']} of {len(by_fam['translate'])} cases executed")
    if min(agg["nested"], agg["open"], agg["met_differs"], agg["rejected"]) == 0:
        raise Vacuity(f"translate cases: a class never occurred: {agg}")
    ctx.traces_validated += agg["cases"]
    ctx.evaluations += agg["calls"]
    # ---------------------------------------------------------------- S2: the other families
    fams, ncases, ncalls, nrej, nok = {}, 0, 0, 0, 0
    for r in res_of("cases"):
        for k, v in r["by_family"].items():
            fams[k] = fams.get(k, 0) + v
        ncases += r["cases"]
        ncalls += r["calls"]
        nrej += r["rejected"]
        nok += r["ok"]
    diag = sorted({x for r in res_of("cases") for x in r.get("diag", ())})
    ctx.cov["s2_diag_no_verdict"] = diag
    for x in diag:
        if "does not name" in x:
            ctx.note(x)
    ctx.cov["s2_cases_per_family"] = fams
    ctx.cov["s2_refusals"] = nrej
    ctx.log(f"S2: {ncases} cases of {sorted(fams)} ({nrej} refusals, {len(text_of) - 1} synthetic table files)")
    if nrej == 0 or nok == 0 or len(text_of) < 2:
        raise Vacuity(f"S2: refusals {nrej}, built tables {nok}, table files {len(text_of)}")
    ctx.traces_validated += ncases
    ctx.evaluations += ncalls
    ctx.nontrivial += agg["nested"] + agg["open"] + fams.get("table", 0) + sum(len(v) for k, v in groups.items() if '"syn"' in k)
    ctx.sample({"s2_translate_case": by_fam["translate"][len(by_fam["translate"]) // 2]})
    ctx.sample({"s2_load_case": {"inp": states["load"][0]["inp"], "res": states["load"][0]["res"]}})
    # ---------------------------------------------------------------- S2: the table machine
    msteps = sum(r.get("steps", 0) for r in res_of("path"))
    ctx.cov.update({"machine_transitions_per_op": ops_seen, "machine_states": len(mstates), "machine_refused_states": refused,
                    "s2_machine_paths": len(plist), "s2_machine_steps": msteps,
                    "s2_machine_transitions_covered": covered, "s2_machine_transitions_total": len(g.edges)})
    ctx.log(f"S2-machine: {len(plist)} paths, {msteps} calls, {covered}/{len(g.edges)} transitions")
    if covered != len(g.edges):
        raise Vacuity(f"machine: {covered} of {len(g.edges)} transitions covered")
    ctx.traces_validated += len(plist)
    ctx.evaluations += msteps
    ctx.nontrivial += sum(1 for pth in plist if any(labels[x][0] in ("with_starts", "with_map") for x, _ in pth))
    ctx.sample({"s2_machine_path": [labels[x] for x, _ in plist[0]]})

    # ---------------------------------------------------------------- S3: recorded random events, the calls of the
    # repository's tests and the corrupted events of the binding self-test: one TLC run
    traces = [r["events"] for r in res_of("gen") if r.get("events")]
    evs = [e for t in traces for e in t]
    changed = []
    for want in ("translate", "table", "make", "history", "names", "lookup"):
        for e in evs:
            if e["op"] == want:
                c = json.loads(json.dumps(e))
                if _corrupt(c):
                    changed.append([c])
                    break
    if len(changed) < 6:
        raise Vacuity(f"binding self-test: only {len(changed)} of 6 kinds of events could be corrupted")
    repo_events = (repo or {}).get("events") or []
    every = traces + ([repo_events] if repo_events else []) + changed
    mms = _validate(ctx, every, "S3", text_file)
    n3, nr = len(traces), (1 if repo_events else 0)
    _report(ctx, traces, [m for m in mms if m[0] < n3], "S3")
    if repo_events:
        _report(ctx, [repo_events], [(0,) + m[1:] for m in mms if m[0] == n3], "S3-repo-tests")
        per = {}
        for e in repo_events:
            per[e["op"]] = per.get(e["op"], 0) + 1
        ctx.cov.update({"repo_test_events": len(repo_events), "repo_test_events_skipped": repo["skipped"],
                        "repo_test_events_per_kind": per})
        ctx.traces_validated += 1
        ctx.evaluations += len(repo_events)
        ctx.log(f"S3-repo-tests: {len(repo_events)} recorded calls judged by TLC: {per}")
    hit = {m[0] for m in mms if m[0] >= n3 + nr}
    if len(hit) < len(changed):
        raise Vacuity(f"binding self-test: {len(changed)} corrupted traces, {len(hit)} rejected")
    ctx.cov["selftest_corrupted_rejected"] = len(hit)
    ctx.states -= sum(len(t) + 1 for t in changed)
    per_kind = {}
    for e in evs:
        per_kind[e["op"]] = per_kind.get(e["op"], 0) + 1
    tr = [e for e in evs if e["op"] == "translate"]
    s3cov = {"s3_traces": len(traces), "s3_events": len(evs), "s3_events_per_kind": per_kind,
             "s3_translate_rc": sum(1 for e in tr if e["strand"] == "rc"),
             "s3_translate_complete": sum(1 for e in tr if e["complete"] and e["obs"]["oc"] == "ok"),
             "s3_translate_refused": sum(1 for e in tr if e["obs"]["oc"] != "ok"),
             "s3_translate_orfs": sum(len(e["obs"]["val"]) for e in tr if not e["complete"]),
             "s3_translate_max_len": max([len(e["seq"]) for e in tr] or [0]),
             "s3_make_refused": sum(1 for e in evs if e["op"] == "make" and e["obs"]["oc"] != "ok"),
             "s3_make_from_text": sum(1 for e in evs if e["op"] == "make" and e["src"]["k"] == "text" and e["obs"]["oc"] == "ok"),
             "s3_history_calls": sum(len(e["calls"]) for e in evs if e["op"] == "history"),
             "s3_history_derived": sum(1 for e in evs if e["op"] == "history" for c in e["calls"]
                                       if c["c"] in ("with_starts", "with_map") and c["oc"] == "ok")}
    ctx.cov.update(s3cov)
    if set(per_kind) != {"translate", "table", "make", "names", "lookup", "history"} or \
            min(s3cov[k] for k in ("s3_translate_rc", "s3_translate_complete", "s3_translate_refused", "s3_translate_orfs",
                                   "s3_make_refused", "s3_history_derived")) == 0:
        raise Vacuity(f"S3: a class of events never occurred: {s3cov}")
    ctx.traces_validated += len(traces)
    ctx.evaluations += len(evs) + s3cov["s3_history_calls"]
    ctx.nontrivial += sum(1 for e in evs if _nontrivial_event(e))
    ctx.sample({"s3_event": next(e for e in tr if not e["complete"] and len(e["obs"]["val"]) >= 2 and len(e["seq"]) < 60)})
    ctx.log(f"S3: {len(evs)} events in {len(traces)} traces judged by TLC: {per_kind}")


def _corrupt(e):
    """Binding self-test: damage one recorded event (True if something was changed)."""
    if e["op"] == "translate" and e["obs"]["oc"] == "ok" and e["obs"]["val"]:
        if e["complete"]:
            e["obs"]["val"][0] = "W" if e["obs"]["val"][0] != "W" else "K"
        else:
            e["obs"]["val"][-1][1] += 3                       # the stop position one codon later
        return True
    if e["op"] == "table":
        e["obs"]["aaOf"][5] = "W" if e["obs"]["aaOf"][5] != "W" else "K"
        return True
    if e["op"] == "make" and e["obs"]["oc"] == "ok":
        e["obs"]["starts"] = e["obs"]["starts"][1:] + [(e["obs"]["starts"][0] + 1) % 64] if len(e["obs"]["starts"]) > 1 \
            else [(e["obs"]["starts"][0] + 1) % 64]
        e["obs"]["starts"].sort()
        return True
    if e["op"] == "history" and len(e["calls"]) >= 2 and e["calls"][-1]["reg"]:
        a = e["calls"][-1]["reg"][0]["aa"]
        a[0] = "W" if a[0] != "W" else "K"                    # as if the first table had changed
        return True
    if e["op"] == "names" and e["obs"]:
        e["obs"] = e["obs"][:-1]
        return True
    if e["op"] == "lookup" and e["obs"]["oc"] == "ok" and e["kind"] in ("word", "code"):
        e["obs"]["oc"] = "Rejected"
        return True
    return False


def record_repo_tests(ctx):
    """The translate / load / table[...] calls made by the repository's own tests of the area, recorded by a
    pytest plugin installed from outside (runs in its own process).  -> {'events', 'skipped'} or None"""
    import subprocess

    from harness.tlabind import tlc as T

    d = T.scratch_dir("x01rec")
    rec = os.path.join(d, "rec.json")
    env = dict(os.environ, PYTHONPATH=T.VERIF + os.pathsep + os.environ.get("PYTHONPATH", ""), X01_RECORD_FILE=rec)
    tests = ["tests/sequence/test_codon.py", "tests/sequence/test_seqtypes.py"]
    try:
        subprocess.run(["/venv/bin/python", "-m", "pytest", "-q", "-p", "no:cacheprovider", "-p",
                        "harness.recorders.x01_recorder"] + tests,
                       cwd="/repo", env=env, stdout=subprocess.DEVNULL, stderr=subprocess.DEVNULL, timeout=600)
    except subprocess.TimeoutExpired:
        ctx.note("repository-test recorder timed out; stage skipped")
        return None
    if not os.path.exists(rec):
        ctx.note("repository-test recorder produced no file (pytest could not start); stage skipped")
        return None
    with open(rec) as f:
        return json.load(f)


MANIFEST = {
    "technique": "TLA+ specification of codon tables, the table file (character level), NucleotideSequence.translate and ORF finding (specs/X01) model-checked by TLC; every enumerated case and every transition of the table-registry machine executed against the real classes and compared with TLC's values; recorded random events and the calls of the repository's own tests judged by TLC",
    "level_text": "TLC checks for every DNA string up to length 6 (5 tables: default, NCBI 1 / 11 / 27, a synthetic one) and every string over A G T up to length 9 (default table; up to 8 with table 11) that the code's per-frame ORF scan equals the declarative ORF set (every start codon, end behind the first in-frame stop or at the frame end, sorted, met_start), that every ORF is the complete translation of its slice and that complete translation is the codon-by-codon image; that the line scanner of load() equals the block-wise reading of the table file on codon_tables.txt (every id and name, unknown keys) and on 120 synthetic table files (3 blocks in every order, column orders T-C-A-G / A-C-G-T / reversed, label widths, name separators, 19 keys each); that the constructor's array filling equals the declarative definition, that all lookups of a table agree with each other for the 25 built-in tables, the default table, 2 synthetic and 52 derived tables, and that table 1 of the file is the standard genetic code. Every case (sequence x table, strands, mixed-case / ambiguous / foreign letters, loads, table_names, observation bundles through every form of code, constructor variants) is executed against the real classes; every transition of the registry machine (load / default / constructor / with_start_codons / with_codon_mappings / writes into returned containers / translate, <= 2 tables, 3 calls) is replayed comparing every table, default_table() and load(1) after each call; random dictionaries, random table files, DNA up to 300 nt on both strands and histories of 3-9 calls are recorded and judged by TLC, as are the calls of tests/sequence/test_codon.py and test_seqtypes.py.",
    "level_note": "Bounded: exhaustive only inside the stated bounds. The built-in tables other than table 1 are taken from the file's text (no independent copy of the NCBI data). Codes outside 0..3, dictionaries with keys of another length, tables without start codons, table files outside Dom_TableText, the order of returned tuples and equality of tables whose start codons differ only in order are not judged. Trusted: TLC, the TLA+ value parser, the projections, numpy.",
}
