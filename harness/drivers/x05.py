"""X05 — integrity checks, repair functions and filters of biotite.structure.

S1  TLC checks specs/X05/Integrity.tla: for every bounded input the code-shaped definitions of
    IntegrityOps (diff / where / cumsum / insert / scatter / np.split) equal the per-atom ones,
    repaired residue ids pass check_res_id_continuity, dropped duplicates leave none, ...
S2  every (case, result) pair dumped by TLC is executed against biotite: on an AtomArray and on
    an AtomArrayStack (where the documentation allows both), with list / ndarray / tuple
    arguments for infer_elements / create_atom_names, positional and keyword arguments, and
    as write-back pipelines on one live object (repair -> write -> check -> repair).
S3  seeded sessions on live arrays / stacks of up to 14 atoms (larger alphabets, in-place
    edits and repairs written back between the calls) are recorded and re-computed event by
    event by TLC (specs/X05/Trace.tla).
"""

from __future__ import annotations

import json
import os
import random
import warnings

PROPERTY = "X05"
CCD = "/verif/fixtures/ccd/components_synth.bcif"

ATOM_FILTERS = ("filter_solvent", "filter_monoatomic_ions", "filter_canonical_nucleotides",
                "filter_nucleotides", "filter_canonical_amino_acids", "filter_amino_acids",
                "filter_carbohydrates", "filter_peptide_backbone", "filter_phosphate_backbone")
PIPELINES = ("repair_res_ids", "names_roundtrip")
ARRAY_ONLY = ("filter_linear_bond_continuity", "check_linear_continuity", "check_backbone_continuity")
LIST_FORMS = ("infer_elements", "create_atom_names")
WRITES = ("apply_res_ids", "apply_elements", "apply_atom_names", "set")
QUERY_OPS = (("check_atom_id_continuity", "check_res_id_continuity", "check_duplicate_atoms",
              "filter_linear_bond_continuity", "check_linear_continuity", "check_backbone_continuity",
              "filter_polymer", "filter_intersection", "create_continuous_res_ids",
              "infer_elements", "create_atom_names", "filter_first_altloc",
              "filter_highest_occupancy_altloc") + ATOM_FILTERS)
ALL_OPS = QUERY_OPS + PIPELINES
# representation table: dtype class the documentation gives for the result of each function
# (only used to decide how an array is written into the JSON log, never for a verdict)
_COLS = ("chain_id", "res_id", "ins_code", "res_name", "atom_name", "element", "hetero", "atom_id")
_DTYPES = ("U4", int, "U1", "U5", "U6", "U2", bool, int)
_TEXT_COLS = (0, 2, 3, 4, 5)


class DriverError(Exception):
    """A bug of this driver (never an outcome of the library)."""


# --------------------------------------------------------------------------- real side
def _st():
    import biotite.structure as struc

    return struc


def warmup():
    import biotite.structure.info as info

    _st()
    info.set_ccd_path(CCD)
    info.amino_acid_names()
    info.nucleotide_names()
    info.carbohydrate_names()


def _txt(chars):
    return "".join(chars)


def default_pts(n, salt=0):
    """Distinct coordinates (1/4 A units) for arrays whose coordinates are irrelevant."""
    return [[6 * i + salt, (i * i + salt) % 5, salt] for i in range(n)]


def build(rows, has_id, pts, cont):
    """The real object for an abstract array: rows (8 columns, texts as char lists), pts in 1/4 A."""
    import numpy as np

    struc = _st()
    n = len(rows)
    if len(pts) != n:
        raise DriverError("pts and rows differ in length")
    a = struc.AtomArray(n)
    for ci, (name, dt) in enumerate(zip(_COLS, _DTYPES)):
        if name == "atom_id":
            if not has_id:
                continue
            a.add_annotation("atom_id", int)
        vals = [(_txt(r[ci]) if ci in _TEXT_COLS else r[ci]) for r in rows]
        a.set_annotation(name, np.array(vals, dtype=dt))
    a.coord = np.array(pts, dtype=np.float32).reshape(n, 3) / np.float32(4)
    if cont == "array":
        return a
    if cont == "stack":
        b = a.copy()
        b.coord = a.coord + np.float32(0.5)
        return struc.stack([a, b])
    raise DriverError(f"container {cont}")


def project(obj):
    """Abstract state of a real array / stack (first model's coordinates)."""
    import numpy as np

    cats = obj.get_annotation_categories()
    has_id = "atom_id" in cats
    n = obj.array_length()
    cols = []
    for ci, name in enumerate(_COLS):
        if name == "atom_id" and not has_id:
            cols.append([0] * n)
            continue
        arr = obj.get_annotation(name)
        if ci in _TEXT_COLS:
            cols.append([list(str(x)) for x in arr])
        elif name == "hetero":
            cols.append([bool(x) for x in arr])
        else:
            cols.append([int(x) for x in arr])
    rows = [[cols[c][i] for c in range(8)] for i in range(n)]
    coord = obj.coord if obj.coord.ndim == 2 else obj.coord[0]
    q = np.asarray(coord, dtype=np.float64) * 4
    if n and not np.array_equal(q, np.round(q)):
        pts = [["nonint"] * 3 for _ in range(n)]
    else:
        pts = [[int(v) for v in p] for p in q]
    st = {"rows": rows, "hasId": has_id, "pts": pts}
    extra = sorted(set(cats) - set(_COLS))
    if extra:
        st["extra"] = extra
    return st


def _kind_of(arr):
    import numpy as np

    if not isinstance(arr, np.ndarray):
        return "not-ndarray:" + type(arr).__name__
    if arr.ndim != 1:
        return f"ndim{arr.ndim}"
    k = arr.dtype.kind
    return {"i": "int", "u": "int", "b": "bool", "U": "str", "S": "str", "f": "float"}.get(k, "dtype-" + k)


def _values(arr, kind):
    if kind == "int":
        return [int(x) for x in arr]
    if kind == "bool":
        return [bool(x) for x in arr]
    if kind == "str":
        return [list(str(x)) for x in arr]
    return []


def _observe(results):
    """results: one ndarray, or a list of them (pipelines)."""
    single = not isinstance(results, list)
    rs = [results] if single else results
    kinds = [_kind_of(r) for r in rs]
    outs = [_values(r, k) for r, k in zip(rs, kinds)]
    kind = kinds[0] if len(set(kinds)) == 1 else "mixed:" + ",".join(kinds)
    obs = {"oc": "ok", "out": outs[0] if single else outs, "kind": kind}
    if any(k not in ("int", "bool", "str") for k in kinds):
        obs["detail"] = "raw: " + repr([getattr(r, "tolist", lambda: r)() for r in rs])[:200]
    return obs


def _lim_kwargs(a, form):
    if not a:
        return (), {}
    x = a[0]
    mn, mx = x[0] / x[1], x[2] / x[3]
    return ((mn, mx), {}) if form % 2 == 0 else ((), {"min_len": mn, "max_len": mx})


def call_real(op, a, obj, objb=None, form=0):
    """One call (or pipeline) against biotite; any exception is the outcome "Rejected"."""
    import numpy as np

    struc = _st()
    if op not in ALL_OPS:
        raise DriverError(f"unknown op {op}")
    try:
        with warnings.catch_warnings():
            warnings.simplefilter("ignore")
            if op in ("check_atom_id_continuity", "check_res_id_continuity", "check_duplicate_atoms") \
                    or op in ATOM_FILTERS:
                res = getattr(struc, op)(obj)
            elif op in ARRAY_ONLY:
                args, kw = _lim_kwargs(a, form)
                res = getattr(struc, op)(obj, *args, **kw)
            elif op == "filter_polymer":
                if not a:
                    res = struc.filter_polymer(obj)
                elif form % 2 == 0:
                    res = struc.filter_polymer(obj, int(a[0]), _txt(a[1]))
                else:
                    res = struc.filter_polymer(obj, pol_type=_txt(a[1]), min_size=int(a[0]))
            elif op == "filter_intersection":
                res = struc.filter_intersection(obj, objb)
            elif op == "filter_first_altloc":
                res = struc.filter_first_altloc(obj, np.array([_txt(t) for t in a[0]], dtype="U1"))
            elif op == "filter_highest_occupancy_altloc":
                alts = np.array([_txt(t) for t in a[0]], dtype="U1")
                occ = np.array(a[1], dtype=float) / 4
                if form % 2 == 0:
                    res = struc.filter_highest_occupancy_altloc(obj, alts, occ)
                else:
                    res = struc.filter_highest_occupancy_altloc(obj, altloc_ids=alts, occupancies=occ.astype(np.float32))
            elif op == "create_continuous_res_ids":
                if not a:
                    res = struc.create_continuous_res_ids(obj)
                elif form % 2 == 0:
                    res = struc.create_continuous_res_ids(obj, restart_each_chain=bool(a[0]))
                else:
                    res = struc.create_continuous_res_ids(obj, bool(a[0]))
            elif op == "repair_res_ids":
                kw = {} if not a else {"restart_each_chain": bool(a[0])}
                ids1 = struc.create_continuous_res_ids(obj, **kw)
                obj.res_id = ids1
                chk = struc.check_res_id_continuity(obj)
                ids2 = struc.create_continuous_res_ids(obj, **kw)
                res = [ids1, chk, ids2]
            elif op in LIST_FORMS:
                arg = obj
                if form in (1, 2, 3):
                    src = obj.atom_name if op == "infer_elements" else obj.element
                    texts = [str(x) for x in src]
                    arg = texts if form == 1 else (np.array(texts, dtype=str) if form == 2 else tuple(texts))
                res = getattr(struc, op)(arg)
            elif op == "names_roundtrip":
                nm = struc.create_atom_names(obj)
                obj.atom_name = nm
                res = [nm, struc.infer_elements(obj)]
    except DriverError:
        raise
    except Exception as e:
        return {"oc": "Rejected", "out": [], "kind": "any", "detail": f"{type(e).__name__}: {e}"[:200]}
    return _observe(res)


def apply_write(obj, w, a):
    """The writes a session performs between calls (results of repair functions written back,
    in-place edits of single annotation values)."""
    struc = _st()
    with warnings.catch_warnings():
        warnings.simplefilter("ignore")
        if w == "apply_res_ids":
            obj.res_id = struc.create_continuous_res_ids(obj, restart_each_chain=bool(a[0]))
        elif w == "apply_elements":
            obj.element = struc.infer_elements(obj)
        elif w == "apply_atom_names":
            obj.atom_name = struc.create_atom_names(obj)
        elif w == "set":
            i, col, v = int(a[0]), int(a[1]) - 1, a[2]
            arr = obj.get_annotation(_COLS[col])
            arr[i] = _txt(v) if col in _TEXT_COLS else v
        else:
            raise DriverError(f"unknown write {w}")


def compare(exp, obs):
    bad = []
    if exp["oc"] != obs["oc"]:
        bad.append("oc")
    elif exp["oc"] == "ok":
        if exp["out"] != obs["out"]:
            bad.append("out")
        if exp["kind"] != "any" and exp["kind"] != obs["kind"]:
            bad.append("kind")
    return bad


def conts_for(op):
    if op in ARRAY_ONLY:
        return [("array", 0), ("array", 1)]
    if op in LIST_FORMS:
        return [("array", 0), ("stack", 0), ("array", 1), ("array", 2), ("stack", 3)]
    if op in PIPELINES:
        return [("array", 0), ("stack", 0)]
    return [("array", 0), ("stack", 1)]


def same_state(p, q, ignore_id_values=False):
    if p["hasId"] != q["hasId"] or p["pts"] != q["pts"] or len(p["rows"]) != len(q["rows"]):
        return False
    k = 8 if (p["hasId"] and not ignore_id_values) else 7
    return all(x[:k] == y[:k] for x, y in zip(p["rows"], q["rows"]))


def run_case(fam, op, a, inp, cont, form):
    """Build the object(s) of one case, run it, observe; also the state of the inputs afterwards."""
    rows, has_id = inp["rows"], inp["hasId"]
    pts = inp["pts"] if len(inp["pts"]) == len(rows) and rows else default_pts(len(rows))
    obj = build(rows, has_id, pts, cont)
    want = {"rows": rows, "hasId": has_id, "pts": pts}
    before = project(obj)
    if not same_state(want, before) or "extra" in before:
        raise DriverError(f"build/project are not inverse: {want} vs {before}")
    objb = None
    if op == "filter_intersection":
        objb = build(inp["rowsB"], inp["hasIdB"], default_pts(len(inp["rowsB"]), 3), "array")
        wantb = project(objb)
    obs = call_real(op, a, obj, objb, form)
    if op not in PIPELINES:
        after = project(obj)
        if not same_state(before, after) or after.get("extra"):
            obs["input_after"] = after
        if objb is not None and not same_state(wantb, project(objb)):
            obs["input_after_B"] = project(objb)
    return obs


# --------------------------------------------------------------------------- S2 child
def _nontrivial(out):
    flat = out
    if flat and isinstance(flat[0], list) and flat[0] and isinstance(flat[0][0], list):
        flat = [x for part in out for x in part]
    if not flat:
        return False
    return any(x != flat[0] for x in flat) or not isinstance(flat[0], bool)


def exec_cases(item):
    """One chunk of the TLC dump: parse the states, execute each "case" state."""
    from harness.tlabind.pool import progress
    from harness.tlabind.tlaval import parse_state, to_py

    with open(item["file"], "rb") as fh:
        fh.seek(item["beg"])
        text = fh.read(item["end"] - item["beg"]).decode()
    mism, ncases, ncalls, nontriv = [], 0, 0, 0
    ops, ocs, fams, conts = {}, {}, {}, {}
    best = None
    cur = []

    def flush():
        nonlocal ncases, ncalls, nontriv, best
        t = "".join(cur).strip()
        cur.clear()
        if not t:
            return
        st = parse_state(t)
        if st["kind"] != "case":
            return
        c, r = to_py(st["c"]), to_py(st["r"])
        fam, op, a, inp = c["fam"], c["op"], c["a"], c["inp"]
        ncases += 1
        ops[op] = ops.get(op, 0) + 1
        fams[fam] = fams.get(fam, 0) + 1
        ocs[op + ":" + r["oc"]] = ocs.get(op + ":" + r["oc"], 0) + 1
        if r["oc"] == "ok" and _nontrivial(r["out"]):
            nontriv += 1
        if op == "filter_polymer" and len(inp["rows"]) == 3 and r["oc"] == "ok":
            key = json.dumps([a, inp["rows"]])
            if best is None or key < best[0]:
                best = (key, {"s2_case": {"op": op, "a": a, "keys": [x[:4] for x in inp["rows"]], "expected": r}})
        for cont, form in conts_for(op):
            progress({"op": op, "a": a, "inp": inp, "cont": cont, "form": form})
            obs = run_case(fam, op, a, inp, cont, form)
            ncalls += 1
            conts[cont + str(form)] = conts.get(cont + str(form), 0) + 1
            bad = compare(r, obs)
            if "input_after" in obs or "input_after_B" in obs:
                bad.append("input")
            if bad:
                mism.append({"kind": "case", "fam": fam, "op": op, "a": a, "cont": cont, "form": form,
                             "bad": bad, "inp": inp, "expected": r, "observed": obs})

    for line in text.splitlines(keepends=True):
        if line.startswith("State ") and line.rstrip().endswith(":"):
            flush()
        else:
            cur.append(line)
    flush()
    return {"mismatch": mism, "n": ncases, "calls": ncalls, "ops": ops, "ocs": ocs, "fams": fams,
            "conts": conts, "nontrivial": nontriv, "best": best}


# --------------------------------------------------------------------------- S3 child
_RES_POOL = ["ALA", "GLY", "SER", "DA", "DG", "HOH", "SOL", "NA", "LIG", "U", "PYL", "ZZZ", "CA", "K", "DT", "RNG"]
_ATOM_POOL = ["N", "CA", "C", "O", "CB", "OXT", "P", "O5'", "C5'", "C4'", "C3'", "O3'", "OP1", "NA", "K",
              "FE", "FE2", "1H", "HD21", "ca", "Zn1", "", "QX", "X*", "H_1", "CL", "MG", "12", "BR1", "OG"]
_ELEM_POOL = ["C", "N", "O", "P", "S", "H", "NA", "K", "FE", "CL", "CA", "ZN", "MG", "", "c", "fe", "X", "D"]
_DISPS = [(0, 0, 0), (4, 0, 0), (2, 2, 4), (3, 4, 0), (6, 0, 0), (-6, 0, 0), (0, 7, 0), (1, 5, 5), (4, 6, 0),
          (0, 0, 8), (5, 0, 0), (0, -5, 0), (3, 3, 3), (-4, -4, 2), (6, 2, 3), (12, 0, 0), (1, 0, 0), (5, 5, 0)]
_LIMS = [(6, 5, 9, 5), (5, 4, 7, 4), (3, 2, 3, 2), (2, 1, 1, 1), (0, 1, 3, 1), (13, 10, 17, 10), (1, 1, 2, 1),
         (7, 4, 9, 4), (1, 3, 5, 3), (3, 4, 3, 2)]
_ALT_POOL = ["", ".", "?", " ", "A", "B", "C", "a", "b", "1", "*", "Z"]
_POL_POOL = ["peptide", "p", "pep", "nucleotide", "n", "nuc", "carbohydrate", "c", "carb", "x", "lipid", "",
             "P", "N", "protein", "na"]


def _dom_lim(pts, lim):
    """Dom_Lim of the specification (the generator stays inside; TLC re-checks it)."""
    a, b, c, d = lim
    for p, q in zip(pts[:-1], pts[1:]):
        d2 = sum((x - y) ** 2 for x, y in zip(p, q))
        if b not in (1, 2, 4, 8, 16) and 16 * a * a == d2 * b * b:
            return False
        if d not in (1, 2, 4, 8, 16) and 16 * c * c == d2 * d * d:
            return False
    return True


def _rand_rows(rng, n):
    rows, pts = [], []
    chain, res, ins, rname = rng.choice("ABC"), rng.choice([1, 1, 5, -3, 100]), "", rng.choice(_RES_POOL)
    aid = rng.choice([1, 1, 7, 0])
    pos = [rng.randrange(-3, 4) for _ in range(3)]
    for i in range(n):
        if i and rng.random() < 0.55:
            x = rng.random()
            if x < 0.55:
                res += rng.choice([1, 1, 1, 1, 2, 5])
            elif x < 0.7:
                res += rng.choice([-1, -4, 0])
            if rng.random() < 0.2:
                chain = rng.choice("ABC")
            if rng.random() < 0.15:
                ins = rng.choice(["", "A", "B"])
            if rng.random() < 0.8:
                rname = rng.choice(_RES_POOL)
        aname = rng.choice(_ATOM_POOL)
        elem = rng.choice(_ELEM_POOL)
        if rng.random() < 0.12:       # monoatomic ion: residue name = element
            elem = rname[:2]
        aid += rng.choice([1, 1, 1, 1, 0, 2, -1, 10])
        rows.append([list(chain), res, list(ins), list(rname), list(aname), list(elem), rng.random() < 0.3, aid])
        if i:
            d = rng.choice(_DISPS)
            pos = [p + q for p, q in zip(pos, d)]
        pts.append(list(pos))
    # a few exact duplicates of earlier atoms
    for i in range(1, n):
        if rng.random() < 0.12:
            rows[i] = [list(x) if isinstance(x, list) else x for x in rows[rng.randrange(i)]]
    return rows, pts


def _rand_value(rng, col):
    if col == 1:
        return list(rng.choice("ABC"))
    if col == 2:
        return rng.choice([1, 2, 3, 5, -3, 100, 7])
    if col == 3:
        return list(rng.choice(["", "A", "B"]))
    if col == 4:
        return list(rng.choice(_RES_POOL))
    if col == 5:
        return list(rng.choice(_ATOM_POOL))
    if col == 6:
        return list(rng.choice(_ELEM_POOL))
    if col == 7:
        return rng.random() < 0.5
    return rng.choice([1, 2, 3, 4, 9, 0])


def gen_session(item):
    """Random session against live objects; the log is validated by TLC afterwards."""
    from harness.tlabind.pool import progress

    rng = random.Random(item["seed"])
    cont = rng.choice(["array", "array", "stack"])
    n = rng.choice([0, 1, 2, 3, 4, 5, 6, 8, 10, item["maxlen"]])
    rows, pts = _rand_rows(rng, n)
    has_id = rng.random() < 0.7
    obj = build(rows, has_id, pts, cont)
    events = []
    ops = list(QUERY_OPS)
    tries = 0
    while len(events) < item["length"] and tries < 10 * item["length"]:
        tries += 1
        pre = project(obj)
        n = len(pre["rows"])
        rows_b, has_b, objb = [], False, None
        if rng.random() < 0.3 and n > 0:
            op = rng.choice(WRITES)
            if op == "apply_res_ids":
                a = [rng.random() < 0.5]
            elif op == "set":
                col = rng.choice([1, 2, 2, 3, 4, 5, 6, 7] + ([8, 8] if pre["hasId"] else []))
                a = [rng.randrange(n), col, _rand_value(rng, col)]
            else:
                a = []
            progress({"write": op, "a": a, "pre": pre, "cont": cont})
            try:
                apply_write(obj, op, a)
                oc, detail = "ok", None
            except DriverError:
                raise
            except Exception as e:
                oc, detail = "Rejected", f"{type(e).__name__}: {e}"[:200]
            ev = {"op": op, "a": a, "cont": cont, "pre": pre, "rowsB": [], "hasIdB": False, "oc": oc,
                  "out": [], "kind": "any", "post": project(obj)}
            if detail:
                ev["detail"] = detail
            events.append(ev)
            continue
        op = rng.choice(ops)
        form = rng.randrange(4)
        a = []
        if op in ARRAY_ONLY:
            if cont != "array":
                continue
            if rng.random() < 0.6:
                lim = rng.choice(_LIMS)
                if not _dom_lim(pre["pts"], lim):
                    continue
                a = [list(lim)]
            elif not _dom_lim(pre["pts"], (6, 5, 9, 5)):
                continue
        elif op == "filter_polymer":
            if n == 0:
                continue
            if rng.random() < 0.75:
                a = [rng.choice([-1, 0, 1, 1, 2, 2, 3, 4]), list(rng.choice(_POL_POOL))]
        elif op == "create_continuous_res_ids":
            if rng.random() < 0.7:
                a = [rng.random() < 0.5]
        elif op in ("filter_first_altloc", "filter_highest_occupancy_altloc"):
            pool_ids = rng.choice([["", "A", "B"], ["", ".", "A", "B", "C", "a"], _ALT_POOL])
            a = [[list(rng.choice(pool_ids)) for _ in range(n)]]
            if op == "filter_highest_occupancy_altloc":
                a.append([rng.choice([0, 1, 2, 2, 3, 4]) for _ in range(n)])
        elif op == "filter_intersection":
            has_b = rng.random() < 0.6
            for _ in range(rng.randrange(0, 5)):
                if n and rng.random() < 0.75:
                    rb = [list(x) if isinstance(x, list) else x for x in rng.choice(pre["rows"])]
                    if rng.random() < 0.3:
                        col = rng.randrange(1, 9)
                        rb[col - 1] = _rand_value(rng, col)
                else:
                    rb = _rand_rows(rng, 1)[0][0]
                if not has_b:
                    rb[7] = 0
                rows_b.append(rb)
            objb = build(rows_b, has_b, default_pts(len(rows_b), 2), "array")
        if op not in LIST_FORMS:
            form = form % 2
        progress({"op": op, "a": a, "pre": pre, "cont": cont, "form": form, "rowsB": rows_b})
        obs = call_real(op, a, obj, objb, form)
        ev = {"op": op, "a": a, "cont": cont, "form": form, "pre": pre, "rowsB": rows_b, "hasIdB": has_b,
              "oc": obs["oc"], "out": obs["out"], "kind": obs["kind"], "post": project(obj)}
        if "detail" in obs:
            ev["detail"] = obs["detail"]
        events.append(ev)
    return {"events": events}


def record_repo_tests(_item):
    """Calls recorded while running the repository's own tests of the area (test_integrity.py,
    test_repair.py) with the public functions wrapped; validated by TLC like the sessions."""
    import importlib
    import sys

    import numpy as np

    struc = _st()
    events = []
    names = ["check_atom_id_continuity", "check_res_id_continuity", "check_duplicate_atoms",
             "create_continuous_res_ids", "infer_elements", "create_atom_names"]

    def wrap(name, orig):
        def f(*args, **kw):
            arg = args[0] if args else None
            pre = None
            if isinstance(arg, (struc.AtomArray, struc.AtomArrayStack)) and arg.array_length() <= 700:
                try:
                    pre = project(arg)
                except Exception:
                    pre = None
            elif name in LIST_FORMS and arg is not None and len(args) == 1 and not kw:
                texts = [list(str(x)) for x in arg]
                col = 4 if name == "infer_elements" else 5
                rows = []
                for t in texts:
                    r = [["A"], 1, [], ["A", "L", "A"], ["C", "A"], ["C"], False, 0]
                    r[col] = t
                    rows.append(r)
                pre = {"rows": rows, "hasId": False, "pts": default_pts(len(rows))}
            try:
                res = orig(*args, **kw)
            except Exception:
                if pre is not None:
                    events.append({"op": name, "a": [], "pre": pre, "oc": "Rejected", "out": [], "kind": "any",
                                   "post": pre, "skip": True})
                raise
            if pre is not None and not pre.get("extra"):
                a = []
                if name == "create_continuous_res_ids":
                    if len(args) > 1:
                        a = [bool(args[1])]
                    elif "restart_each_chain" in kw:
                        a = [bool(kw["restart_each_chain"])]
                obs = _observe(res)
                post = project(arg) if isinstance(arg, (struc.AtomArray, struc.AtomArrayStack)) else pre
                events.append({"op": name, "a": a, "cont": "test", "pre": pre, "rowsB": [], "hasIdB": False,
                               "oc": "ok", "out": obs["out"], "kind": obs["kind"], "post": post})
            return res
        return f

    saved = {}
    for nm in names:
        saved[nm] = getattr(struc, nm)
        setattr(struc, nm, wrap(nm, saved[nm]))
    devnull = os.open(os.devnull, os.O_WRONLY)
    keep1, keep2 = os.dup(1), os.dup(2)
    try:
        import pytest

        sys.path.insert(0, "/repo")
        sys.stdout.flush()
        sys.stderr.flush()
        os.dup2(devnull, 1)
        os.dup2(devnull, 2)
        rc = pytest.main(["-q", "-x", "-p", "no:cacheprovider", "--no-header", "-k",
                          "atom_id_continuity or res_id_continuity or duplicate_atoms or create_continuous or infer_elements",
                          "/repo/tests/structure/test_integrity.py", "/repo/tests/structure/test_repair.py"])
    finally:
        sys.stdout.flush()
        sys.stderr.flush()
        os.dup2(keep1, 1)
        os.dup2(keep2, 2)
        for fd in (devnull, keep1, keep2):
            os.close(fd)
        for nm in names:
            setattr(struc, nm, saved[nm])
    # coordinates of real structures are not multiples of 1/4 A: the recorded functions do not
    # read them, the log carries placeholder coordinates
    for e in events:
        for st in (e["pre"], e["post"]):
            st["pts"] = default_pts(len(st["rows"]))
    return {"events": [e for e in events if not e.get("skip")], "rc": int(rc)}


# --------------------------------------------------------------------------- classification
def classify(mm):
    if mm.get("kind") not in ("case", "event"):
        return None
    op, bad, exp, obs, inp = mm.get("op"), mm.get("bad"), mm.get("expected"), mm.get("observed"), mm.get("inp")
    if None in (op, bad, exp, obs, inp):
        return None
    if (op == "check_duplicate_atoms" and bad == ["kind"] and exp["oc"] == "ok" and exp["out"] == []
            and obs["oc"] == "ok" and obs["kind"] == "float" and obs["out"] == []):
        return "X05-duplicates-empty-float"
    if (op == "filter_linear_bond_continuity" and bad == ["out"] and len(inp["rows"]) == 0
            and exp["out"] == [] and obs["out"] == [True] and obs["kind"] == "bool"):
        return "X05-linear-filter-empty"
    if (op == "filter_polymer" and mm.get("cont") == "stack" and bad == ["oc"] and exp["oc"] == "ok"
            and obs["oc"] == "Rejected" and str(obs.get("detail", "")).startswith("AttributeError")):
        return "X05-polymer-stack"
    return None


# --------------------------------------------------------------------------- orchestration
def _split_dump(path, per_item):
    offs, pos = [], 0
    with open(path, "rb") as fh:
        for line in fh:
            if line.startswith(b"State ") and line.rstrip().endswith(b":"):
                offs.append(pos)
            pos += len(line)
    offs.append(pos)
    items = []
    for k in range(0, len(offs) - 1, per_item):
        items.append({"file": path, "beg": offs[k], "end": offs[min(k + per_item, len(offs) - 1)]})
    return items, len(offs) - 1


_KEEP = ("op", "a", "pre", "rowsB", "hasIdB", "oc", "out", "kind", "post")
_FLAGS = ("oc", "out", "kind", "input")


def validate_traces(ctx, traces, label):
    from harness.tlabind import helpers

    mms = helpers.tlc_validate(ctx, traces, keep=_KEEP, timeout=1500)
    dom = [v for v in mms if v[3] == ["DOMAIN"]]
    if dom:
        bad = [[traces[v[1] - 1][v[2] - 1]["op"], traces[v[1] - 1][v[2] - 1]["a"]] for v in dom[:3]]
        raise RuntimeError(f"{label}: recorded calls outside the specification's domain: {bad}")
    for v in mms:
        _tag, tid, l, flags, eoc, eout, ekind = v
        e = traces[tid - 1][l - 1]
        obs = {"oc": e["oc"], "out": e["out"], "kind": e["kind"]}
        if "detail" in e:
            obs["detail"] = e["detail"]
        if e["op"] in WRITES:
            obs["post_rows"] = e["post"]["rows"]
        ctx.mismatch({"stage": "S3", "kind": "event", "op": e["op"], "a": e["a"], "cont": e.get("cont"),
                      "form": e.get("form", 0), "bad": [n for n, ok in zip(_FLAGS, flags) if not ok],
                      "inp": {"rows": e["pre"]["rows"], "hasId": e["pre"]["hasId"], "pts": e["pre"]["pts"],
                              "rowsB": e["rowsB"], "hasIdB": e["hasIdB"]},
                      "expected": {"oc": eoc, "out": eout, "kind": ekind}, "observed": obs,
                      "source": label, "trace": tid, "event": l,
                      "history": [[x["op"], x["a"]] for x in traces[tid - 1][:l]]})
    return len(mms)


def run(ctx):
    from harness.tlabind import helpers, pool, tlc
    from harness.tlabind.core import Vacuity

    quick = ctx.quick
    ctx.assumptions += [
        "Dom_Text / Dom_Names: texts are ASCII letters, digits, prime, star, blank, underscore (str.isdigit / "
        "str.upper are modelled for these only)",
        "Dom_Elements: create_atom_names on elements whose generated names fit the 6-character result dtype",
        "Dom_Lim: coordinates are multiples of 1/4 A; a bond-length bound that is not a dyadic rational is never "
        "hit exactly by a distance (float32/float64 comparison is then exact or irrelevant)",
        "Dom_Polymer: filter_polymer on arrays with at least one atom (the empty array raises IndexError; "
        "the documentation is silent)",
        "Dom_Altloc / Dom_Occ: altloc ids are ndarrays of at most one character, occupancies non-negative multiples "
        "of 1/4 (sums are exact)",
        "linear / backbone continuity functions on AtomArray only (as documented); every other function on "
        "AtomArray and AtomArrayStack",
        "the Chemical Component Dictionary is the synthetic one of /verif/fixtures/ccd (CCDType in the "
        "specification); it has no carbohydrate",
        "canonical residue lists, the solvent list and the element-guessing rule are the code's (the "
        "documentation names no lists); warnings of infer_elements are not observed",
        "the dtype of an empty infer_elements result is not asserted",
        "with restart_each_chain the repair is idempotent only if every chain start has a chain id change "
        "(Dom_ChainsById); the counterexample is pinned as an ASSUME",
        "trusted: TLC, the TLA+ value parser, build/project (checked to be inverse on every case)",
    ]
    ctx.cov["rule"] = ("non-trivial S2 case = the expected result is non-empty and not a constant mask; "
                       "non-trivial S3 trace = at least one write-back / in-place edit followed by an accepted call")
    # ---- S1 + S2 ---------------------------------------------------------------------------
    d = tlc.scratch_dir("x05")
    prefix = os.path.join(d, "cases")
    cfg = "MC.cfg" if quick else "MC_thorough.cfg"
    ctx.tlc("Integrity", cfg, stage="S1", dump=prefix, timeout=2400)
    dump = prefix + ".dump" if os.path.exists(prefix + ".dump") else prefix
    items, nstates = _split_dump(dump, 250)
    ctx.log(f"S2: {nstates} dumped states in {len(items)} items")
    res = helpers.run_pool(ctx, "harness.drivers.x05:exec_cases", items, stage="S2", item_timeout=300)
    ops, ocs, fams, conts, ncases, ncalls, nontriv, best = {}, {}, {}, {}, 0, 0, 0, None
    for r in res:
        if not r or "crash" in r:
            continue
        ncases += r["n"]
        ncalls += r["calls"]
        nontriv += r["nontrivial"]
        for dst, src in ((ops, r["ops"]), (ocs, r["ocs"]), (fams, r["fams"]), (conts, r["conts"])):
            for k, v in src.items():
                dst[k] = dst.get(k, 0) + v
        if r.get("best") and (best is None or r["best"][0] < best[0]):
            best = r["best"]
    ctx.cov.update({"s2_cases": ncases, "s2_real_calls": ncalls, "s2_cases_per_op": dict(sorted(ops.items())),
                    "s2_cases_per_family": dict(sorted(fams.items())),
                    "s2_cases_per_outcome": dict(sorted(ocs.items())),
                    "s2_calls_per_container_form": dict(sorted(conts.items()))})
    if set(ALL_OPS) - set(ops):
        raise Vacuity(f"calls never enumerated: {sorted(set(ALL_OPS) - set(ops))}")
    for k in ("check_atom_id_continuity:Rejected", "check_atom_id_continuity:ok", "filter_polymer:Rejected",
              "filter_polymer:ok"):
        if not ocs.get(k):
            raise Vacuity(f"outcome never reached: {k}")
    if len(fams) != 11:
        raise Vacuity(f"input families missing: {sorted(fams)}")
    if not all(conts.get(k) for k in ("array0", "array1", "array2", "stack0", "stack1", "stack3")):
        raise Vacuity(f"container / argument forms not all executed: {conts}")
    ctx.exhaustive = True
    ctx.traces_validated += ncases
    ctx.evaluations += ncalls
    ctx.nontrivial += nontriv
    if best:
        ctx.sample(best[1])
    # ---- S3 ------------------------------------------------------------------------------
    ntr = 120 if quick else 1500
    length = 12 if quick else 14
    titems = [{"seed": ctx.rng.randrange(1 << 30), "length": length, "maxlen": 12 if k % 3 else 14}
              for k in range(ntr)]
    tres = pool.run_isolated("harness.drivers.x05:gen_session", titems, item_timeout=120)
    traces = []
    for it, r in zip(titems, tres):
        if "driver_error" in r:
            raise RuntimeError(f"S3 driver error: {r['driver_error']}\n{r.get('tb', '')}")
        if "crash" in r:
            ctx.mismatch({"stage": "S3", "kind": "crash", "signal": r["crash"],
                          "progress": r.get("progress"), "item": it})
            continue
        if r["events"]:
            traces.append(r["events"])
    if not traces:
        raise RuntimeError("S3 produced no traces")
    nev = sum(len(t) for t in traces)
    ctx.log(f"S3: {len(traces)} sessions, {nev} events recorded")
    validate_traces(ctx, traces, "sessions")
    per = {}
    for t in traces:
        for e in t:
            per[e["op"]] = per.get(e["op"], 0) + 1
    need = set(QUERY_OPS) | set(WRITES)
    if need - set(per):
        raise Vacuity(f"S3 never exercised: {sorted(need - set(per))}")
    if not any(e["cont"] == "stack" for t in traces for e in t):
        raise Vacuity("S3 never used a stack")
    ctx.traces_validated += len(traces)
    ctx.evaluations += nev
    ctx.cov.update({"s3_traces": len(traces), "s3_events": nev, "s3_events_per_op": dict(sorted(per.items())),
                    "s3_max_atoms": max(len(e["pre"]["rows"]) for t in traces for e in t)})

    def nontrivial_trace(t):
        seen_write = False
        for e in t:
            if e["op"] in WRITES and e["oc"] == "ok":
                seen_write = True
            elif seen_write and e["oc"] == "ok":
                return True
        return False

    ctx.nontrivial += sum(1 for t in traces if nontrivial_trace(t))
    ctx.sample({"s3_events": [{k: e[k] for k in ("op", "a", "oc", "out", "kind")} for e in traces[0][:4]]})

    def corrupt(tr):
        for e in tr:
            if e["op"] in WRITES and e["oc"] == "ok" and e["post"]["rows"]:
                e["post"]["rows"][0][1] += 1
                return True
        for e in tr:
            if e["oc"] == "ok" and e["kind"] == "bool" and e["out"]:
                e["out"][-1] = not e["out"][-1]
                return True
        for e in tr:
            if e["oc"] == "ok" and e["kind"] == "int" and e["op"] not in WRITES:
                e["out"] = e["out"] + [len(e["pre"]["rows"])]
                return True
        return False

    helpers.binding_selftest(ctx, [[{k: e[k] for k in _KEEP} for e in t] for t in traces if len(t) >= 2],
                             corrupt, max_traces=6)
    # ---- S3b: calls recorded while running the repository's own tests of the area ----------
    try:
        rr = pool.run_isolated("harness.drivers.x05:record_repo_tests", [{}], item_timeout=600)[0]
    except Exception as e:  # noqa: BLE001 - the recorder is an extra source of traces
        rr = {"driver_error": repr(e)}
    if "events" in rr and rr["events"]:
        evs = rr["events"]
        validate_traces(ctx, [[e] for e in evs], "repository tests")
        ctx.traces_validated += len(evs)
        ctx.evaluations += len(evs)
        rper = {}
        for e in evs:
            rper[e["op"]] = rper.get(e["op"], 0) + 1
        ctx.cov.update({"s3_repo_test_calls": len(evs), "s3_repo_test_calls_per_op": dict(sorted(rper.items())),
                        "s3_repo_test_pytest_rc": rr.get("rc")})
        ctx.log(f"S3b: {len(evs)} calls recorded from the repository's tests (pytest rc {rr.get('rc')})")
    else:
        ctx.note(f"repository tests of the area could not be recorded: {str(rr)[:300]}")
    # outside the statement: integrity.check_in_box (not exported) cannot be called at all
    try:
        r = pool.run_isolated("harness.drivers.x05:probe_check_in_box", [{}], item_timeout=60)[0]
        if r.get("raised"):
            ctx.note("diagnostic (not part of the check): integrity.check_in_box, which is not exported, "
                     f"raises {r['raised']} for every array with a box")
    except Exception as e:  # noqa: BLE001 - diagnostics never decide anything
        ctx.note(f"check_in_box probe failed: {e!r}")


def probe_check_in_box(_item):
    import numpy as np

    from biotite.structure import integrity

    a = build([[["A"], 1, [], ["A", "L", "A"], ["C", "A"], ["C"], False, 0]], False, [[4, 4, 4]], "array")
    a.box = np.eye(3) * 10
    try:
        integrity.check_in_box(a)
        return {"raised": None}
    except Exception as e:
        return {"raised": f"{type(e).__name__}: {e}"[:160]}


def replay(record):
    """Re-execute one stored mismatch (a single call from its abstract input)."""
    if record.get("kind") not in ("case", "event") or record.get("op") in WRITES:
        return {"error": "record kind not replayable", "record": record}
    warmup()
    inp = dict(record["inp"])
    inp.setdefault("rowsB", [])
    inp.setdefault("hasIdB", False)
    cont = record.get("cont") if record.get("cont") in ("array", "stack") else "array"
    obs = run_case(record.get("fam", ""), record["op"], record["a"], inp, cont, record.get("form", 0))
    bad = compare(record["expected"], obs)
    if "input_after" in obs or "input_after_B" in obs:
        bad.append("input")
    return {"call": [record["op"], record["a"], cont], "expected": record["expected"], "observed": obs,
            "bad": bad, "mismatch": bool(bad)}


MANIFEST = {
    "technique": "TLA+ model of the integrity checks, repair functions and annotation filters of biotite.structure "
                 "(specs/X05: per-atom definitions next to numpy-shaped ones) model-checked by TLC; every enumerated "
                 "call executed against the real functions on arrays, stacks and list arguments; recorded sessions on "
                 "live arrays and calls recorded from the repository's own tests re-computed by TLC",
    "level_text": "TLC enumerates every call of 24 functions / pipelines on eleven input families (id sequences <= 4 over "
                  "5 values, arrays <= 3 over nine one-column variants of an atom, residue keys <= 4, atom names <= 3 "
                  "characters over 10 characters, element lists <= 4, 18 atom kinds, polymer fragments <= 3 atoms with 10 "
                  "argument tuples, intersections 3 x 2, walks of <= 4 atoms over 10 lattice displacements with 4 bond "
                  "length limits, backbone walks <= 3, altloc id vectors <= 3 over 5 ids with 3 occupancy vectors) and proves on them that the numpy-shaped definitions equal the "
                  "per-atom ones and that the repair laws hold (repaired ids pass the check and are idempotent, "
                  "dropping duplicates leaves none, generated names are unique and give the element back). Every "
                  "(call, result) pair is executed against biotite on an AtomArray and an AtomArrayStack, inputs are "
                  "compared before and after; sessions on live arrays with write-backs and in-place edits are "
                  "validated event by event.",
    "level_note": "Bounded: exhaustive only for the small alphabets above; larger arrays (<= 14 atoms) through recorded "
                  "sessions. The synthetic CCD stands for the real one; coordinates are multiples of 1/4 A; warnings, "
                  "check_in_box (not exported, broken) are not decided.",
}
