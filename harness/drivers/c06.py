"""C06 — the CIF text layer returns every string table unchanged; CIF / BinaryCIF containers
behave as mutable mappings before and after lazy parsing.

Specifications (specs/C06):
  CifText.tla      writer + reader of cif.py, operator by operator (Impl*), the property
                   (Ideal*), the recorded-defect classes (KB_*), the CIF 1.1 grammar (Ref*)
  Containers.tla   three-level lazy container (Impl) against plain dictionaries (Ideal)
  MCText / MCContainers / MCKeys   exhaustive configurations;  Trace.tla  trace validation

S1  TLC: (a) on every enumerated file the code-shaped model loses the table exactly in the KB
    classes, a correct CIF codec exists, biotite's text is CIF 1.1 exactly outside the NB
    classes; (b) all reachable states of the container machine: Impl refines Ideal, refusals
    are no-ops, stale row counts characterised; (c) key echo.
S2  every enumerated file is written and read with the real CIFFile and compared with the
    file itself (property) and, where it differs, with the model's prediction (finding shape);
    every transition of the container state graph is replayed on real text and binary
    containers; every (flavour, level, key) of MCKeys is executed.
S3  random larger files / longer mapping histories are recorded and re-computed by TLC.
"""

from __future__ import annotations

import copy
import io
import json
import os
import random

PROPERTY = "C06"

# --------------------------------------------------------------------------- tokens <-> text
NAMED = {"sp": " ", "tab": "\t", "nl": "\n", "sq": "'", "dq": '"', "us": "_", "hash": "#",
         "semi": ";", "dollar": "$", "lbr": "[", "rbr": "]", "dot": ".", "qm": "?", "bs": "\\",
         "u1": "é", "u2": "Ω", "u3": "中",
         "data_": "data_", "loop_": "loop_", "save_": "save_", "global_": "global_", "stop_": "stop_"}
CHAR2TOK = {v: k for k, v in NAMED.items() if len(v) == 1}
RESERVED = ("data_", "loop_", "save_", "global_", "stop_")
NONE_NAME = ["<None>"]


def untok(toks):
    return "".join(NAMED.get(t, t) for t in toks)


def tok(s):
    out = []
    i = 0
    n = len(s)
    while i < n:
        for w in RESERVED:
            if s.startswith(w, i):
                out.append(w)
                i += len(w)
                break
        else:
            out.append(CHAR2TOK.get(s[i], s[i]))
            i += 1
    return out


# --------------------------------------------------------------------------- text: real side
def build_cif(F):
    import numpy as np
    from biotite.structure.io.pdbx import CIFBlock, CIFCategory, CIFColumn, CIFData, CIFFile

    blocks = {}
    for b in F:
        cats = {}
        for c in b["cats"]:
            cols = {}
            for col in c["cols"]:
                data = [untok(x["v"]) if x["m"] == 0 else "junk" for x in col["cells"]]
                mask = [x["m"] for x in col["cells"]]
                if any(mask):
                    cols[untok(col["name"])] = CIFColumn(
                        CIFData(np.array(data, dtype=str)), CIFData(np.array(mask, dtype=np.uint8)))
                else:
                    cols[untok(col["name"])] = CIFColumn(CIFData(np.array(data, dtype=str)))
            cats[untok(c["name"])] = CIFCategory(cols)
        blocks[untok(b["name"])] = CIFBlock(cats)
    return CIFFile(blocks)


def project_cif(g):
    out = []
    for bn in g:
        blk = g[bn]
        cats = []
        for cn in blk:
            cat = blk[cn]
            cols = []
            for k in cat:
                col = cat[k]
                arr = col.as_array().tolist()
                m = [0] * len(arr) if col.mask is None else [int(x) for x in col.mask.array.tolist()]
                cols.append({"name": tok(k),
                             "cells": [{"m": mm, "v": tok(a) if mm == 0 else []} for a, mm in zip(arr, m)]})
            cats.append({"name": NONE_NAME if cn is None else tok(cn), "cols": cols})
        out.append({"name": tok(bn), "cats": cats})
    return out


def roundtrip_cif(F):
    """CIFFile.deserialize(CIFFile(F).serialize()), projected.  -> (obs, text)"""
    from biotite.structure.io.pdbx import CIFFile

    text = build_cif(F).serialize()
    try:
        return {"oc": "ok", "f": project_cif(CIFFile.deserialize(text))}, text
    except Exception:  # noqa: BLE001  any exception of the reader is the outcome "err"
        return {"oc": "err", "f": []}, text


def _canon_file(f):
    """canonical form for comparisons (key order of the records is irrelevant)"""
    return json.dumps(f, sort_keys=True)


KB2FINDING = {"UnderscoreQuote": "C06-escape-underscore-quote",
              "HashAtLineStart": "C06-escape-line-start",
              "SemiAtLineStart": "C06-escape-line-start",
              "ReservedAtLineStart": "C06-escape-line-start",
              "TextFieldLine": "C06-text-field-lines",
              "BcifBlockDel": "C06-bcif-block-delitem",
              "StaleRowCount": "C06-stale-row-count",
              "BcifLstripKey": "C06-bcif-lstrip-key"}
KB_PRIORITY = ["ReservedAtLineStart", "SemiAtLineStart", "HashAtLineStart", "UnderscoreQuote",
               "TextFieldLine", "BcifBlockDel", "StaleRowCount", "BcifLstripKey"]


def exec_text(item):
    """S2 child: a group of enumerated files."""
    from harness.tlabind.pool import progress

    mism = []
    n = 0
    textdiff = 0
    kbmiss = 0
    for case in item["cases"]:
        F, kb, impl = case["F"], case["kb"], case["impl"]
        progress({"F": F})
        obs, text = roundtrip_cif(F)
        n += 1
        if "txt" in case and tok(text) != case["txt"]:
            textdiff += 1
        if _canon_file(obs) == _canon_file({"oc": "ok", "f": F}):
            if kb:
                kbmiss += 1
            continue
        mism.append({"kind": "text", "kb": kb, "known_shape": bool(kb) and _canon_file(obs) == _canon_file(impl),
                     "F": F, "expected": {"oc": "ok", "f": F}, "observed": obs,
                     "model_prediction": impl, "text": text})
    return {"mismatch": mism, "n": n, "textdiff": textdiff, "kbmiss": kbmiss}


# --------------------------------------------------------------------------- containers: real side
COLS = {"x": ["x"], "y": ["y"], "zz": ["p", "q"]}
CATLIT = {"C1": [["k1", "x"]], "C2": [["k2", "y"], ["k1", "x"]], "C3": [["k1", "zz"]],
          "C4": [["k3", "y"], ["k1", "zz"]]}
BLOCKLIT = {"B0": [], "B1": [["c1", "C1"]], "B2": [["c2", "C3"], ["c1", "C2"]],
            "B3": [["c3", "C1"], ["c2", "C1"], ["c1", "C3"]]}
FILELIT = {"F0": [], "F1": [["b1", "B1"]], "F2": [["b2", "B0"], ["b1", "B1"]],
           "F3": [["b1", "B2"], ["b3", "B1"]]}


def _cls(fl):
    import biotite.structure.io.pdbx as px

    if fl == "text":
        return px.CIFFile, px.CIFBlock, px.CIFCategory
    return px.BinaryCIFFile, px.BinaryCIFBlock, px.BinaryCIFCategory


def mk_col(fl, cid):
    """A fresh column object.  Binary columns get fully specified encodings, because equality of
    BinaryCIFData deliberately includes the encoding and serialize() fills unset parameters."""
    import numpy as np
    import biotite.structure.io.pdbx as px

    vals = COLS[cid]
    if fl == "text":
        return px.CIFColumn(px.CIFData(np.array(vals, dtype=str)))
    enc = px.StringArrayEncoding(strings=np.array(vals, dtype=str),
                                 data_encoding=[px.ByteArrayEncoding(px.TypeCode.INT32)],
                                 offset_encoding=[px.ByteArrayEncoding(px.TypeCode.INT32)])
    return px.BinaryCIFColumn(px.BinaryCIFData(np.array(vals, dtype=str), [enc]))


def mk_cat(fl, lit):
    return _cls(fl)[2]({k: mk_col(fl, v) for k, v in CATLIT[lit]})


def mk_block(fl, lit):
    return _cls(fl)[1]({k: mk_cat(fl, v) for k, v in BLOCKLIT[lit]})


def mk_file(fl, lit):
    return _cls(fl)[0]({k: mk_block(fl, v) for k, v in FILELIT[lit]})


def col_id(col):
    vals = col.as_array().tolist()
    for k, v in COLS.items():
        if v == vals:
            return k
    return "?" + repr(vals)


def proj_cat(cat):
    return [{"k": k, "v": col_id(cat[k])} for k in cat]


def proj_block(blk):
    return [{"k": k, "v": proj_cat(blk[k])} for k in blk]


def proj_file(f):
    return [{"k": k, "v": proj_block(f[k])} for k in f]


def project_map(f):
    """Content of the container, read from a deep copy so that the lazy state of the object under
    test is not disturbed by the observation."""
    try:
        return proj_file(copy.deepcopy(f))
    except Exception as e:  # noqa: BLE001
        return [{"k": "<projection failed: %s>" % type(e).__name__, "v": []}]


def lazy_shape(fl, f):
    """Diagnostic only: the internal parsed/serialised flags in the shape of the model's state."""
    out = []
    felems = f._blocks if fl == "text" else f._elements
    for bk, b in felems.items():
        if isinstance(b, (str, dict)):
            out.append([bk, True])
            continue
        cats = []
        belems = b._categories if fl == "text" else b._elements
        for ck, c in belems.items():
            ck = ck if fl == "text" else ck[1:]
            if isinstance(c, (str, dict)):
                cats.append([ck, True])
                continue
            celems = c._columns if fl == "text" else c._elements
            cats.append([ck, False, [] if c._row_count is None else [int(c._row_count)],
                         [[k, isinstance(v, dict)] for k, v in celems.items()]])
        out.append([bk, False, cats])
    return out


def model_lazy_shape(f):
    out = []
    for b in f:
        if b["lz"]:
            out.append([b["k"], True])
            continue
        cats = []
        for c in b["v"]:
            if c["lz"]:
                cats.append([c["k"], True])
            else:
                cats.append([c["k"], False, list(c["v"]["rc"]), [[e["k"], e["lz"]] for e in c["v"]["cols"]]])
        out.append([b["k"], False, cats])
    return out


def reload_file(fl, f):
    F, _B, _C = _cls(fl)
    if fl == "text":
        return F.deserialize(f.serialize())
    buf = io.BytesIO()
    f.write(buf)
    buf.seek(0)
    return F.read(buf)


EQ_SELF = ("self", "rev", "revkeys")


def eq_other(fl, cont, arg, mk_lit):
    """The other operand of an equality call: a literal, or a mapping derived from an independent
    copy of the container itself (Containers.tla: Derived) - "rev": the same key -> value pairs
    inserted in the opposite order, "revkeys": the keys in the opposite order over the values in
    their old positions."""
    if arg not in EQ_SELF:
        return mk_lit(fl, arg)
    cp = copy.deepcopy(cont)
    if arg == "self":
        return cp
    keys = list(cp)
    vals = [cp[k] for k in keys]
    if arg == "rev":
        return type(cont)(dict(zip(reversed(keys), reversed(vals))))
    return type(cont)(dict(zip(reversed(keys), vals)))


def observe_ser(fl, f):
    """Observation after every call (MCContainers: variable `ser`, Trace: field `ser`): an
    independent copy of the container is written and read back.  Caches inside the real objects
    that the history left behind (row counts, parsed / serialised elements) are copied with it, so
    they show here even if the next call of the path does not happen to serialise."""
    try:
        g = reload_file(fl, copy.deepcopy(f))
    except Exception:  # noqa: BLE001  the property does not name the class of the refusal
        return {"oc": "Rejected", "abs": []}
    try:
        return {"oc": "ok", "abs": proj_file(g)}
    except Exception as e:  # noqa: BLE001
        return {"oc": "ok", "abs": [{"k": "<projection failed: %s>" % type(e).__name__, "v": []}]}


def ser_agrees(obs, ser_ok, ab):
    """obs against the specification's value: serialisable (TLC: IdealSerializable) -> written, read
    back with the content `ab`; not serialisable -> refused."""
    return obs == {"oc": "ok", "abs": ab} if ser_ok else obs["oc"] == "Rejected"


def apply_map(fl, holder, pb, pc, op, a):
    """One mapping call on holder['f'].  Returns (oc, out)."""
    f = holder["f"]
    out = []
    try:
        if op == "FSet":
            f[a[0]] = mk_block(fl, a[1])
        elif op == "FSetWrong":
            f[a[0]] = mk_cat(fl, "C1")
        elif op == "FGet":
            out = proj_block(copy.deepcopy(f[a[0]]))
        elif op == "FDel":
            del f[a[0]]
        elif op == "FIter":
            out = list(iter(f))
        elif op == "FLen":
            out = len(f)
        elif op == "FContains":
            out = a[0] in f
        elif op == "FEq":
            other = eq_other(fl, f, a[0], mk_file)
            out = bool(f == other)
            if bool(f != other) == out:
                out = "== and != agree"
        elif op == "Reload":
            holder["f"] = reload_file(fl, f)
        elif op == "Peek":
            out = proj_file(reload_file(fl, f))
        elif op[0] == "B":
            b = f[pb]
            if op == "BSet":
                b[a[0]] = mk_cat(fl, a[1])
            elif op == "BGet":
                out = proj_cat(copy.deepcopy(b[a[0]]))
            elif op == "BDel":
                del b[a[0]]
            elif op == "BIter":
                out = list(iter(b))
            elif op == "BLen":
                out = len(b)
            elif op == "BContains":
                out = a[0] in b
            elif op == "BEq":
                other = eq_other(fl, b, a[0], mk_block)
                out = bool(b == other)
                if bool(b != other) == out:
                    out = "== and != agree"
            else:
                raise AssertionError(op)
        elif op[0] == "C":
            c = f[pb][pc]
            if op == "CSet":
                # a[2]: representation handed to __setitem__ (Containers.tla: ColForms)
                col = mk_col(fl, a[1])
                c[a[0]] = col if a[2] == "col" else col.data
            elif op == "CGet":
                out = col_id(c[a[0]])
            elif op == "CDel":
                del c[a[0]]
            elif op == "CIter":
                out = list(iter(c))
            elif op == "CLen":
                out = len(c)
            elif op == "CContains":
                out = a[0] in c
            elif op == "CEq":
                other = eq_other(fl, c, a[0], mk_cat)
                out = bool(c == other)
                if bool(c != other) == out:
                    out = "== and != agree"
            else:
                raise AssertionError(op)
        else:
            raise AssertionError(op)
        return "ok", out
    except KeyError:
        return "KeyError", []
    except AssertionError:
        raise
    except Exception:  # noqa: BLE001  the property does not name the class of other refusals
        return "Rejected", []


NO_OUT = {"FSet", "FSetWrong", "FDel", "Reload", "BSet", "BDel", "CSet", "CDel"}


def repair_known(fl, holder, pb, pc, op, a, kb, exp_oc):
    """After a recorded defect was observed: bring the real object to the state the property
    demands, so that the rest of the path is still meaningful (the mismatch is already recorded).
    Returns False if the path has to stop."""
    from biotite.structure.io.pdbx.component import _HierarchicalContainer

    f = holder["f"]
    if "BcifBlockDel" in kb:
        if exp_oc == "ok":
            _HierarchicalContainer.__delitem__(f[pb], "_" + a[0])     # the proposed patch
        return True
    if "StaleRowCount" in kb:
        felems = f._blocks if fl == "text" else f._elements
        for b in felems.values():
            if isinstance(b, (str, dict)):
                continue
            for c in (b._categories if fl == "text" else b._elements).values():
                if not isinstance(c, (str, dict)):
                    c._row_count = None                               # the proposed patch
        oc, _out = apply_map(fl, holder, pb, pc, op, a)
        return oc == "ok"
    return False


_G = None


def _graph():
    global _G
    if _G is None:
        with open(os.environ["C06_GRAPH"]) as fh:
            _G = json.load(fh)
    return _G


def warmup():
    import biotite.structure.io.pdbx  # noqa: F401

    if "C06_GRAPH" in os.environ:
        _graph()


def exec_paths(item):
    """S2 child: replay a group of paths of the container state graph."""
    out = {"mismatch": [], "steps": 0, "flagdiff": 0}
    for p in item["paths"]:
        r = exec_path(p)
        out["mismatch"] += r["mismatch"]
        out["steps"] += r["steps"]
        out["flagdiff"] += r["flagdiff"]
    return out


def exec_path(item):
    """Replay one path of the container state graph."""
    from harness.tlabind.pool import progress

    G = _graph()
    states, labels = G["states"], G["labels"]
    st = states[item["init"]]
    fl = st["fl"]
    holder = {"f": _cls(fl)[0]()}
    mism = []
    nsteps = 0
    flagdiff = 0
    src = st
    for li, dst in item["steps"]:
        op, a = labels[li]
        exp = states[dst]
        progress({"fl": fl, "op": op, "a": a})
        nsteps += 1
        oc, out = apply_map(fl, holder, "b1", "c1", op, a)
        ab = project_map(holder["f"])
        bad = []
        if oc != exp["oc"]:
            bad.append("oc")
        if ab != exp["abs"]:
            bad.append("abs")
        if not bad and oc == "ok" and op not in NO_OUT and out != exp["out"]:
            bad.append("out")
        ser = None
        if not bad:
            ser = observe_ser(fl, holder["f"])
            if not ser_agrees(ser, exp["ser"], exp["abs"]):
                bad.append("ser")
        if bad:
            kb = exp["kb"]
            known_shape = bool(kb) and oc == "Rejected" and ab == src["abs"]
            mism.append({"kind": "step", "fl": fl, "op": op, "a": a, "bad": bad, "kb": kb,
                         "known_shape": known_shape,
                         "expected": {"oc": exp["oc"], "out": exp["out"], "abs": exp["abs"],
                                      "ser": "ok" if exp["ser"] else "Rejected"},
                         "observed": {"oc": oc, "out": out, "abs": ab, "ser": ser},
                         "path": [labels[x] for x, _ in item["steps"][:nsteps]]})
            if not (known_shape and repair_known(fl, holder, "b1", "c1", op, a, kb, exp["oc"])):
                break
            if project_map(holder["f"]) != exp["abs"]:
                break
        elif lazy_shape(fl, holder["f"]) != exp["lazy"]:
            flagdiff += 1
        src = exp
    return {"mismatch": mism, "steps": nsteps, "flagdiff": flagdiff}


# --------------------------------------------------------------------------- keys: real side
def exec_keys(item):
    """S2 child: key echo.  A container holding one element under `key` at `lvl`."""
    mism = []
    n = 0
    for case in item["cases"]:
        fl, lvl, key = case["fl"], case["lvl"], untok(case["key"])
        F, B, C = _cls(fl)
        n += 1
        try:
            cat = C({(key if lvl == "column" else "k1"): mk_col(fl, "x")})
            blk = B({(key if lvl == "category" else "c1"): cat})
            f = F({(key if lvl == "block" else "b1"): blk})

            def shown(ff):
                cont = ff if lvl == "block" else (ff[list(ff)[0]] if lvl == "category"
                                                 else ff[list(ff)[0]][list(ff[list(ff)[0]])[0]])
                return [tok(k) for k in cont]
            obs = {"before": shown(f), "after": shown(reload_file(fl, f))}
        except Exception as e:  # noqa: BLE001
            obs = {"before": ["<%s>" % type(e).__name__], "after": []}
        exp = {"before": [case["echo"]], "after": [case["echo"]]}
        if obs != exp:
            pred = {"before": [case["shown"]], "after": [case["shown"]]}
            mism.append({"kind": "key", "fl": fl, "lvl": lvl, "key": case["key"], "kb": case["kb"],
                         "known_shape": bool(case["kb"]) and obs == pred,
                         "expected": exp, "observed": obs})
    return {"mismatch": mism, "n": n}


# --------------------------------------------------------------------------- S3 generators
PLAIN = list("abcxyzABZ0189-+=/:,()*%@!~^&|<>{}") + ["rbr", "bs", "u1", "u2", "u3"]
AWK_WILD = ["sp", "sp", "tab", "sq", "sq", "dq", "us", "us", "hash", "semi", "dollar", "lbr", "nl", "nl",
            "dot", "qm", "data_", "loop_", "save_", "global_", "stop_"]
AWK_TAME = ["sp", "sp", "tab", "sq", "dq", "us", "dollar", "lbr", "dot", "qm", "save_", "global_", "stop_"]
NAME_AWK = ["us", "hash", "sq", "dq", "semi", "dollar", "lbr", "qm", "data_", "loop_"]


LEADERS = ["us", "hash", "semi", "dollar", "lbr", "rbr", "dot", "qm", "data_", "loop_", "save_", "global_", "stop_"]
FEATURES = ["sp", "tab", "sq", "dq"]


def _rand_combo(rng):
    """A value from the feature product of the quoting decision beyond the exhaustive bounds (MCText:
    FeatVals): a leader class, a random subset of the blank / quote characters in random order and
    multiplicity, ordinary characters in between."""
    body = []
    for t in FEATURES:
        if rng.random() < 0.5:
            body += [t] * rng.choice([1, 1, 2])
    body += [rng.choice(PLAIN) for _ in range(rng.choice([0, 1, 2, 3]))]
    if rng.random() < 0.1:
        body.append("nl")
    rng.shuffle(body)
    v = [rng.choice(LEADERS) if rng.random() < 0.8 else rng.choice(PLAIN)] + body
    # Dom_Value (CifText.tla): ';' occurs only as the leader, so never directly behind a line break;
    # a present value is not "." / "?"
    if v in (["dot"], ["qm"]):
        v.append("a")
    return v


def _rand_value(rng, profile):
    if profile == "combo":
        return _rand_combo(rng)
    awk = AWK_WILD if profile == "wild" else AWK_TAME
    n = rng.choice([0, 1, 1, 2, 2, 3, 3, 4, 5, 6, 8])
    v = []
    for _ in range(n):
        t = rng.choice(awk) if rng.random() < 0.45 else rng.choice(PLAIN)
        # Dom_Value (CifText.tla): no line break directly followed by ';', not "." / "?"
        if not (t == "semi" and v and v[-1] == "nl"):
            v.append(t)
    if v in (["dot"], ["qm"]):
        v.append("a")
    return v


def _rand_name(rng, used, awkward):
    while True:
        n = rng.randint(1, 5)
        v = [rng.choice(NAME_AWK) if (awkward and rng.random() < 0.3) else rng.choice("abckxyz019")
             for _ in range(n)]
        if tuple(v) not in used:
            used.add(tuple(v))
            return v


def _rand_file(rng, profile):
    ub = set()
    F = []
    awkward_names = rng.random() < 0.3
    for _b in range(rng.choice([1, 1, 2])):
        uc = set()
        cats = []
        for _c in range(rng.choice([1, 1, 2, 3])):
            rows = rng.choice([1, 1, 2, 3, 4])
            uk = set()
            cols = []
            for _k in range(rng.choice([1, 2, 2, 3, 4])):
                cells = []
                for _r in range(rows):
                    r = rng.random()
                    if r < 0.06:
                        cells.append({"m": 1, "v": []})
                    elif r < 0.12:
                        cells.append({"m": 2, "v": []})
                    elif r < 0.55:
                        cells.append({"m": 0, "v": [rng.choice(PLAIN) for _ in range(rng.randint(1, 4))]})
                    else:
                        cells.append({"m": 0, "v": _rand_value(rng, profile)})
                cols.append({"name": _rand_name(rng, uk, awkward_names), "cells": cells})
            cats.append({"name": _rand_name(rng, uc, awkward_names), "cols": cols})
        F.append({"name": _rand_name(rng, ub, awkward_names), "cats": cats})
    return F


def gen_text_trace(item):
    rng = random.Random(item["seed"])
    events = []
    for _ in range(item["n"]):
        F = _rand_file(rng, item["profile"])
        obs, text = roundtrip_cif(F)
        events.append({"kind": "text", "F": F, "obs": obs, "txt": tok(text)})
    return {"events": events}


MAP_OPS = (["FSet"] * 3 + ["FGet", "FDel", "FIter", "FLen", "FContains", "FEq", "Reload", "Reload", "Peek", "Peek",
           "FSetWrong"] + ["BSet"] * 3 + ["BGet", "BDel", "BIter", "BLen", "BContains", "BEq"]
           + ["CSet"] * 4 + ["CGet", "CDel", "CDel", "CIter", "CLen", "CContains", "CEq"])


def gen_map_trace(item):
    from harness.tlabind.pool import progress

    rng = random.Random(item["seed"])
    fl = item["fl"]
    holder = {"f": _cls(fl)[0]()}
    bk, ck, kk = ["b1", "b2", "b3"], ["c1", "c2", "c3"], ["k1", "k2", "k3"]
    events = []
    for _ in range(item["length"]):
        op = rng.choice(MAP_OPS)
        pb, pc = rng.choice(bk[:2]), rng.choice(ck[:2])
        if op == "FSet":
            a = [rng.choice(bk), rng.choice(["B0", "B1", "B1", "B2", "B3"])]
        elif op == "FSetWrong":
            a = [rng.choice(bk)]
        elif op in ("FGet", "FDel", "FContains"):
            a = [rng.choice(bk)]
        elif op == "FEq":
            a = [rng.choice(["self", "rev", "revkeys", "F0", "F1", "F2", "F3"])]
        elif op == "BSet":
            a = [rng.choice(ck), rng.choice(["C1", "C2", "C3", "C4"])]
        elif op in ("BGet", "BDel", "BContains"):
            a = [rng.choice(ck)]
        elif op == "BEq":
            a = [rng.choice(["self", "rev", "revkeys", "B0", "B1", "B2", "B3"])]
        elif op == "CSet":
            a = [rng.choice(kk), rng.choice(["x", "y", "zz"]), rng.choice(["col", "data"])]
        elif op in ("CGet", "CDel", "CContains"):
            a = [rng.choice(kk)]
        elif op == "CEq":
            a = [rng.choice(["self", "rev", "revkeys", "C1", "C2", "C3", "C4"])]
        else:
            a = []
        progress({"fl": fl, "op": op, "a": a})
        oc, out = apply_map(fl, holder, pb, pc, op, a)
        ab = project_map(holder["f"])
        events.append({"kind": "map", "fl": fl, "pb": pb, "pc": pc, "op": op, "a": a, "oc": oc,
                       "out": out if (oc == "ok" and op not in NO_OUT) else [], "abs": ab,
                       "ser": observe_ser(fl, holder["f"])})
        if ab and str(ab[0]["k"]).startswith("<projection failed"):
            break
    return {"events": events}


# --------------------------------------------------------------------------- classification
def classify(mm):
    """A mismatch is a recorded finding only if a KB_* predicate of the specification holds for
    the input / call (evaluated by TLC) AND the observation has the recorded shape (equals what the
    implementation-shaped model / ApplyKB predicts)."""
    kind = mm.get("kind")
    kb = mm.get("kb") or []
    if not kb:
        return None
    if kind in ("text", "step", "key"):
        if not mm.get("known_shape"):
            return None
    elif kind in ("event-text", "event-map"):
        if not mm.get("tlc_known"):
            return None
    else:
        return None
    for k in KB_PRIORITY:
        if k in kb:
            return KB2FINDING[k]
    return None


# --------------------------------------------------------------------------- replay
def replay(record):
    kind = record.get("kind")
    if kind in ("text", "event-text"):
        obs, text = roundtrip_cif(record["F"])
        exp = {"oc": "ok", "f": record["F"]}
        return {"text": text, "observed": obs, "expected": exp,
                "mismatch": _canon_file(obs) != _canon_file(exp)}
    if kind == "step":
        fl = record["fl"]
        holder = {"f": _cls(fl)[0]()}
        last = None
        for op, a in record["path"]:
            oc, out = apply_map(fl, holder, "b1", "c1", op, a)
            last = {"op": op, "a": a, "oc": oc, "out": out, "abs": project_map(holder["f"])}
        exp = record["expected"]
        last["ser"] = observe_ser(fl, holder["f"])
        return {"last": last, "expected": exp,
                "mismatch": last["oc"] != exp["oc"] or last["abs"] != exp["abs"]
                or ("out" in record.get("bad", ()) and last["out"] != exp["out"])
                or ("ser" in exp and not ser_agrees(last["ser"], exp["ser"] == "ok", exp["abs"]))}
    if kind == "event-map":
        fl = record["fl"]
        holder = {"f": _cls(fl)[0]()}
        last = None
        for e in record["history"]:
            oc, out = apply_map(fl, holder, e["pb"], e["pc"], e["op"], e["a"])
            last = {"op": e["op"], "a": e["a"], "oc": oc, "out": out, "abs": project_map(holder["f"])}
        exp = record["expected"]
        last["ser"] = observe_ser(fl, holder["f"])
        if "ser" in exp:      # the call itself agreed, the observation after it did not
            return {"last": last, "expected": exp,
                    "mismatch": not ser_agrees(last["ser"], exp["ser"] == "ok", exp["abs"])}
        return {"last": last, "expected": exp,
                "mismatch": last["oc"] != exp["oc"] or last["abs"] != exp["abs"]
                or (last["oc"] == "ok" and record["op"] not in NO_OUT and last["out"] != exp["out"])}
    if kind == "key":
        r = exec_keys({"cases": [{"fl": record["fl"], "lvl": record["lvl"], "key": record["key"],
                                  "echo": record["key"], "shown": record["key"], "kb": []}]})
        return {"result": r, "mismatch": bool(r["mismatch"])}
    return {"error": "record kind not replayable", "record": record}


# --------------------------------------------------------------------------- orchestration
def _vacuity(msg):
    from harness.tlabind.core import Vacuity

    raise Vacuity(msg)


def run(ctx):
    from harness.tlabind import dot, helpers, pool, tlc
    from harness.tlabind.tlaval import to_py

    quick = ctx.quick
    ctx.assumptions += [
        "Dom_Value: a value contains no line break directly followed by ';' (not expressible in CIF 1.1) and "
        "a present value is not '.' or '?' (biotite's CIFColumn infers the mask from these strings)",
        "Dom_Name: block/category/column names are non-empty and contain no blank and no '.'",
        "Dom_Category: at least one column, all columns of one length >= 1, unique names",
        "characters are the modelled classes (blank, tab, line break, both quotes, _ # ; $ [ . ?, the five "
        "reserved words) plus ordinary printable characters; other Unicode line/blank characters are not modelled",
        "binary literal columns carry fully specified encodings (BinaryCIFData equality includes the encoding "
        "and serialize() fills unset encoding parameters in place)",
        "container machine: keys b1,b2 / c1,c2 / k1,k2, nested calls through file['b1']['c1'], columns are "
        "three literals; larger key sets and other paths only through recorded histories",
        "S2 replays every transition of the state graph once (one history per model state); histories that "
        "the model merges into one state are told apart only by the write/read observation after every call",
        "trusted: TLC, the TLA+ value parser, the token<->character map, copy.deepcopy for observation, numpy",
    ]
    ctx.cov["rule"] = ("non-trivial = text input that needs quoting or a text field or carries a mask / mapping "
                       "path or history with >= 2 state-changing calls / key with a leading underscore")

    # the two exhaustive TLC runs are independent: run them side by side (the state-graph dump of the
    # container machine needs a single worker)
    import threading
    import time

    d = tlc.scratch_dir("c06")
    dotf = os.path.join(d, "g.dot")
    ccfg = "MCC.cfg" if quick else "MCC_thorough.cfg"
    box = {}

    def map_s1():
        try:
            time.sleep(0.2)          # scratch directory names carry a millisecond stamp
            if quick:
                ctx.tlc("MCContainers", ccfg, stage="S1-map", dump_dot=dotf, workers=1, timeout=1200)
            else:
                ctx.tlc("MCContainers", ccfg, stage="S1-map", workers=6, timeout=2400)
                ctx.tlc("MCContainers", ccfg, stage="S1-map-graph", dump_dot=dotf, workers=1, timeout=3000,
                        count=False)
        except BaseException as e:  # noqa: BLE001  re-raised in the main thread
            box["err"] = e
    th = threading.Thread(target=map_s1)
    th.start()

    # ================================================================= text layer: S1 + S2
    cfg = "MC.cfg" if quick else "MC_thorough.cfg"
    try:
        res, states = helpers.dump_states(ctx, "MCText", cfg, stage="S1-text", workers=12, timeout=2400)
    except BaseException:
        th.join()
        raise
    done = [s for s in states if s["done"]]
    if not done or 2 * len(done) != res.distinct:
        raise RuntimeError(f"MCText: {len(done)} evaluated states of {res.distinct}")
    ctx.exhaustive = True
    kbcount = {}
    for s in done:
        for k in s["kb"]:
            kbcount[k] = kbcount.get(k, 0) + 1
    ctx.cov["text_inputs"] = len(done)
    ctx.cov["text_inputs_per_kb_class"] = kbcount
    ctx.cov["text_inputs_not_cif11_when_written_by_biotite"] = sum(1 for s in done if not s["gram"])
    # classes that are still expected among the enumerated files; UnderscoreQuote (repaired by
    # biotite 0540e6c2) and Hash/Semi/ReservedAtLineStart (repaired by biotite 090058e5) are empty in
    # CifText.tla now: such files must simply come back unchanged
    need = {"TextFieldLine"}
    if not need <= set(kbcount):
        _vacuity(f"recorded-defect classes never enumerated: {sorted(need - set(kbcount))}")
    if sum(1 for s in done if not s["kb"]) < len(done) // 4:
        _vacuity("too few enumerated files outside the recorded-defect classes")
    # the feature product (MCText: FeatVals) must really combine three features in one value
    lead = {"hash", "semi", "dollar", "lbr", "rbr", "data_", "loop_", "save_", "global_", "stop_"}
    nprod = sum(1 for s in done if any(x["m"] == 0 and x["v"] and x["v"][0] in lead and "sq" in x["v"] and "sp" in x["v"]
                                       for b in s["inp"] for c in b["cats"] for col in c["cols"] for x in col["cells"]))
    ctx.cov["text_inputs_leader_and_apostrophe_and_blank"] = nprod
    if nprod == 0:
        _vacuity("no enumerated value combines a leading special character, an apostrophe and a blank")
    cases = [{"F": s["inp"], "kb": s["kb"], "impl": s["impl"]} for s in done]
    ctx.rng.shuffle(cases)
    items = [{"cases": c} for c in helpers.chunked(cases, 100)]
    results = helpers.run_pool(ctx, "harness.drivers.c06:exec_text", items, stage="S2-text")
    n = sum(r.get("n", 0) for r in results)
    ctx.traces_validated += n
    ctx.evaluations += n
    ctx.cov["s2_text_roundtrips"] = n
    ctx.cov["s2_text_kb_not_reproduced"] = sum(r.get("kbmiss", 0) for r in results)
    ctx.nontrivial += sum(1 for s in done if _nontrivial_text(s["inp"]))
    for c in cases[:2]:
        ctx.sample({"s2_text_input": c["F"], "kb": c["kb"]})
    if ctx.cov["s2_text_kb_not_reproduced"]:
        ctx.note(f"{ctx.cov['s2_text_kb_not_reproduced']} enumerated files of a recorded-defect class were "
                 "returned unchanged by the real code (defect repaired?)")

    # ================================================================= key echo: S1 + S2
    res, kstates = helpers.dump_states(ctx, "MCKeys", "MCKeys.cfg", stage="S1-keys", workers=4, timeout=300)
    kitems = [{"cases": c} for c in helpers.chunked(kstates, 60)]
    kres = helpers.run_pool(ctx, "harness.drivers.c06:exec_keys", kitems, stage="S2-keys")
    nk = sum(r.get("n", 0) for r in kres)
    ctx.traces_validated += nk
    ctx.evaluations += nk
    ctx.cov["s2_key_cases"] = nk
    ctx.nontrivial += sum(1 for s in kstates if s["key"][0] == "us")

    # ================================================================= containers: S1 + S2
    th.join()
    if "err" in box:
        raise box["err"]
    g = dot.load(dotf)
    if not g.edges:
        raise RuntimeError("empty container state graph")
    labels, lab_ix, ops_seen = [], {}, {}
    for (_s, lab, _d) in g.edges:
        if lab not in lab_ix:
            _name, args = dot.parse_label(lab)
            c = to_py(args[0])
            lab_ix[lab] = len(labels)
            labels.append([c[0], c[1]])
        o = labels[lab_ix[lab]][0]
        ops_seen[o] = ops_seen.get(o, 0) + 1
    need_ops = {"FSet", "FSetWrong", "FGet", "FDel", "FIter", "FLen", "FContains", "FEq", "Reload", "Peek",
                "BSet", "BGet", "BDel", "BIter", "BLen", "BContains", "BEq",
                "CSet", "CGet", "CDel", "CIter", "CLen", "CContains", "CEq"}
    if need_ops - set(ops_seen):
        _vacuity(f"calls never taken in the state graph: {sorted(need_ops - set(ops_seen))}")
    ctx.cov["map_transitions_per_op"] = ops_seen
    ids = {nid: k for k, nid in enumerate(g.state_text)}
    jstates = [None] * len(ids)
    seen_oc, seen_kb, lazy_states = {}, {}, 0
    for nid, k in ids.items():
        st = g.state(nid)
        f = to_py(st["f"])
        jstates[k] = {"fl": st["fl"], "oc": st["oc"], "out": to_py(st["out"]), "kb": to_py(st["kb"]),
                      "abs": _abs_file(f), "lazy": model_lazy_shape(f), "ser": _tla_bool(st["ser"])}
        seen_oc[st["oc"]] = seen_oc.get(st["oc"], 0) + 1
        for x in jstates[k]["kb"]:
            seen_kb[(st["fl"], x)] = seen_kb.get((st["fl"], x), 0) + 1
        if any(b["lz"] or any(c["lz"] for c in b["v"]) for b in f):
            lazy_states += 1
    ctx.cov["map_states_per_outcome"] = seen_oc
    # equality against operands derived from the container itself: both answers must occur for the
    # re-ordered operands at every level, and the write/read observation must have both outcomes
    eqseen = {}
    for (_s, lab, dd) in g.edges:
        o, a = labels[lab_ix[lab]]
        if o in ("FEq", "BEq", "CEq") and a[0] in EQ_SELF:
            key = f"{o}:{a[0]}:{jstates[ids[dd]]['out']}"
            eqseen[key] = eqseen.get(key, 0) + 1
    ctx.cov["map_eq_derived_operand_transitions"] = dict(sorted(eqseen.items()))
    for o in ("FEq", "BEq", "CEq"):
        for want in (f"{o}:rev:True", f"{o}:revkeys:True", f"{o}:revkeys:False"):
            if want not in eqseen:
                _vacuity(f"equality with a derived operand never evaluated to this answer: {want}")
    serseen = {}
    for st in jstates:
        serseen[str(st["ser"])] = serseen.get(str(st["ser"]), 0) + 1
    ctx.cov["map_states_per_write_observation"] = serseen
    if set(serseen) != {"True", "False"}:
        _vacuity(f"write/read observation has one outcome only: {serseen}")
    ctx.cov["map_states_with_serialised_elements"] = lazy_states
    ctx.cov["map_states_per_kb"] = {f"{a}:{b}": n for (a, b), n in sorted(seen_kb.items())}
    if not {"ok", "KeyError", "Rejected"} <= set(seen_oc):
        _vacuity(f"outcomes not all reached: {seen_oc}")
    # BcifBlockDel (repaired by biotite 08201441) and StaleRowCount (repaired by biotite c2b1fbb3) are no
    # longer tagged by Containers.tla: no recorded-defect transition is expected in the state graph
    for want in ():
        if want not in seen_kb:
            _vacuity(f"recorded-defect transition never reached: {want}")
    if lazy_states == 0:
        _vacuity("no state with serialised (lazy) elements")
    limit = 30000 if quick else None
    paths, covered = dot.covering_paths(g, max_len=10, limit=limit, rng=ctx.rng)
    gfile = os.path.join(d, "graph.json")
    with open(gfile, "w") as fh:
        json.dump({"states": jstates, "labels": labels}, fh)
    pitems = [{"init": ids[root], "steps": [[lab_ix[lab], ids[dst]] for lab, dst in steps]}
              for root, steps in paths]
    ctx.log(f"S2-map: {len(pitems)} paths covering {covered}/{len(g.edges)} transitions")
    groups = [{"paths": c} for c in helpers.chunked(pitems, 40)]
    gres = pool.run_isolated("harness.drivers.c06:exec_paths", groups, env={"C06_GRAPH": gfile},
                             item_timeout=120)
    presults = []
    for grp, r in zip(groups, gres):
        if r is not None and "crash" in r:
            # a native crash costs the whole group: run its paths one by one to find the culprit
            single = pool.run_isolated("harness.drivers.c06:exec_path", grp["paths"],
                                       env={"C06_GRAPH": gfile}, item_timeout=30)
            for it, r1 in zip(grp["paths"], single):
                if r1 is not None and "crash" in r1:
                    r1["progress"] = dict(r1.get("progress") or {}, path=[labels[x] for x, _ in it["steps"]])
            ctx.check_results(single, grp["paths"], "S2-map")
            presults += single
        else:
            ctx.check_results([r], [grp], "S2-map")
            presults.append(r)
    steps = sum((r or {}).get("steps", 0) for r in presults)
    ctx.traces_validated += len(pitems)
    ctx.evaluations += steps
    ctx.cov["s2_map_paths"] = len(pitems)
    ctx.cov["s2_map_steps_executed"] = steps
    ctx.cov["s2_map_transitions_covered"] = covered
    ctx.cov["s2_map_transitions_total"] = len(g.edges)
    fd = sum((r or {}).get("flagdiff", 0) for r in presults)
    ctx.cov["s2_map_lazy_state_differs_from_model"] = fd
    if fd:
        ctx.note(f"diagnostic: in {fd} of {steps} replayed steps the parsed/serialised flags or cached row "
                 "counts inside the real objects differ from the model's (content and outcomes agree)")
    ctx.nontrivial += sum(1 for it in pitems
                          if sum(1 for li, _ in it["steps"] if labels[li][0] in NO_OUT) >= 2)
    for root, stp in paths[:2]:
        ctx.sample({"s2_map_path": [labels[lab_ix[lab]] for lab, _ in stp]})

    # ================================================================= S3
    ntext = 18 if quick else 252
    per = 20 if quick else 30
    titems = [{"seed": ctx.rng.randrange(1 << 30), "n": per, "profile": ("tame", "wild", "combo")[k % 3]}
              for k in range(ntext)]
    nmap = 60 if quick else 600
    mitems = [{"seed": ctx.rng.randrange(1 << 30), "length": 30 if quick else 40,
               "fl": "text" if k % 2 else "binary"} for k in range(nmap)]
    traces = []
    for target, its in (("harness.drivers.c06:gen_text_trace", titems),
                        ("harness.drivers.c06:gen_map_trace", mitems)):
        for it, r in zip(its, pool.run_isolated(target, its, item_timeout=120)):
            if "driver_error" in r:
                raise RuntimeError(f"S3 driver error: {r['driver_error']}\n{r.get('tb', '')}")
            if "crash" in r:
                ctx.mismatch({"stage": "S3", "kind": "crash", "signal": r["crash"],
                              "progress": r.get("progress"), "item": it})
            elif r["events"]:
                traces.append(r["events"])
    clean = validate_traces(ctx, traces)
    # binding self-test on traces without any disagreement: corrupt one observation each
    picked = [traces[i] for i in clean if traces[i][0]["kind"] == "text"][:2] + \
             [traces[i] for i in clean if traces[i][0]["kind"] == "map"][:2]

    ncorr = [0]

    def corrupt(tr):
        ncorr[0] += 1
        if tr[0]["kind"] == "map" and ncorr[0] % 2 == 0:
            # the write/read observation: claim the opposite outcome
            for e in tr:
                if e["oc"] == "ok":
                    e["ser"] = {"oc": "Rejected", "abs": []} if e["ser"]["oc"] == "ok" else \
                        {"oc": "ok", "abs": e["abs"]}
                    return True
        for e in tr:
            if e["kind"] == "text" and e["obs"]["oc"] == "ok":
                c = e["obs"]["f"][0]["cats"][0]["cols"][0]["cells"][0]
                c["v"] = c["v"] + ["x"] if c["m"] == 0 else ["x"]
                c["m"] = 0
                return True
            if e["kind"] == "map" and e["op"] in ("FLen", "BLen", "CLen") and e["oc"] == "ok":
                e["out"] = e["out"] + 1
                return True
            if e["kind"] == "map" and e["op"] in ("FSet", "BSet", "CSet") and e["oc"] == "ok" and e["abs"]:
                e["abs"] = e["abs"][1:]
                return True
        return False
    if picked:
        helpers.binding_selftest(ctx, picked, corrupt, max_traces=4)
    else:
        ctx.note("binding self-test skipped: no trace without disagreement")


def _tla_bool(v):
    if v is True or v == "TRUE":
        return True
    if v is False or v == "FALSE":
        return False
    raise RuntimeError(f"not a boolean: {v!r}")


def _abs_file(f):
    return [{"k": b["k"], "v": [{"k": c["k"], "v": [{"k": e["k"], "v": e["v"]} for e in c["v"]["cols"]]}
                                for c in b["v"]]} for b in f]


def _nontrivial_text(F):
    special = {"sp", "tab", "nl", "sq", "dq", "us", "hash", "semi", "dollar", "lbr", "data_", "loop_",
               "save_", "global_", "stop_"}
    for b in F:
        for c in b["cats"]:
            for col in c["cols"]:
                for x in col["cells"]:
                    if x["m"] != 0 or not x["v"] or special & set(x["v"]):
                        return True
    return False


def validate_traces(ctx, traces):
    """TLC re-computes every recorded event.  Returns indices of traces without disagreement."""
    from harness.tlabind import helpers, tlc

    if not traces:
        return []
    d = tlc.scratch_dir("c06tr")
    tf = os.path.join(d, "traces.json")
    with open(tf, "w") as fh:
        json.dump(traces, fh)
    res = ctx.tlc("Trace", "Trace.cfg", stage="S3", workers=1, env={"TRACE_FILE": tf}, timeout=1500)
    expect = sum(len(t) + 1 for t in traces)
    if res.distinct != expect:
        raise RuntimeError(f"C06 S3: trace validation visited {res.distinct} states, expected {expect}")
    from harness.tlabind.tlaval import parse_value, to_py

    def vals(tag):
        seen, out = set(), []
        for txt in tlc.printed_values(res.out, tag):
            v = to_py(parse_value(txt))
            if (v[1], v[2]) not in seen:
                seen.add((v[1], v[2]))
                out.append(v)
        return out
    notdom = vals("NOTDOM")
    if notdom:
        raise RuntimeError(f"C06 S3: generator left the domain in {len(notdom)} events, e.g. {notdom[0]}")
    nev = sum(len(t) for t in traces)
    ctx.traces_validated += len(traces)
    ctx.evaluations += nev
    ctx.cov["s3_traces"] = len(traces)
    ctx.cov["s3_events"] = nev
    ctx.cov["s3_text_events"] = sum(len(t) for t in traces if t[0]["kind"] == "text")
    ctx.cov["s3_map_events"] = sum(len(t) for t in traces if t[0]["kind"] == "map")
    ctx.cov["s3_text_differs_from_writer_model"] = len(vals("TEXTDIFF"))
    ctx.cov["s3_kb_not_reproduced"] = len(vals("KBMISS"))
    if ctx.cov["s3_text_differs_from_writer_model"]:
        ctx.note(f"diagnostic: biotite's text differs from ImplSerializeFile in "
                 f"{ctx.cov['s3_text_differs_from_writer_model']} recorded events")
    ctx.nontrivial += sum(1 for t in traces if t[0]["kind"] == "map"
                          and sum(1 for e in t if e["oc"] == "ok" and e["op"] in NO_OUT) >= 2)
    ctx.nontrivial += sum(1 for t in traces if t[0]["kind"] == "text" for e in t if _nontrivial_text(e["F"]))
    ctx.sample({"s3_text_event": {k: traces[0][0][k] for k in ("F", "obs")}} if traces[0][0]["kind"] == "text"
               else {"s3_map_events": traces[0][:2]})
    dirty = set()
    for v in vals("MISMATCH"):
        tid, l, verdict, kb = v[1], v[2], v[3], v[4]
        dirty.add(tid - 1)
        e = traces[tid - 1][l - 1]
        if e["kind"] == "text":
            ctx.mismatch({"stage": "S3", "kind": "event-text", "tlc_known": verdict == "known", "kb": kb,
                          "F": e["F"], "expected": {"oc": "ok", "f": e["F"]}, "observed": e["obs"],
                          "model_prediction_oc": v[5], "trace": tid, "event": l})
        elif v[5] == "ser":
            # the call agreed with the specification, the write/read observation after it did not
            ctx.mismatch({"stage": "S3", "kind": "event-map", "tlc_known": False, "kb": [], "bad": ["ser"],
                          "fl": e["fl"], "op": e["op"], "a": e["a"], "pb": e["pb"], "pc": e["pc"],
                          "expected": {"oc": e["oc"], "abs": v[6], "ser": "ok" if v[7] else "Rejected"},
                          "observed": {"oc": e["oc"], "abs": e["abs"], "ser": e["ser"]},
                          "history": [{k: x[k] for k in ("pb", "pc", "op", "a")} for x in traces[tid - 1][:l]],
                          "trace": tid, "event": l})
        else:
            ctx.mismatch({"stage": "S3", "kind": "event-map", "tlc_known": verdict == "known", "kb": kb,
                          "fl": e["fl"], "op": e["op"], "a": e["a"], "pb": e["pb"], "pc": e["pc"],
                          "expected": {"oc": v[5], "abs": v[6], "out": v[7]},
                          "observed": {"oc": e["oc"], "abs": e["abs"], "out": e["out"]},
                          "history": [{k: x[k] for k in ("pb", "pc", "op", "a")} for x in traces[tid - 1][:l]],
                          "trace": tid, "event": l})
    return [i for i in range(len(traces)) if i not in dirty]


MANIFEST = {
    "technique": "TLA+ specifications of the CIF text writer/reader (operator per function of cif.py, CIF 1.1 reference grammar) and of the lazy three-level containers (specs/C06), model-checked by TLC; every enumerated file round-tripped through the real CIFFile, every transition of the container state graph replayed on real text and binary containers, recorded random files and mapping histories re-computed by TLC",
    "level_text": "TLC enumerates every file built from one awkward value (all strings of <=2 tokens over 18 character classes incl. the reserved words, <=3 over a reduced alphabet, and the feature product of the quoting decision: every leading character class x every subset of {blank, tab, apostrophe, double quote} in both orders) at 12 table positions (one-row, looped, first/other column, after a text field, next to mask cells, sandwiched between other categories and blocks) plus awkward block/category/column names, and checks that the code-shaped reader/writer model loses a table exactly in the recorded-defect classes, that a CIF 1.1 codec exists for every input, and that biotite's output is CIF 1.1 exactly outside the listed classes; each file is then written and read by the real CIFFile and compared cell by cell (values, order, masks). The container machine (2 flavours x 24 calls, keys b1,b2/c1,c2/k1,k2, parsed and serialised elements, cached row counts) is explored exhaustively to a bounded depth, Impl is checked to refine a plain dictionary, and every transition is replayed on real CIFFile and BinaryCIFFile objects (content, outcome, returned value; observation through a deep copy; after every call an independent copy is written and read back and compared with the specification's serialisability and content, so that caches left behind by the history show). Equality is called with literals and with operands derived from the container itself (copy, same mapping in reverse insertion order, keys reversed over the values in place); columns are assigned as column objects and as data objects. Random files up to 4x4 with values up to 8 characters and mapping histories of 30-40 calls over 3 keys per level are recorded and re-computed by TLC event by event.",
    "level_note": "Bounded: exhaustive only for one awkward value of <=3 tokens per file and container histories of <=4 (thorough 5) calls; longer values, several awkward values per table and longer histories only through recorded runs. Characters are abstracted to the modelled classes; Unicode blanks / line separators other than space, tab and line feed are not modelled. Values containing a line break directly followed by ';' and present values equal to '.' or '?' are outside the domain (not expressible). Conformance of biotite's text to CIF 1.1 and of other writers' legal CIF to biotite's reader is reported as a diagnostic only. Five recorded defects are accepted only in their exact predicted shape. Trusted: TLC, the TLA+ value parser, the token<->character map, copy.deepcopy, numpy, msgpack.",
}
