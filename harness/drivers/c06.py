"""C06 — the CIF text layer returns every string table unchanged; CIF / BinaryCIF containers
behave as mutable mappings before and after lazy parsing.

Specifications (specs/C06):
  CifText.tla      writer + reader of cif.py, operator by operator (Impl*), the property
                   (Ideal*), the recorded-defect classes (KB_*), the CIF 1.1 grammar (Ref*)
  Containers.tla   three-level lazy container (Impl) against plain dictionaries (Ideal)
  MCText / MCPairs / MCContainers / MCKeys   exhaustive configurations;  Trace.tla  trace validation

S1  TLC: (a) on every enumerated file the code-shaped model loses the table exactly in the KB
    classes, a correct CIF codec exists, biotite's text is CIF 1.1 exactly outside the NB
    classes; (b) all reachable states of the container machine: Impl refines Ideal, refusals
    are no-ops, stale row counts characterised; (c) key echo; (d) every construction form hands
    over the table itself; every rendering of MCPairs is CIF 1.1 and denotes the table.
S2  every enumerated file is written and read with the real CIFFile and compared with the
    file itself (property) and, where it differs, with the model's prediction (finding shape);
    every transition of the container state graph is replayed on real text and binary
    containers; every (flavour, level, key) of MCKeys is executed; every table is also built in
    every construction form (table before writing = table read back = the specification's);
    containers parsed from two different texts are compared at file / block / category level for
    every pattern of prior access and the answers compared with the specification's.
S3  random larger files (random construction forms) / pairs of randomly rendered texts / longer
    mapping histories are recorded and re-computed by TLC.
"""

from __future__ import annotations

import copy
import io
import json
import os
import random

PROPERTY = "C06"

# --------------------------------------------------------------------------- tokens <-> text
NAMED = {"sp": " ", "tab": "\t", "nl": "\n", "sq": "'", "dq": '"', "us": "_", "hash": "#",
         "semi": ";", "dollar": "$", "lbr": "[", "rbr": "]", "dot": ".", "qm": "?", "bs": "\\",
         "u1": "é", "u2": "Ω", "u3": "中",
         "data_": "data_", "loop_": "loop_", "save_": "save_", "global_": "global_", "stop_": "stop_"}
CHAR2TOK = {v: k for k, v in NAMED.items() if len(v) == 1}
RESERVED = ("data_", "loop_", "save_", "global_", "stop_")
NONE_NAME = ["<None>"]


def untok(toks):
    return "".join(NAMED.get(t, t) for t in toks)


def tok(s):
    out = []
    i = 0
    n = len(s)
    while i < n:
        for w in RESERVED:
            if s.startswith(w, i):
                out.append(w)
                i += len(w)
                break
        else:
            out.append(CHAR2TOK.get(s[i], s[i]))
            i += 1
    return out


# --------------------------------------------------------------------------- text: real side
def build_cif(F):
    import numpy as np
    from biotite.structure.io.pdbx import CIFBlock, CIFCategory, CIFColumn, CIFData, CIFFile

    blocks = {}
    for b in F:
        cats = {}
        for c in b["cats"]:
            cols = {}
            for col in c["cols"]:
                data = [untok(x["v"]) if x["m"] == 0 else "junk" for x in col["cells"]]
                mask = [x["m"] for x in col["cells"]]
                if any(mask):
                    cols[untok(col["name"])] = CIFColumn(
                        CIFData(np.array(data, dtype=str)), CIFData(np.array(mask, dtype=np.uint8)))
                else:
                    cols[untok(col["name"])] = CIFColumn(CIFData(np.array(data, dtype=str)))
            cats[untok(c["name"])] = CIFCategory(cols)
        blocks[untok(b["name"])] = CIFBlock(cats)
    return CIFFile(blocks)


def _raw_value(col):
    """One column handed over in the form the specification names (CifText.tla: RawCol, FormsNoMask /
    FormsMask).  vals are the texts, mask is [] (none given) or [mask values]."""
    import numpy as np
    from biotite.structure.io.pdbx import CIFColumn, CIFData

    vals = [untok(v) for v in col["vals"]]
    mask = [int(m) for m in col["mask"][0]] if col["mask"] else None
    form = col["form"]
    if form == "item":
        return vals[0]
    if form == "list":
        return vals
    if form == "array":
        return np.array(vals, dtype=str)
    if form == "data":
        return CIFData(vals)
    if form == "col_item":
        return CIFColumn(vals[0])
    if form == "col_list":
        return CIFColumn(vals)
    if form == "col_array":
        return CIFColumn(np.array(vals, dtype=str))
    if form == "col_data":
        return CIFColumn(CIFData(vals))
    if form == "col_data_str":
        return CIFColumn(CIFData(np.array(vals), str))
    if form == "col_item_mask":
        return CIFColumn(vals[0], mask[0])
    if form == "col_list_mask":
        return CIFColumn(vals, mask)
    if form == "col_array_mask":
        return CIFColumn(np.array(vals, dtype=str), np.array(mask, dtype=np.uint8))
    if form == "col_data_mask":
        return CIFColumn(CIFData(np.array(vals, dtype=str)), CIFData(np.array(mask, dtype=np.uint8)))
    if form == "col_data_listmask":
        return CIFColumn(CIFData(vals), mask)
    # (round 5) the same containers around other NumPy representations of the same texts / mask values
    longest = max(len(v) for v in vals)

    def wide():       # item size wider than the longest text
        return np.array(vals, dtype="U%d" % (longest + 7))

    def view():       # strided view on a bigger array with longer texts in between
        return np.array([x for v in vals for x in (v, v + "<padding>")], dtype=str)[::2]

    def be():         # non-native byte order
        a = np.array(vals, dtype=str)
        return a.astype(a.dtype.newbyteorder(">"))

    if form == "array_wide":
        return wide()
    if form == "array_view":
        return view()
    if form == "array_be":
        return be()
    if form == "data_wide":
        return CIFData(wide())
    if form == "data_view":
        return CIFData(view())
    if form == "col_array_wide":
        return CIFColumn(wide())
    if form == "col_data_be":
        return CIFColumn(CIFData(be()))
    if form == "col_array_mask_i64":
        return CIFColumn(np.array(vals, dtype=str), np.array(mask, dtype=np.int64))
    if form == "col_data_mask_i64":
        return CIFColumn(CIFData(np.array(vals, dtype=str)), CIFData(np.array(mask, dtype=np.int64)))
    if form == "col_data_wide_mask_i64":
        return CIFColumn(CIFData(wide()), CIFData(np.array(mask, dtype=np.int64)))
    raise AssertionError(form)


def build_raw(R, mode):
    """The file whose columns are handed over as the raw columns R, the containers filled in the way
    `mode`: "ctor" dictionaries given to the constructors, "setitem" empty containers filled by
    assignment (innermost first), "topdown" assignment through the already nested containers."""
    from biotite.structure.io.pdbx import CIFBlock, CIFCategory, CIFFile

    if mode == "ctor":
        return CIFFile({untok(b["name"]): CIFBlock({untok(c["name"]): CIFCategory(
            {untok(col["name"]): _raw_value(col) for col in c["cols"]}) for c in b["cats"]}) for b in R})
    f = CIFFile()
    for b in R:
        bn = untok(b["name"])
        if mode == "topdown":
            f[bn] = CIFBlock()
            for c in b["cats"]:
                f[bn][untok(c["name"])] = CIFCategory()
                for col in c["cols"]:
                    f[bn][untok(c["name"])][untok(col["name"])] = _raw_value(col)
        elif mode == "setitem":
            blk = CIFBlock()
            for c in b["cats"]:
                cat = CIFCategory()
                for col in c["cols"]:
                    cat[untok(col["name"])] = _raw_value(col)
                blk[untok(c["name"])] = cat
            f[bn] = blk
        else:
            raise AssertionError(mode)
    return f


def project_cif(g):
    out = []
    for bn in g:
        blk = g[bn]
        cats = []
        for cn in blk:
            cat = blk[cn]
            cols = []
            for k in cat:
                col = cat[k]
                arr = col.as_array().tolist()
                m = [0] * len(arr) if col.mask is None else [int(x) for x in col.mask.array.tolist()]
                cols.append({"name": tok(k),
                             "cells": [{"m": mm, "v": tok(a) if mm == 0 else []} for a, mm in zip(arr, m)]})
            cats.append({"name": NONE_NAME if cn is None else tok(cn), "cols": cols})
        out.append({"name": tok(bn), "cats": cats})
    return out


def roundtrip_cif(F, raw=None, mode="ctor", eq_out=None):
    """CIFFile.deserialize(file.serialize()), projected.  -> (obs, text, before)
    The file is built from F in the standard way, or from the raw columns `raw` (construction forms);
    `before` is then the table that the built object holds (read from a copy), None otherwise.
    eq_out: a list that receives the failed comparisons built == re-read (built_vs_reread)."""
    from biotite.structure.io.pdbx import CIFFile

    if raw:
        f = build_raw(raw, mode)
        try:
            before = project_cif(copy.deepcopy(f))
        except Exception as e:  # noqa: BLE001
            before = [{"name": ["<projection failed: %s>" % type(e).__name__], "cats": []}]
    else:
        f, before = build_cif(F), None
    text = f.serialize()
    if eq_out is not None:
        try:
            eq_out.extend(built_vs_reread(f, text))
        except Exception as e:  # noqa: BLE001
            eq_out.append("<%s>" % type(e).__name__)
    try:
        return {"oc": "ok", "f": project_cif(CIFFile.deserialize(text))}, text, before
    except Exception:  # noqa: BLE001  any exception of the reader is the outcome "err"
        return {"oc": "err", "f": []}, text, before


def built_vs_reread(f, text):
    """`==` between the constructed file f and what is read back from its text, at every level (file, block,
    category, column, data, mask), both ways, with nothing and with everything of the re-read file accessed
    before.  -> names of the comparisons that did not answer 'equal'."""
    from biotite.structure.io.pdbx import CIFFile

    bad = []

    def want(name, a, b):
        try:
            ok = (a == b) is True and (b == a) is True and (a != b) is False
        except Exception as e:  # noqa: BLE001
            ok = False
            name += ":" + type(e).__name__
        if not ok and name not in bad:
            bad.append(name)

    for access in ("lazy", "read"):
        g = CIFFile.deserialize(text)
        if access == "read":
            project_cif(g)
        h = copy.deepcopy(f)
        want("file:" + access, g, h)
        for bn in h:
            if bn not in g:
                bad.append("block-missing")
                continue
            want("block:" + access, g[bn], h[bn])
            for cn in h[bn]:
                if cn not in g[bn]:
                    bad.append("category-missing")
                    continue
                want("category:" + access, g[bn][cn], h[bn][cn])
                for k in h[bn][cn]:
                    if k not in g[bn][cn]:
                        bad.append("column-missing")
                        continue
                    a, b = g[bn][cn][k], h[bn][cn][k]
                    want("column:" + access, a, b)
                    want("data:" + access, a.data, b.data)
                    if a.mask is None or b.mask is None:
                        if not (a.mask is None and b.mask is None):
                            bad.append("mask-presence")
                    else:
                        want("mask:" + access, a.mask, b.mask)
    return bad


def _canon_file(f):
    """canonical form for comparisons (key order of the records is irrelevant)"""
    return json.dumps(f, sort_keys=True)


KB2FINDING = {"UnderscoreQuote": "C06-escape-underscore-quote",
              "HashAtLineStart": "C06-escape-line-start",
              "SemiAtLineStart": "C06-escape-line-start",
              "ReservedAtLineStart": "C06-escape-line-start",
              "TextFieldLine": "C06-text-field-lines",
              "BcifBlockDel": "C06-bcif-block-delitem",
              "StaleRowCount": "C06-stale-row-count",
              "BcifLstripKey": "C06-bcif-lstrip-key",
              "ReplCut": "C06-as-array-replacement-cut"}
KB_PRIORITY = ["ReservedAtLineStart", "SemiAtLineStart", "HashAtLineStart", "UnderscoreQuote",
               "TextFieldLine", "BcifBlockDel", "StaleRowCount", "BcifLstripKey", "ReplCut"]


def exec_text(item):
    """S2 child: a group of enumerated files."""
    from harness.tlabind.pool import progress

    mism = []
    n = 0
    neq = 0
    textdiff = 0
    kbmiss = 0
    for case in item["cases"]:
        F, kb, impl = case["F"], case["kb"], case["impl"]
        raw, how = case.get("raw") or None, case.get("how") or {}
        progress({"F": F, "how": how})
        eqbad = [] if (raw and case.get("eqd")) else None
        try:
            obs, text, before = roundtrip_cif(F, raw, how.get("mode", "ctor"), eqbad)
        except Exception as e:  # noqa: BLE001  a table of the domain in a documented form is refused
            if not raw:
                raise
            obs, text, before = {"oc": "err", "f": []}, "", [{"name": ["<%s>" % type(e).__name__], "cats": []}]
        n += 1
        neq += eqbad is not None
        if "txt" in case and tok(text) != case["txt"]:
            textdiff += 1
        bad = []
        # the table the object holds before it is written: the specification's StoredFile(raw) = F
        if before is not None and _canon_file(before) != _canon_file(F):
            bad.append("before")
        if _canon_file(obs) != _canon_file({"oc": "ok", "f": F}):
            bad.append("after")
        # the specification demands built == re-read at every level (eqd = EqDemanded(raw), table returned)
        if eqbad:
            bad.append("eq")
        if not bad:
            if kb:
                kbmiss += 1
            continue
        rec = {"kind": "text", "kb": kb, "bad": bad, "eqbad": eqbad or [], "eqd": bool(case.get("eqd")),
               "known_shape": bad == ["after"] and bool(kb) and _canon_file(obs) == _canon_file(impl),
               "F": F, "expected": {"oc": "ok", "f": F}, "observed": obs,
               "model_prediction": impl, "text": text}
        if raw:
            rec.update({"how": how, "raw": raw, "before": before})
        mism.append(rec)
    return {"mismatch": mism, "n": n, "textdiff": textdiff, "kbmiss": kbmiss, "neq": neq}


# --------------------------------------------------------------------------- read accessors: real side
def _acc_call(col, opt):
    """One accessor option of the specification (CifText.tla: IdealAccess) on a real column, projected."""
    dt, mv = opt["dt"], opt["mv"]
    try:
        if dt == "item":
            return [["s", tok(col.as_item())]]
        if dt == "str":
            arr = col.as_array(str, masked_value=untok(mv[0])) if mv else col.as_array(str)
            if arr.dtype.kind != "U":
                return ["<dtype %s>" % arr.dtype]
            return [["s", tok(x)] for x in arr.tolist()]
        arr = col.as_array(int if dt == "int" else float, masked_value=int(untok(mv[0])))
        if arr.dtype.kind != ("i" if dt == "int" else "f"):
            return ["<dtype %s>" % arr.dtype]
        return [["n", int(x)] if float(x).is_integer() else ["n", repr(x)] for x in arr.tolist()]
    except Exception as e:  # noqa: BLE001
        return ["<%s>" % type(e).__name__]


def _acc_file(cells):
    return [{"name": ["b"], "cats": [{"name": ["c"], "cols": [
        {"name": ["k"], "cells": cells}, {"name": ["l"], "cells": [{"m": 0, "v": ["x"]} for _ in cells]}]}]}]


def acc_observe(cells, opt):
    """The accessor on the column k that came back from a text round trip ("after") and on the column built
    from the plain texts ("built"); "frame": the table the re-read file holds after the accessor calls."""
    from biotite.structure.io.pdbx import CIFCategory, CIFFile

    F = _acc_file(cells)
    g = CIFFile.deserialize(build_cif(F).serialize())
    col = g["b"]["c"]["k"]
    after = _acc_call(col, opt)
    again = _acc_call(col, opt)
    texts = [untok(x["v"]) if x["m"] == 0 else (".", "?")[x["m"] - 1] for x in cells]
    built = _acc_call(CIFCategory({"k": texts})["k"], opt)
    return {"after": after, "again": again, "built": built, "frame": project_cif(g)}, F


def exec_acc(item):
    """S2 child: a group of enumerated (column, accessor option) cases."""
    from harness.tlabind.pool import progress

    mism = []
    n = 0
    for case in item["cases"]:
        progress({"cells": case["cells"], "opt": case["opt"]})
        obs, F = acc_observe(case["cells"], case["opt"])
        n += 1
        bad = [w for w in ("after", "again", "built") if obs[w] != case["exp"]]
        if _canon_file(obs["frame"]) != _canon_file(F):
            bad.append("frame")
        if bad:
            mism.append({"kind": "acc", "kb": case["kb"], "bad": bad, "cells": case["cells"], "opt": case["opt"],
                         "known_shape": bool(case["kb"]) and "frame" not in bad
                         and all(obs[w] in (case["exp"], case["impl"]) for w in ("after", "again", "built")),
                         "expected": case["exp"], "observed": obs, "model_prediction": case["impl"]})
    return {"mismatch": mism, "n": n,
            "kbmiss": sum(1 for c in item["cases"] if c["kb"]) - sum(1 for m in mism if m["kb"])}


# --------------------------------------------------------------------------- pairs of texts: real side
def _read_all(text):
    """What the real reader makes of a text, everything accessed: {"oc", "f"} as the reader model."""
    from biotite.structure.io.pdbx import CIFFile

    try:
        return {"oc": "ok", "f": project_cif(CIFFile.deserialize(text))}
    except Exception:  # noqa: BLE001
        return {"oc": "err", "f": []}


def _access(f, how, bn):
    """Prior access of a freshly parsed file (MCPairs: Access): nothing / the block (its categories
    stay text) / everything read."""
    if how == "block":
        f[bn]
    elif how == "all":
        project_cif(f)
    elif how != "none":
        raise AssertionError(how)


PAIR_LEVELS = (("file", ("none", "block", "all")), ("block", ("block", "all")), ("cat", ("block", "all")))


def pair_verdicts(left, right, level, al, ar, bn, cn):
    """Both texts parsed afresh, accessed as told, compared at the level: the answers of `==` (both
    ways, and again after the first comparison has parsed what it needed) and of `!=`."""
    from biotite.structure.io.pdbx import CIFFile

    try:
        lf, rf = CIFFile.deserialize(left), CIFFile.deserialize(right)
        _access(lf, al, bn)
        _access(rf, ar, bn)
        if level == "file":
            a, b = lf, rf
        elif level == "block":
            a, b = lf[bn], rf[bn]
        else:
            a, b = lf[bn][cn], rf[bn][cn]
        return ["eq" if x else "ne" for x in (bool(a == b), bool(b == a), not bool(a != b), bool(a == b))]
    except Exception as e:  # noqa: BLE001
        return ["raised:" + type(e).__name__]


def exec_pairs(item):
    """S2 child: a group of (left text, other texts) cases of MCPairs."""
    from harness.tlabind.pool import progress

    mism = []
    n = evals = readdiff = skipped = 0
    bn, cn = "b", "c"
    for case in item["cases"]:
        left = untok(case["txt"])
        progress({"st": case["st"], "left": left})
        n += 1
        # the verdicts are stated on what the reader model makes of the texts: they are demanded only
        # where the real reader makes the same of them (reading other writers' text is a diagnostic)
        if _canon_file(_read_all(left)) != _canon_file(case["rd"]):
            readdiff += 1
            continue
        for o in case["others"]:
            right = untok(o["txt"])
            if _canon_file(_read_all(right)) != _canon_file(o["rd"]):
                readdiff += 1
                continue
            for level, accs in PAIR_LEVELS:
                exp = o["eq"][level]
                if exp == "na":
                    skipped += 1
                    continue
                for al in accs:
                    for ar in accs:
                        if al not in case["acc"] or ar not in case["acc"]:
                            continue
                        got = pair_verdicts(left, right, level, al, ar, bn, cn)
                        evals += 1
                        if got != [exp] * 4:
                            mism.append({"kind": "pair", "kb": [], "level": level, "access": [al, ar],
                                         "other": o["id"], "st": case["st"], "left": left, "right": right,
                                         "expected": exp, "observed": got})
    return {"mismatch": mism, "n": n, "evals": evals, "readdiff": readdiff, "skipped": skipped}


# --------------------------------------------------------------------------- containers: real side
COLS = {"x": ["x"], "y": ["y"], "zz": ["p", "q"]}
CATLIT = {"C1": [["k1", "x"]], "C2": [["k2", "y"], ["k1", "x"]], "C3": [["k1", "zz"]],
          "C4": [["k3", "y"], ["k1", "zz"]]}
BLOCKLIT = {"B0": [], "B1": [["c1", "C1"]], "B2": [["c2", "C3"], ["c1", "C2"]],
            "B3": [["c3", "C1"], ["c2", "C1"], ["c1", "C3"]]}
FILELIT = {"F0": [], "F1": [["b1", "B1"]], "F2": [["b2", "B0"], ["b1", "B1"]],
           "F3": [["b1", "B2"], ["b3", "B1"]]}


def _cls(fl):
    import biotite.structure.io.pdbx as px

    if fl == "text":
        return px.CIFFile, px.CIFBlock, px.CIFCategory
    return px.BinaryCIFFile, px.BinaryCIFBlock, px.BinaryCIFCategory


def mk_col(fl, cid):
    """A fresh column object.  Binary columns get fully specified encodings, because equality of
    BinaryCIFData deliberately includes the encoding and serialize() fills unset parameters."""
    import numpy as np
    import biotite.structure.io.pdbx as px

    vals = COLS[cid]
    if fl == "text":
        return px.CIFColumn(px.CIFData(np.array(vals, dtype=str)))
    enc = px.StringArrayEncoding(strings=np.array(vals, dtype=str),
                                 data_encoding=[px.ByteArrayEncoding(px.TypeCode.INT32)],
                                 offset_encoding=[px.ByteArrayEncoding(px.TypeCode.INT32)])
    return px.BinaryCIFColumn(px.BinaryCIFData(np.array(vals, dtype=str), [enc]))


def mk_cat(fl, lit):
    return _cls(fl)[2]({k: mk_col(fl, v) for k, v in CATLIT[lit]})


def mk_block(fl, lit):
    return _cls(fl)[1]({k: mk_cat(fl, v) for k, v in BLOCKLIT[lit]})


def mk_file(fl, lit):
    return _cls(fl)[0]({k: mk_block(fl, v) for k, v in FILELIT[lit]})


def col_id(col):
    vals = col.as_array().tolist()
    for k, v in COLS.items():
        if v == vals:
            return k
    return "?" + repr(vals)


def proj_cat(cat):
    return [{"k": k, "v": col_id(cat[k])} for k in cat]


def proj_block(blk):
    return [{"k": k, "v": proj_cat(blk[k])} for k in blk]


def proj_file(f):
    return [{"k": k, "v": proj_block(f[k])} for k in f]


def project_map(f):
    """Content of the container, read from a deep copy so that the lazy state of the object under
    test is not disturbed by the observation."""
    try:
        return proj_file(copy.deepcopy(f))
    except Exception as e:  # noqa: BLE001
        return [{"k": "<projection failed: %s>" % type(e).__name__, "v": []}]


def lazy_shape(fl, f):
    """Diagnostic only: the internal parsed/serialised flags in the shape of the model's state."""
    out = []
    felems = f._blocks if fl == "text" else f._elements
    for bk, b in felems.items():
        if isinstance(b, (str, dict)):
            out.append([bk, True])
            continue
        cats = []
        belems = b._categories if fl == "text" else b._elements
        for ck, c in belems.items():
            ck = ck if fl == "text" else ck[1:]
            if isinstance(c, (str, dict)):
                cats.append([ck, True])
                continue
            celems = c._columns if fl == "text" else c._elements
            cats.append([ck, False, [] if c._row_count is None else [int(c._row_count)],
                         [[k, isinstance(v, dict)] for k, v in celems.items()]])
        out.append([bk, False, cats])
    return out


def model_lazy_shape(f):
    out = []
    for b in f:
        if b["lz"]:
            out.append([b["k"], True])
            continue
        cats = []
        for c in b["v"]:
            if c["lz"]:
                cats.append([c["k"], True])
            else:
                cats.append([c["k"], False, list(c["v"]["rc"]), [[e["k"], e["lz"]] for e in c["v"]["cols"]]])
        out.append([b["k"], False, cats])
    return out


def reload_file(fl, f):
    F, _B, _C = _cls(fl)
    if fl == "text":
        return F.deserialize(f.serialize())
    buf = io.BytesIO()
    f.write(buf)
    buf.seek(0)
    return F.read(buf)


EQ_SELF = ("self", "rev", "revkeys", "deeprev")
EQ_PROVS = ("fresh", "lazy", "read")


class NoOperand(Exception):
    """The lazily parsed operand of an equality call cannot be built: its content cannot be written."""


def _deeprev(cont, depth):
    """The same mapping with the keys inserted in the opposite order at every container level below."""
    keys = list(cont)
    vals = [cont[k] for k in keys]
    if depth > 1:
        vals = [_deeprev(v, depth - 1) for v in vals]
    return type(cont)(dict(zip(reversed(keys), reversed(vals))))


def eq_other(fl, cont, arg, mk_lit, level=0):
    """The other operand of an equality call (Containers.tla: EqOther, EqProvs).  arg = [kind, prov]:
    a literal, or a mapping derived from an independent copy of the container itself - "rev": the same
    key -> value pairs inserted in the opposite order, "revkeys": the keys in the opposite order over
    the values in their old positions, "deeprev": opposite insertion order at every level; prov
    "fresh": as built, "lazy": written and read back with nothing accessed, "read": written, read
    back and everything accessed.  level: 0 file, 1 block, 2 category."""
    kind = arg[0]
    prov = arg[1] if len(arg) > 1 else "fresh"
    if kind not in EQ_SELF:
        other = mk_lit(fl, kind)
    else:
        cp = copy.deepcopy(cont)
        if kind == "self":
            other = cp
        elif kind == "deeprev":
            other = _deeprev(cp, 3 - level)
        else:
            keys = list(cp)
            vals = [cp[k] for k in keys]
            if kind == "rev":
                other = type(cont)(dict(zip(reversed(keys), reversed(vals))))
            else:
                other = type(cont)(dict(zip(reversed(keys), vals)))
    if prov == "fresh":
        return other
    F, B, _C = _cls(fl)
    wrapped = other if level == 0 else F({"b1": other}) if level == 1 else F({"b1": B({"c1": other})})
    try:
        g = reload_file(fl, wrapped)
    except Exception as e:  # noqa: BLE001  the property does not name the class of the refusal
        raise NoOperand() from e
    if prov == "read":
        proj_file(g)
    elif prov != "lazy":
        raise AssertionError(prov)
    return g if level == 0 else g["b1"] if level == 1 else g["b1"]["c1"]


def observe_ser(fl, f):
    """Observation after every call (MCContainers: variable `ser`, Trace: field `ser`): an
    independent copy of the container is written and read back.  Caches inside the real objects
    that the history left behind (row counts, parsed / serialised elements) are copied with it, so
    they show here even if the next call of the path does not happen to serialise."""
    try:
        g = reload_file(fl, copy.deepcopy(f))
    except Exception:  # noqa: BLE001  the property does not name the class of the refusal
        return {"oc": "Rejected", "abs": []}
    try:
        return {"oc": "ok", "abs": proj_file(g)}
    except Exception as e:  # noqa: BLE001
        return {"oc": "ok", "abs": [{"k": "<projection failed: %s>" % type(e).__name__, "v": []}]}


def ser_agrees(obs, ser_ok, ab):
    """obs against the specification's value: serialisable (TLC: IdealSerializable) -> written, read
    back with the content `ab`; not serialisable -> refused."""
    return obs == {"oc": "ok", "abs": ab} if ser_ok else obs["oc"] == "Rejected"


def apply_map(fl, holder, pb, pc, op, a):
    """One mapping call on holder['f'].  Returns (oc, out)."""
    f = holder["f"]
    out = []
    try:
        if op == "FSet":
            f[a[0]] = mk_block(fl, a[1])
        elif op == "FSetWrong":
            f[a[0]] = mk_cat(fl, "C1")
        elif op == "FGet":
            out = proj_block(copy.deepcopy(f[a[0]]))
        elif op == "FDel":
            del f[a[0]]
        elif op == "FIter":
            out = list(iter(f))
        elif op == "FLen":
            out = len(f)
        elif op == "FContains":
            out = a[0] in f
        elif op == "FEq":
            other = eq_other(fl, f, a, mk_file, 0)
            out = bool(f == other)
            if bool(f != other) == out:
                out = "== and != agree"
        elif op == "Reload":
            holder["f"] = reload_file(fl, f)
        elif op == "Peek":
            out = proj_file(reload_file(fl, f))
        elif op[0] == "B":
            b = f[pb]
            if op == "BSet":
                b[a[0]] = mk_cat(fl, a[1])
            elif op == "BGet":
                out = proj_cat(copy.deepcopy(b[a[0]]))
            elif op == "BDel":
                del b[a[0]]
            elif op == "BIter":
                out = list(iter(b))
            elif op == "BLen":
                out = len(b)
            elif op == "BContains":
                out = a[0] in b
            elif op == "BEq":
                other = eq_other(fl, b, a, mk_block, 1)
                out = bool(b == other)
                if bool(b != other) == out:
                    out = "== and != agree"
            else:
                raise AssertionError(op)
        elif op[0] == "C":
            c = f[pb][pc]
            if op == "CSet":
                # a[2]: representation handed to __setitem__ (Containers.tla: ColForms)
                col = mk_col(fl, a[1])
                c[a[0]] = col if a[2] == "col" else col.data
            elif op == "CGet":
                out = col_id(c[a[0]])
            elif op == "CDel":
                del c[a[0]]
            elif op == "CIter":
                out = list(iter(c))
            elif op == "CLen":
                out = len(c)
            elif op == "CContains":
                out = a[0] in c
            elif op == "CEq":
                other = eq_other(fl, c, a, mk_cat, 2)
                out = bool(c == other)
                if bool(c != other) == out:
                    out = "== and != agree"
            else:
                raise AssertionError(op)
        else:
            raise AssertionError(op)
        return "ok", out
    except KeyError:
        return "KeyError", []
    except NoOperand:
        return "NoOperand", []
    except AssertionError:
        raise
    except Exception:  # noqa: BLE001  the property does not name the class of other refusals
        return "Rejected", []


NO_OUT = {"FSet", "FSetWrong", "FDel", "Reload", "BSet", "BDel", "CSet", "CDel"}


def repair_known(fl, holder, pb, pc, op, a, kb, exp_oc):
    """After a recorded defect was observed: bring the real object to the state the property
    demands, so that the rest of the path is still meaningful (the mismatch is already recorded).
    Returns False if the path has to stop."""
    from biotite.structure.io.pdbx.component import _HierarchicalContainer

    f = holder["f"]
    if "BcifBlockDel" in kb:
        if exp_oc == "ok":
            _HierarchicalContainer.__delitem__(f[pb], "_" + a[0])     # the proposed patch
        return True
    if "StaleRowCount" in kb:
        felems = f._blocks if fl == "text" else f._elements
        for b in felems.values():
            if isinstance(b, (str, dict)):
                continue
            for c in (b._categories if fl == "text" else b._elements).values():
                if not isinstance(c, (str, dict)):
                    c._row_count = None                               # the proposed patch
        oc, _out = apply_map(fl, holder, pb, pc, op, a)
        return oc == "ok"
    return False


_G = None


def _graph():
    global _G
    if _G is None:
        with open(os.environ["C06_GRAPH"]) as fh:
            _G = json.load(fh)
    return _G


def warmup():
    import biotite.structure.io.pdbx  # noqa: F401

    if "C06_GRAPH" in os.environ:
        _graph()


def exec_paths(item):
    """S2 child: replay a group of paths of the container state graph."""
    out = {"mismatch": [], "steps": 0, "flagdiff": 0}
    for p in item["paths"]:
        r = exec_path(p)
        out["mismatch"] += r["mismatch"]
        out["steps"] += r["steps"]
        out["flagdiff"] += r["flagdiff"]
    return out


def exec_path(item):
    """Replay one path of the container state graph."""
    from harness.tlabind.pool import progress

    G = _graph()
    states, labels = G["states"], G["labels"]
    st = states[item["init"]]
    fl = st["fl"]
    holder = {"f": _cls(fl)[0]()}
    mism = []
    nsteps = 0
    flagdiff = 0
    src = st
    for li, dst in item["steps"]:
        op, a = labels[li]
        exp = states[dst]
        progress({"fl": fl, "op": op, "a": a})
        nsteps += 1
        oc, out = apply_map(fl, holder, "b1", "c1", op, a)
        ab = project_map(holder["f"])
        bad = []
        if oc != exp["oc"]:
            bad.append("oc")
        if ab != exp["abs"]:
            bad.append("abs")
        if not bad and oc == "ok" and op not in NO_OUT and out != exp["out"]:
            bad.append("out")
        ser = None
        if not bad:
            ser = observe_ser(fl, holder["f"])
            if not ser_agrees(ser, exp["ser"], exp["abs"]):
                bad.append("ser")
        if bad:
            kb = exp["kb"]
            known_shape = bool(kb) and oc == "Rejected" and ab == src["abs"]
            mism.append({"kind": "step", "fl": fl, "op": op, "a": a, "bad": bad, "kb": kb,
                         "known_shape": known_shape,
                         "expected": {"oc": exp["oc"], "out": exp["out"], "abs": exp["abs"],
                                      "ser": "ok" if exp["ser"] else "Rejected"},
                         "observed": {"oc": oc, "out": out, "abs": ab, "ser": ser},
                         "path": [labels[x] for x, _ in item["steps"][:nsteps]]})
            if not (known_shape and repair_known(fl, holder, "b1", "c1", op, a, kb, exp["oc"])):
                break
            if project_map(holder["f"]) != exp["abs"]:
                break
        elif lazy_shape(fl, holder["f"]) != exp["lazy"]:
            flagdiff += 1
        src = exp
    return {"mismatch": mism, "steps": nsteps, "flagdiff": flagdiff}


# --------------------------------------------------------------------------- keys: real side
def exec_keys(item):
    """S2 child: key echo.  A container holding one element under `key` at `lvl`."""
    mism = []
    n = 0
    for case in item["cases"]:
        fl, lvl, key = case["fl"], case["lvl"], untok(case["key"])
        F, B, C = _cls(fl)
        n += 1
        try:
            cat = C({(key if lvl == "column" else "k1"): mk_col(fl, "x")})
            blk = B({(key if lvl == "category" else "c1"): cat})
            f = F({(key if lvl == "block" else "b1"): blk})

            def shown(ff):
                cont = ff if lvl == "block" else (ff[list(ff)[0]] if lvl == "category"
                                                 else ff[list(ff)[0]][list(ff[list(ff)[0]])[0]])
                return [tok(k) for k in cont]
            obs = {"before": shown(f), "after": shown(reload_file(fl, f))}
        except Exception as e:  # noqa: BLE001
            obs = {"before": ["<%s>" % type(e).__name__], "after": []}
        exp = {"before": [case["echo"]], "after": [case["echo"]]}
        if obs != exp:
            pred = {"before": [case["shown"]], "after": [case["shown"]]}
            mism.append({"kind": "key", "fl": fl, "lvl": lvl, "key": case["key"], "kb": case["kb"],
                         "known_shape": bool(case["kb"]) and obs == pred,
                         "expected": exp, "observed": obs})
    return {"mismatch": mism, "n": n}


# --------------------------------------------------------------------------- S3 generators
PLAIN = list("abcxyzABZ0189-+=/:,()*%@!~^&|<>{}") + ["rbr", "bs", "u1", "u2", "u3"]
AWK_WILD = ["sp", "sp", "tab", "sq", "sq", "dq", "us", "us", "hash", "semi", "dollar", "lbr", "nl", "nl",
            "dot", "qm", "data_", "loop_", "save_", "global_", "stop_"]
AWK_TAME = ["sp", "sp", "tab", "sq", "dq", "us", "dollar", "lbr", "dot", "qm", "save_", "global_", "stop_"]
NAME_AWK = ["us", "hash", "sq", "dq", "semi", "dollar", "lbr", "qm", "data_", "loop_"]


LEADERS = ["us", "hash", "semi", "dollar", "lbr", "rbr", "dot", "qm", "data_", "loop_", "save_", "global_", "stop_"]
FEATURES = ["sp", "tab", "sq", "dq"]


def _rand_combo(rng):
    """A value from the feature product of the quoting decision beyond the exhaustive bounds (MCText:
    FeatVals): a leader class, a random subset of the blank / quote characters in random order and
    multiplicity, ordinary characters in between."""
    body = []
    for t in FEATURES:
        if rng.random() < 0.5:
            body += [t] * rng.choice([1, 1, 2])
    body += [rng.choice(PLAIN) for _ in range(rng.choice([0, 1, 2, 3]))]
    if rng.random() < 0.1:
        body.append("nl")
    rng.shuffle(body)
    v = [rng.choice(LEADERS) if rng.random() < 0.8 else rng.choice(PLAIN)] + body
    # Dom_Value (CifText.tla): ';' occurs only as the leader, so never directly behind a line break;
    # a present value is not "." / "?"
    if v in (["dot"], ["qm"]):
        v.append("a")
    return v


def _rand_value(rng, profile):
    if profile == "combo":
        return _rand_combo(rng)
    awk = AWK_WILD if profile == "wild" else AWK_TAME
    n = rng.choice([0, 1, 1, 2, 2, 3, 3, 4, 5, 6, 8])
    v = []
    for _ in range(n):
        t = rng.choice(awk) if rng.random() < 0.45 else rng.choice(PLAIN)
        # Dom_Value (CifText.tla): no line break directly followed by ';', not "." / "?"
        if not (t == "semi" and v and v[-1] == "nl"):
            v.append(t)
    if v in (["dot"], ["qm"]):
        v.append("a")
    return v


def _rand_name(rng, used, awkward):
    while True:
        n = rng.randint(1, 5)
        v = [rng.choice(NAME_AWK) if (awkward and rng.random() < 0.3) else rng.choice("abckxyz019")
             for _ in range(n)]
        if used and rng.random() < 0.35:
            # a sibling related to a name that is already there: other letter case, a prefix, an extension
            o = list(rng.choice(sorted(used)))
            how = rng.choice(["case", "case", "prefix", "extend"])
            if how == "case":
                i = rng.randrange(len(o))
                v = o[:i] + [o[i].swapcase() if len(o[i]) == 1 else o[i]] + o[i + 1:]
            elif how == "prefix":
                v = o[:max(1, len(o) - 1)]
            else:
                v = o + [rng.choice("abkxAB01")]
        if tuple(v) not in used:
            used.add(tuple(v))
            return v


def _rand_file(rng, profile):
    ub = set()
    F = []
    awkward_names = rng.random() < 0.3
    for _b in range(rng.choice([1, 1, 2])):
        uc = set()
        cats = []
        for _c in range(rng.choice([1, 1, 2, 3])):
            rows = rng.choice([1, 1, 2, 3, 4])
            uk = set()
            cols = []
            for _k in range(rng.choice([1, 2, 2, 3, 4])):
                cells = []
                for _r in range(rows):
                    r = rng.random()
                    if r < 0.06:
                        cells.append({"m": 1, "v": []})
                    elif r < 0.12:
                        cells.append({"m": 2, "v": []})
                    elif r < 0.55:
                        cells.append({"m": 0, "v": [rng.choice(PLAIN) for _ in range(rng.randint(1, 4))]})
                    else:
                        cells.append({"m": 0, "v": _rand_value(rng, profile)})
                cols.append({"name": _rand_name(rng, uk, awkward_names), "cells": cells})
            cats.append({"name": _rand_name(rng, uc, awkward_names), "cols": cols})
        F.append({"name": _rand_name(rng, ub, awkward_names), "cats": cats})
    return F


NOMASK_FORMS = ["list", "array", "data", "col_list", "col_array", "col_data", "col_data_str",
                "array_wide", "array_view", "array_be", "data_wide", "data_view", "col_array_wide", "col_data_be"]
MASK_FORMS = ["col_list_mask", "col_array_mask", "col_data_mask", "col_data_listmask",
              "col_array_mask_i64", "col_data_mask_i64", "col_data_wide_mask_i64"]


def _rand_raw(rng, F):
    """A random way of handing the table F over (CifText.tla: RawCol): per column a form; with an
    explicit mask the text under a masked cell is arbitrary.  TLC checks StoredFile(raw) = F."""
    R = []
    for b in F:
        cats = []
        for c in b["cats"]:
            cols = []
            for col in c["cols"]:
                cells = col["cells"]
                one = len(cells) == 1
                if rng.random() < 0.55:
                    form = rng.choice(NOMASK_FORMS + (["item", "col_item"] if one else []))
                    vals = [x["v"] if x["m"] == 0 else (["dot"] if x["m"] == 1 else ["qm"]) for x in cells]
                    mask = []
                else:
                    form = rng.choice(MASK_FORMS + (["col_item_mask"] if one else []))
                    vals = [x["v"] if x["m"] == 0 else
                            rng.choice([["dot"], ["qm"], [], ["j", "sp", "sq"], [rng.choice(PLAIN)]]) for x in cells]
                    mask = [[x["m"] for x in cells]]
                cols.append({"name": col["name"], "form": form, "vals": vals, "mask": mask})
            cats.append({"name": c["name"], "cols": cols})
        R.append({"name": b["name"], "cats": cats})
    return R


def gen_text_trace(item):
    rng = random.Random(item["seed"])
    events = []
    for _ in range(item["n"]):
        F = _rand_file(rng, item["profile"])
        raw = _rand_raw(rng, F)
        mode = rng.choice(["ctor", "setitem", "topdown"])
        try:
            obs, text, before = roundtrip_cif(F, raw, mode)
        except Exception as e:  # noqa: BLE001  a table of the domain in a documented form is refused
            obs, text, before = {"oc": "err", "f": []}, "", [{"name": ["<%s>" % type(e).__name__], "cats": []}]
        events.append({"kind": "text", "F": F, "raw": raw, "mode": mode, "before": before, "obs": obs,
                       "txt": tok(text)})
    return {"events": events}


# --------------------------------------------------------------------------- S3: pairs of texts
_BARE_BAD = {"us", "hash", "dollar", "lbr", "rbr", "sq", "dq", "semi"} | set(RESERVED)


def _rand_render(rng, cell):
    """One cell in a randomly chosen quoting style.  Only a generator: whether the style is legal for
    the value is irrelevant, TLC judges what the reader model makes of the text."""
    if cell["m"] != 0:
        return ["dot"] if cell["m"] == 1 else ["qm"]
    v = cell["v"]
    styles = ["text"]
    if "nl" not in v:
        if "sq" not in v:
            styles += ["sq", "sq"]
        if "dq" not in v:
            styles += ["dq", "dq"]
        if v and v[0] not in _BARE_BAD and not ({"sp", "tab"} & set(v)) and v not in (["dot"], ["qm"]):
            styles += ["bare"] * 3
    if rng.random() < 0.05:
        styles = ["sq", "dq", "text"] + (["bare"] if v else [])
    st = rng.choice(styles)
    if st == "bare":
        return list(v)
    if st == "text":
        return ["nl", "semi"] + list(v) + ["nl", "semi", "nl"]
    return [st] + list(v) + [st]


def _rand_write(rng, F):
    """The file F in a random rendering (quoting styles, blank runs, one-row categories as loops,
    comment / empty lines, values on lines of their own); returns tokens."""
    out = []

    def sep():
        return rng.choice([["sp"]] * 4 + [["sp", "sp"]] * 3 + [["sp", "sp", "sp"]] * 2 + [["tab"]])

    def put(t, r):
        # append the rendering r of a value to the text t
        at_bol = not t or t[-1] == "nl"
        if r[0] == "nl":                       # a text field: opens on a line of its own, ends its line
            return t + (r[1:] if at_bol else r)
        return t + ([] if at_bol else sep()) + r
    for b in F:
        out += ["data_"] + b["name"] + ["nl"]
        for c in b["cats"]:
            if rng.random() < 0.4:
                out += ["hash"] + rng.choice([[], ["sp", "r"]]) + ["nl"]
            if rng.random() < 0.2:
                out += ["nl"]
            nrow = len(c["cols"][0]["cells"])
            split = rng.random() < 0.25
            if nrow == 1 and rng.random() < 0.7:
                for col in c["cols"]:
                    t = ["us"] + c["name"] + ["dot"] + col["name"]
                    if split:
                        t += ["nl"]
                    t = put(t, _rand_render(rng, col["cells"][0]))
                    if t[-1] != "nl":
                        t += ["nl"]
                    out += t
            else:
                out += ["loop_", "nl"]
                for col in c["cols"]:
                    out += ["us"] + c["name"] + ["dot"] + col["name"] + ["nl"]
                for i in range(nrow):
                    t = []
                    for col in c["cols"]:
                        t = put(t, _rand_render(rng, col["cells"][i]))
                        if split and t[-1] != "nl":
                            t += ["nl"]
                    if t[-1] != "nl":
                        t += ["nl"]
                    out += t
            if rng.random() < 0.4:
                out += ["hash", "nl"]
    return out


def _rand_change(rng, F):
    """A file that differs from F in one place, or the same mapping inserted in another order."""
    G = copy.deepcopy(F)
    b = rng.choice(G)
    c = rng.choice(b["cats"])
    col = rng.choice(c["cols"])
    how = rng.choice(["cell", "cell", "mask", "colrev", "catrev", "rowrev", "colkey", "dropcol"])
    if how == "cell":
        x = rng.choice(col["cells"])
        x["v"], x["m"] = (x["v"] + ["z"] if x["m"] == 0 else ["z"]), 0
    elif how == "mask":
        x = rng.choice(col["cells"])
        x["v"], x["m"] = [], (1 if x["m"] != 1 else 2)
    elif how == "colrev":
        c["cols"].reverse()
    elif how == "catrev":
        b["cats"].reverse()
        G.reverse()
    elif how == "rowrev":
        for k in c["cols"]:
            k["cells"].reverse()
    elif how == "colkey":
        col["name"] = col["name"] + ["9", "9", "9", "9", "9", "9"]
    elif how == "dropcol" and len(c["cols"]) > 1:
        c["cols"].remove(col)
    return G


def gen_pair_trace(item):
    """Two texts, what the real reader makes of each, and the answers of `==` between the two freshly
    parsed files for every pattern of prior access (Trace.tla: kind "pair")."""
    rng = random.Random(item["seed"])
    events = []
    for _ in range(item["n"]):
        F = _rand_file(rng, "tame")
        left = untok(_rand_write(rng, F))
        r = rng.random()
        if r < 0.4:
            right = untok(_rand_write(rng, F))
        elif r < 0.6:
            right = build_cif(F).serialize()
        elif r < 0.8:
            right = untok(_rand_write(rng, _rand_change(rng, F)))
        else:
            right = build_cif(_rand_change(rng, F)).serialize()
        bn, cn = untok(F[0]["name"]), untok(F[0]["cats"][0]["name"])
        eqs = []
        for level, accs in PAIR_LEVELS:
            for al in accs:
                for ar in accs:
                    got = pair_verdicts(left, right, level, al, ar, bn, cn)
                    eqs.append({"level": level, "al": al, "ar": ar, "got": sorted(set(got))})
        events.append({"kind": "pair", "left": tok(left), "right": tok(right), "bn": tok(bn), "cn": tok(cn),
                       "lrd": _read_all(left), "rrd": _read_all(right), "eqs": eqs})
    return {"events": events}


MAP_OPS = (["FSet"] * 3 + ["FGet", "FDel", "FIter", "FLen", "FContains", "FEq", "Reload", "Reload", "Peek", "Peek",
           "FSetWrong"] + ["BSet"] * 3 + ["BGet", "BDel", "BIter", "BLen", "BContains", "BEq"]
           + ["CSet"] * 4 + ["CGet", "CDel", "CDel", "CIter", "CLen", "CContains", "CEq"])


def gen_map_trace(item):
    from harness.tlabind.pool import progress

    rng = random.Random(item["seed"])
    fl = item["fl"]
    holder = {"f": _cls(fl)[0]()}
    bk, ck, kk = ["b1", "b2", "b3"], ["c1", "c2", "c3"], ["k1", "k2", "k3"]
    events = []
    for _ in range(item["length"]):
        op = rng.choice(MAP_OPS)
        pb, pc = rng.choice(bk[:2]), rng.choice(ck[:2])
        if op == "FSet":
            a = [rng.choice(bk), rng.choice(["B0", "B1", "B1", "B2", "B3"])]
        elif op == "FSetWrong":
            a = [rng.choice(bk)]
        elif op in ("FGet", "FDel", "FContains"):
            a = [rng.choice(bk)]
        elif op == "FEq":
            a = [rng.choice(["self", "rev", "revkeys", "deeprev", "deeprev", "F0", "F1", "F2", "F3"]),
                 rng.choice(EQ_PROVS)]
        elif op == "BSet":
            a = [rng.choice(ck), rng.choice(["C1", "C2", "C3", "C4"])]
        elif op in ("BGet", "BDel", "BContains"):
            a = [rng.choice(ck)]
        elif op == "BEq":
            a = [rng.choice(["self", "rev", "revkeys", "deeprev", "deeprev", "B0", "B1", "B2", "B3"]),
                 rng.choice(EQ_PROVS)]
        elif op == "CSet":
            a = [rng.choice(kk), rng.choice(["x", "y", "zz"]), rng.choice(["col", "data"])]
        elif op in ("CGet", "CDel", "CContains"):
            a = [rng.choice(kk)]
        elif op == "CEq":
            a = [rng.choice(["self", "rev", "revkeys", "deeprev", "C1", "C2", "C3", "C4"]), rng.choice(EQ_PROVS)]
        else:
            a = []
        progress({"fl": fl, "op": op, "a": a})
        oc, out = apply_map(fl, holder, pb, pc, op, a)
        ab = project_map(holder["f"])
        events.append({"kind": "map", "fl": fl, "pb": pb, "pc": pc, "op": op, "a": a, "oc": oc,
                       "out": out if (oc == "ok" and op not in NO_OUT) else [], "abs": ab,
                       "ser": observe_ser(fl, holder["f"])})
        if ab and str(ab[0]["k"]).startswith("<projection failed"):
            break
    return {"events": events}


# --------------------------------------------------------------------------- classification
def classify(mm):
    """A mismatch is a recorded finding only if a KB_* predicate of the specification holds for
    the input / call (evaluated by TLC) AND the observation has the recorded shape (equals what the
    implementation-shaped model / ApplyKB predicts)."""
    kind = mm.get("kind")
    kb = mm.get("kb") or []
    if not kb:
        return None
    if kind in ("text", "step", "key", "acc"):
        if not mm.get("known_shape"):
            return None
    elif kind in ("event-text", "event-map"):
        if not mm.get("tlc_known"):
            return None
    else:
        return None
    for k in KB_PRIORITY:
        if k in kb:
            return KB2FINDING[k]
    return None


# --------------------------------------------------------------------------- replay
def replay(record):
    kind = record.get("kind")
    if kind == "acc":
        obs, F = acc_observe(record["cells"], record["opt"])
        return {"observed": obs, "expected": record["expected"],
                "mismatch": any(obs[w] != record["expected"] for w in ("after", "again", "built"))
                or _canon_file(obs["frame"]) != _canon_file(F)}
    if kind in ("text", "event-text"):
        eqbad = [] if record.get("eqd") else None
        obs, text, before = roundtrip_cif(record["F"], record.get("raw"), (record.get("how") or {}).get("mode", "ctor"),
                                          eqbad)
        exp = {"oc": "ok", "f": record["F"]}
        return {"text": text, "observed": obs, "before": before, "expected": exp, "eqbad": eqbad,
                "mismatch": _canon_file(obs) != _canon_file(exp) or bool(eqbad)
                or (before is not None and _canon_file(before) != _canon_file(record["F"]))}
    if kind == "pair":
        got = pair_verdicts(record["left"], record["right"], record["level"], record["access"][0],
                            record["access"][1], record.get("bn", "b"), record.get("cn", "c"))
        return {"observed": got, "expected": record["expected"], "mismatch": set(got) != {record["expected"]}}
    if kind == "step":
        fl = record["fl"]
        holder = {"f": _cls(fl)[0]()}
        last = None
        for op, a in record["path"]:
            oc, out = apply_map(fl, holder, "b1", "c1", op, a)
            last = {"op": op, "a": a, "oc": oc, "out": out, "abs": project_map(holder["f"])}
        exp = record["expected"]
        last["ser"] = observe_ser(fl, holder["f"])
        return {"last": last, "expected": exp,
                "mismatch": last["oc"] != exp["oc"] or last["abs"] != exp["abs"]
                or ("out" in record.get("bad", ()) and last["out"] != exp["out"])
                or ("ser" in exp and not ser_agrees(last["ser"], exp["ser"] == "ok", exp["abs"]))}
    if kind == "event-map":
        fl = record["fl"]
        holder = {"f": _cls(fl)[0]()}
        last = None
        for e in record["history"]:
            oc, out = apply_map(fl, holder, e["pb"], e["pc"], e["op"], e["a"])
            last = {"op": e["op"], "a": e["a"], "oc": oc, "out": out, "abs": project_map(holder["f"])}
        exp = record["expected"]
        last["ser"] = observe_ser(fl, holder["f"])
        if "ser" in exp:      # the call itself agreed, the observation after it did not
            return {"last": last, "expected": exp,
                    "mismatch": not ser_agrees(last["ser"], exp["ser"] == "ok", exp["abs"])}
        return {"last": last, "expected": exp,
                "mismatch": last["oc"] != exp["oc"] or last["abs"] != exp["abs"]
                or (last["oc"] == "ok" and record["op"] not in NO_OUT and last["out"] != exp["out"])}
    if kind == "key":
        r = exec_keys({"cases": [{"fl": record["fl"], "lvl": record["lvl"], "key": record["key"],
                                  "echo": record["key"], "shown": record["key"], "kb": []}]})
        return {"result": r, "mismatch": bool(r["mismatch"])}
    return {"error": "record kind not replayable", "record": record}


# --------------------------------------------------------------------------- orchestration
def _vacuity(msg):
    from harness.tlabind.core import Vacuity

    raise Vacuity(msg)


def run(ctx):
    from harness.tlabind import dot, helpers, pool, tlc
    from harness.tlabind.tlaval import to_py

    quick = ctx.quick
    ctx.assumptions += [
        "Dom_Value: a value contains no line break directly followed by ';' (not expressible in CIF 1.1) and "
        "a present value is not '.' or '?' (biotite's CIFColumn infers the mask from these strings)",
        "Dom_Name: block/category/column names are non-empty and contain no blank and no '.'",
        "Dom_Category: at least one column, all columns of one length >= 1, unique names",
        "characters are the modelled classes (blank, tab, line break, both quotes, _ # ; $ [ . ?, the five "
        "reserved words) plus ordinary printable characters; other Unicode line/blank characters are not modelled",
        "binary literal columns carry fully specified encodings (BinaryCIFData equality includes the encoding "
        "and serialize() fills unset encoding parameters in place)",
        "container machine: keys b1,b2 / c1,c2 / k1,k2, nested calls through file['b1']['c1'], columns are "
        "three literals; larger key sets and other paths only through recorded histories",
        "construction forms: a column is handed over as str / list / ndarray / CIFData / CIFColumn of these, "
        "with or without an explicit mask (list / ndarray / CIFData); without a mask the texts '.' and '?' are "
        "the mask states (Dom_Value), under an explicit mask the text of a masked cell is irrelevant (Dom_Raw)",
        "pairs of texts: the answers demanded of `==` are computed from what the code-shaped READER MODEL makes "
        "of the two texts; a text that biotite did not write and on which the real reader and the model disagree "
        "is a diagnostic and comparisons with it are not judged (reading other writers' files is not part of "
        "the property); renderings: quoting style, blank runs (blank, three blanks, tab), one-row category as "
        "loop_, comment / empty lines, one value per line",
        "a lazily parsed operand of an equality call exists only if its content can be written (outcome "
        "NoOperand otherwise); it is produced by the library's own writer and reader",
        "S2 replays every transition of the state graph once (one history per model state); histories that "
        "the model merges into one state are told apart only by the write/read observation after every call",
        "read accessors (round 5): as_array(dtype, masked_value) with dtype str / int / float and as_item on the "
        "re-read column; a text replacement is a str (None = the placeholders), a number replacement an int; "
        "int / float only on columns whose present texts are digits and only with an explicit replacement "
        "(no placeholder exists for numbers: nothing is demanded of masked rows then)",
        "object equality built == re-read is demanded only where the raw column is the representation the reader "
        "produces (ReprExact: no explicit mask, or an explicit mask masking >= 1 cell with the placeholder texts "
        "under the masked cells) and the table is returned unchanged",
        "trusted: TLC, the TLA+ value parser, the token<->character map, copy.deepcopy for observation, numpy",
    ]
    ctx.cov["rule"] = ("non-trivial = text input that needs quoting or a text field or carries a mask / mapping "
                       "path or history with >= 2 state-changing calls / key with a leading underscore")

    # the two exhaustive TLC runs are independent: run them side by side (the state-graph dump of the
    # container machine needs a single worker)
    import threading
    import time

    d = tlc.scratch_dir("c06")
    dotf = os.path.join(d, "g.dot")
    ccfg = "MCC.cfg" if quick else "MCC_thorough.cfg"
    box = {}

    def map_s1():
        try:
            time.sleep(0.2)          # scratch directory names carry a millisecond stamp
            if quick:
                ctx.tlc("MCContainers", ccfg, stage="S1-map", dump_dot=dotf, workers=1, timeout=1200)
            else:
                ctx.tlc("MCContainers", ccfg, stage="S1-map", workers=6, timeout=2400)
                ctx.tlc("MCContainers", ccfg, stage="S1-map-graph", dump_dot=dotf, workers=1, timeout=3000,
                        count=False)
        except BaseException as e:  # noqa: BLE001  re-raised in the main thread
            box["err"] = e
    th = threading.Thread(target=map_s1)
    th.start()

    # ================================================================= text layer: S1 + S2
    cfg = "MC.cfg" if quick else "MC_thorough.cfg"
    try:
        res, states = helpers.dump_states(ctx, "MCText", cfg, stage="S1-text", workers=12, timeout=2400)
    except BaseException:
        th.join()
        raise
    done = [s for s in states if s["done"]]
    if not done or 2 * len(done) != res.distinct:
        raise RuntimeError(f"MCText: {len(done)} evaluated states of {res.distinct}")
    ctx.exhaustive = True
    kbcount = {}
    for s in done:
        for k in s["kb"]:
            kbcount[k] = kbcount.get(k, 0) + 1
    ctx.cov["text_inputs"] = len(done)
    ctx.cov["text_inputs_per_kb_class"] = kbcount
    ctx.cov["text_inputs_not_cif11_when_written_by_biotite"] = sum(1 for s in done if not s["gram"])
    # classes that are still expected among the enumerated files; UnderscoreQuote (repaired by
    # biotite 0540e6c2) and Hash/Semi/ReservedAtLineStart (repaired by biotite 090058e5) are empty in
    # CifText.tla now: such files must simply come back unchanged
    need = {"TextFieldLine"}
    if not need <= set(kbcount):
        _vacuity(f"recorded-defect classes never enumerated: {sorted(need - set(kbcount))}")
    if sum(1 for s in done if not s["kb"]) < len(done) // 4:
        _vacuity("too few enumerated files outside the recorded-defect classes")
    # the feature product (MCText: FeatVals) must really combine three features in one value
    lead = {"hash", "semi", "dollar", "lbr", "rbr", "data_", "loop_", "save_", "global_", "stop_"}
    nprod = sum(1 for s in done if any(x["m"] == 0 and x["v"] and x["v"][0] in lead and "sq" in x["v"] and "sp" in x["v"]
                                       for b in s["inp"] for c in b["cats"] for col in c["cols"] for x in col["cells"]))
    ctx.cov["text_inputs_leader_and_apostrophe_and_blank"] = nprod
    if nprod == 0:
        _vacuity("no enumerated value combines a leading special character, an apostrophe and a blank")
    # construction forms (MCText: FormInputs): every form of the configuration must have been enumerated,
    # with and without mask states in the table
    formseen = {}
    for s in done:
        if s["how"]["form"] != "auto":
            k = s["how"]["form"] + ":" + s["how"]["mode"]
            formseen[k] = formseen.get(k, 0) + 1
    ctx.cov["text_inputs_per_construction_form"] = dict(sorted(formseen.items()))
    need_forms = {"item", "list", "array", "data", "col_item", "col_list", "col_array", "col_data", "col_data_str",
                  "col_item_mask", "col_list_mask", "col_array_mask", "col_data_mask", "col_data_listmask",
                  "array_wide", "array_view", "array_be", "data_wide", "data_view", "col_array_wide", "col_data_be",
                  "col_array_mask_i64", "col_data_mask_i64", "col_data_wide_mask_i64"}
    if need_forms - {k.split(":")[0] for k in formseen}:
        _vacuity(f"construction forms never enumerated: {sorted(need_forms - {k.split(':')[0] for k in formseen})}")
    if not any(s["how"]["form"] in ("data", "col_data") and any(v in (["dot"], ["qm"]) for b in s["raw"] for c in b["cats"]
                                                                 for col in c["cols"] for v in col["vals"]) for s in done):
        _vacuity("no enumerated CIFData column carries a '.' / '?' text without an explicit mask")
    # equality built == re-read (MCText: eqd) must be demanded of forms with and without explicit mask
    eqseen = {}
    for s in done:
        if s["eqd"]:
            eqseen[s["how"]["form"]] = eqseen.get(s["how"]["form"], 0) + 1
    ctx.cov["text_inputs_equality_built_vs_reread_demanded_per_form"] = dict(sorted(eqseen.items()))
    for fo in ("array_wide", "array_view", "array_be", "data_wide", "col_data_be", "col_data_mask_i64", "list", "col_data"):
        if fo not in eqseen:
            _vacuity(f"equality between the built and the re-read file never demanded for the form {fo}")
    # sibling names (MCText: SibInputs): two keys of one mapping that differ only in letter case / are prefixes,
    # adjacent, at every level, one-row and looped
    def _sib(names):
        return any(a != b and (a.lower() == b.lower() or b.startswith(a))
                   for i, a in enumerate(names[:-1]) for b in names[i + 1:i + 2])
    sibseen = {"block": 0, "category:single": 0, "category:looped": 0, "column": 0}
    for s in done:
        F = s["inp"]
        if _sib([untok(b["name"]) for b in F]):
            sibseen["block"] += 1
        for b in F:
            cn = [untok(c["name"]) for c in b["cats"]]
            for i in range(len(cn) - 1):
                if cn[i] != cn[i + 1] and cn[i].lower() == cn[i + 1].lower():
                    rows = {len(b["cats"][j]["cols"][0]["cells"]) for j in (i, i + 1)}
                    sibseen["category:single" if rows == {1} else "category:looped"] += 1
            for c in b["cats"]:
                if _sib([untok(k["name"]) for k in c["cols"]]):
                    sibseen["column"] += 1
    ctx.cov["text_inputs_adjacent_sibling_names_case_or_prefix"] = sibseen
    if not all(sibseen.values()):
        _vacuity(f"sibling names differing only in case / by a prefix never adjacent at some level: {sibseen}")
    cases = [dict({"F": s["inp"], "kb": s["kb"], "impl": s["impl"]},
                  **({} if s["how"]["form"] == "auto" else {"how": s["how"], "raw": s["raw"], "eqd": s["eqd"]}))
             for s in done]
    ctx.rng.shuffle(cases)
    items = [{"cases": c} for c in helpers.chunked(cases, 100)]
    results = helpers.run_pool(ctx, "harness.drivers.c06:exec_text", items, stage="S2-text")
    n = sum(r.get("n", 0) for r in results)
    ctx.traces_validated += n
    ctx.evaluations += n
    ctx.cov["s2_text_roundtrips"] = n
    ctx.cov["s2_text_built_vs_reread_equalities"] = sum(r.get("neq", 0) for r in results)
    if ctx.cov["s2_text_built_vs_reread_equalities"] != sum(eqseen.values()):
        _vacuity("equality built == re-read not executed for every case that demands it")
    ctx.cov["s2_text_kb_not_reproduced"] = sum(r.get("kbmiss", 0) for r in results)
    ctx.nontrivial += sum(1 for s in done if _nontrivial_text(s["inp"]))
    for c in cases[:2]:
        ctx.sample({"s2_text_input": c["F"], "kb": c["kb"]})
    if ctx.cov["s2_text_kb_not_reproduced"]:
        ctx.note(f"{ctx.cov['s2_text_kb_not_reproduced']} enumerated files of a recorded-defect class were "
                 "returned unchanged by the real code (defect repaired?)")

    # ================================================================= read accessors: S1 + S2
    res, astates = helpers.dump_states(ctx, "MCAcc", "MCA.cfg" if quick else "MCA_thorough.cfg", stage="S1-acc",
                                       workers=4, timeout=900)
    adone = [s for s in astates if s["done"]]
    if not adone or 2 * len(adone) != res.distinct:
        raise RuntimeError(f"MCAcc: {len(adone)} evaluated states of {res.distinct}")
    accseen = {}
    for s in adone:
        masked = any(c["m"] for c in s["cells"])
        mv = s["opt"]["mv"]
        k = "%s:%s:%s" % (s["opt"]["dt"], "none" if not mv else ("empty" if mv[0] == [] else
                                                                "zero" if mv[0] == ["0"] else "other"),
                          "masked" if masked else "present")
        accseen[k] = accseen.get(k, 0) + 1
    ctx.cov["accessor_cases"] = dict(sorted(accseen.items()))
    for want in ("str:none:masked", "str:empty:masked", "str:zero:masked", "str:other:masked", "int:zero:masked",
                 "float:zero:masked", "int:other:masked", "item:none:masked", "item:none:present", "str:empty:present"):
        if want not in accseen:
            _vacuity(f"read accessors: case never enumerated: {want}")
    if not any(s["kb"] for s in adone) or sum(1 for s in adone if not s["kb"]) < len(adone) // 2:
        _vacuity("read accessors: recorded-defect class ReplCut empty or dominating")
    acases = [{k: s[k] for k in ("cells", "opt", "exp", "impl", "kb")} for s in adone]
    ctx.rng.shuffle(acases)
    ares = helpers.run_pool(ctx, "harness.drivers.c06:exec_acc", [{"cases": c} for c in helpers.chunked(acases, 100)],
                            stage="S2-acc")
    na = sum(r.get("n", 0) for r in ares)
    ctx.traces_validated += na
    ctx.evaluations += 3 * na
    ctx.nontrivial += sum(1 for s in adone if any(c["m"] for c in s["cells"]))
    ctx.cov["s2_accessor_cases"] = na
    ctx.cov["s2_accessor_kb_not_reproduced"] = sum(r.get("kbmiss", 0) for r in ares)
    if na != len(adone):
        _vacuity(f"read accessors: {na} of {len(adone)} cases executed")
    for c in acases[:1]:
        ctx.sample({"s2_accessor_case": c})

    # ================================================================= key echo: S1 + S2
    res, kstates = helpers.dump_states(ctx, "MCKeys", "MCKeys.cfg", stage="S1-keys", workers=4, timeout=300)
    kitems = [{"cases": c} for c in helpers.chunked(kstates, 60)]
    kres = helpers.run_pool(ctx, "harness.drivers.c06:exec_keys", kitems, stage="S2-keys")
    nk = sum(r.get("n", 0) for r in kres)
    ctx.traces_validated += nk
    ctx.evaluations += nk
    ctx.cov["s2_key_cases"] = nk
    ctx.nontrivial += sum(1 for s in kstates if s["key"][0] == "us")

    # ================================================================= pairs of texts: S1 + S2
    res, pstates = helpers.dump_states(ctx, "MCPairs", "MCP.cfg" if quick else "MCP_thorough.cfg", stage="S1-pairs",
                                       workers=12, timeout=2400)
    pdone = [s for s in pstates if s["done"]]
    if not pdone or 2 * len(pdone) != res.distinct:
        raise RuntimeError(f"MCPairs: {len(pdone)} evaluated states of {res.distinct}")
    understood = sum(1 for s in pdone if _canon_file(s["rd"]) == _canon_file({"oc": "ok", "f": s["inp"]}))
    ctx.cov["pair_cases"] = len(pdone)
    ctx.cov["pair_cases_rendering_read_as_the_table_by_the_reader_model"] = understood
    if 2 * understood < len(pdone):
        _vacuity(f"the reader model understands only {understood} of {len(pdone)} renderings")
    pseen = {}
    for s in pdone:
        for o in s["others"]:
            for lv in ("file", "block", "cat"):
                k = f"{lv}:{o['eq'][lv]}:{'same text' if o['txt'] == s['txt'] else 'other text'}"
                pseen[k] = pseen.get(k, 0) + 1
    ctx.cov["pair_demanded_answers"] = dict(sorted(pseen.items()))
    for lv in ("file", "block", "cat"):
        for want in (f"{lv}:eq:other text", f"{lv}:ne:other text", f"{lv}:eq:same text"):
            if want not in pseen:
                _vacuity(f"pairs of texts: answer never demanded: {want}")
    pcases = [{k: s[k] for k in ("st", "txt", "rd", "others", "acc")} for s in pdone]
    ctx.rng.shuffle(pcases)
    pres = helpers.run_pool(ctx, "harness.drivers.c06:exec_pairs", [{"cases": c} for c in helpers.chunked(pcases, 8)],
                            stage="S2-pairs", item_timeout=300)
    npairs = sum(r.get("n", 0) for r in pres)
    nev = sum(r.get("evals", 0) for r in pres)
    ctx.traces_validated += npairs
    ctx.evaluations += nev
    ctx.nontrivial += sum(1 for s in pdone if any(o["txt"] != s["txt"] and o["eq"]["file"] == "eq" for o in s["others"]))
    ctx.cov["s2_pair_cases"] = npairs
    ctx.cov["s2_pair_comparisons"] = nev
    ctx.cov["s2_pair_texts_reader_differs_from_model"] = sum(r.get("readdiff", 0) for r in pres)
    if ctx.cov["s2_pair_texts_reader_differs_from_model"]:
        ctx.note(f"diagnostic: the real reader and the reader model disagree on "
                 f"{ctx.cov['s2_pair_texts_reader_differs_from_model']} renderings that biotite did not write "
                 "(comparisons with them are not judged)")
    if nev < 20 * len(pdone):
        _vacuity(f"pairs of texts: only {nev} comparisons executed for {len(pdone)} cases")
    for c in pcases[:1]:
        ctx.sample({"s2_pair_case": {"st": c["st"], "left": untok(c["txt"]),
                                     "others": [[o["id"], o["eq"]] for o in c["others"]]}})

    # ================================================================= containers: S1 + S2
    th.join()
    if "err" in box:
        raise box["err"]
    g = dot.load(dotf)
    if not g.edges:
        raise RuntimeError("empty container state graph")
    labels, lab_ix, ops_seen = [], {}, {}
    for (_s, lab, _d) in g.edges:
        if lab not in lab_ix:
            _name, args = dot.parse_label(lab)
            c = to_py(args[0])
            lab_ix[lab] = len(labels)
            labels.append([c[0], c[1]])
        o = labels[lab_ix[lab]][0]
        ops_seen[o] = ops_seen.get(o, 0) + 1
    need_ops = {"FSet", "FSetWrong", "FGet", "FDel", "FIter", "FLen", "FContains", "FEq", "Reload", "Peek",
                "BSet", "BGet", "BDel", "BIter", "BLen", "BContains", "BEq",
                "CSet", "CGet", "CDel", "CIter", "CLen", "CContains", "CEq"}
    if need_ops - set(ops_seen):
        _vacuity(f"calls never taken in the state graph: {sorted(need_ops - set(ops_seen))}")
    ctx.cov["map_transitions_per_op"] = ops_seen
    ids = {nid: k for k, nid in enumerate(g.state_text)}
    jstates = [None] * len(ids)
    seen_oc, seen_kb, lazy_states = {}, {}, 0
    for nid, k in ids.items():
        st = g.state(nid)
        f = to_py(st["f"])
        jstates[k] = {"fl": st["fl"], "oc": st["oc"], "out": to_py(st["out"]), "kb": to_py(st["kb"]),
                      "abs": _abs_file(f), "lazy": model_lazy_shape(f), "ser": _tla_bool(st["ser"]), "lazyf": f}
        seen_oc[st["oc"]] = seen_oc.get(st["oc"], 0) + 1
        for x in jstates[k]["kb"]:
            seen_kb[(st["fl"], x)] = seen_kb.get((st["fl"], x), 0) + 1
        if any(b["lz"] or any(c["lz"] for c in b["v"]) for b in f):
            lazy_states += 1
    ctx.cov["map_states_per_outcome"] = seen_oc
    # equality against operands derived from the container itself: both answers must occur for the
    # re-ordered operands at every level, and the write/read observation must have both outcomes
    eqseen = {}
    for (_s, lab, dd) in g.edges:
        o, a = labels[lab_ix[lab]]
        if o in ("FEq", "BEq", "CEq") and a[0] in EQ_SELF:
            jd = jstates[ids[dd]]
            key = f"{o}:{a[0]}:{a[1]}:{jd['out'] if jd['oc'] == 'ok' else jd['oc']}"
            eqseen[key] = eqseen.get(key, 0) + 1
    ctx.cov["map_eq_derived_operand_transitions"] = dict(sorted(eqseen.items()))
    for o in ("FEq", "BEq", "CEq"):
        for want in (f"{o}:rev:fresh:True", f"{o}:revkeys:fresh:True", f"{o}:revkeys:fresh:False",
                     f"{o}:self:lazy:True", f"{o}:deeprev:lazy:True", f"{o}:deeprev:read:True",
                     f"{o}:revkeys:lazy:False", f"{o}:deeprev:lazy:NoOperand"):
            if want not in eqseen:
                _vacuity(f"equality with a derived operand never evaluated to this answer: {want}")
    # a lazily parsed operand with another serialised form, against a container that still has serialised
    # elements itself (both operands of `==` unparsed, texts / encodings differ, contents equal)
    nboth = sum(1 for (sr, lab, dd) in g.edges
                if labels[lab_ix[lab]][0] in ("FEq", "BEq") and labels[lab_ix[lab]][1][:2] == ["deeprev", "lazy"]
                and jstates[ids[dd]]["oc"] == "ok" and _has_lazy_multicol(jstates[ids[sr]]["lazyf"]))
    ctx.cov["map_eq_both_operands_serialised_other_order"] = nboth
    if nboth == 0:
        _vacuity("no equality call with both operands still serialised and a re-ordered multi-column category")
    serseen = {}
    for st in jstates:
        serseen[str(st["ser"])] = serseen.get(str(st["ser"]), 0) + 1
    ctx.cov["map_states_per_write_observation"] = serseen
    if set(serseen) != {"True", "False"}:
        _vacuity(f"write/read observation has one outcome only: {serseen}")
    ctx.cov["map_states_with_serialised_elements"] = lazy_states
    ctx.cov["map_states_per_kb"] = {f"{a}:{b}": n for (a, b), n in sorted(seen_kb.items())}
    if not {"ok", "KeyError", "Rejected", "NoOperand"} <= set(seen_oc):
        _vacuity(f"outcomes not all reached: {seen_oc}")
    # BcifBlockDel (repaired by biotite 08201441) and StaleRowCount (repaired by biotite c2b1fbb3) are no
    # longer tagged by Containers.tla: no recorded-defect transition is expected in the state graph
    for want in ():
        if want not in seen_kb:
            _vacuity(f"recorded-defect transition never reached: {want}")
    if lazy_states == 0:
        _vacuity("no state with serialised (lazy) elements")
    limit = 30000 if quick else None
    paths, covered = dot.covering_paths(g, max_len=10, limit=limit, rng=ctx.rng)
    gfile = os.path.join(d, "graph.json")
    for st in jstates:
        st.pop("lazyf")
    with open(gfile, "w") as fh:
        json.dump({"states": jstates, "labels": labels}, fh)
    pitems = [{"init": ids[root], "steps": [[lab_ix[lab], ids[dst]] for lab, dst in steps]}
              for root, steps in paths]
    ctx.log(f"S2-map: {len(pitems)} paths covering {covered}/{len(g.edges)} transitions")
    groups = [{"paths": c} for c in helpers.chunked(pitems, 40)]
    gres = pool.run_isolated("harness.drivers.c06:exec_paths", groups, env={"C06_GRAPH": gfile},
                             item_timeout=120)
    presults = []
    for grp, r in zip(groups, gres):
        if r is not None and "crash" in r:
            # a native crash costs the whole group: run its paths one by one to find the culprit
            single = pool.run_isolated("harness.drivers.c06:exec_path", grp["paths"],
                                       env={"C06_GRAPH": gfile}, item_timeout=30)
            for it, r1 in zip(grp["paths"], single):
                if r1 is not None and "crash" in r1:
                    r1["progress"] = dict(r1.get("progress") or {}, path=[labels[x] for x, _ in it["steps"]])
            ctx.check_results(single, grp["paths"], "S2-map")
            presults += single
        else:
            ctx.check_results([r], [grp], "S2-map")
            presults.append(r)
    steps = sum((r or {}).get("steps", 0) for r in presults)
    ctx.traces_validated += len(pitems)
    ctx.evaluations += steps
    ctx.cov["s2_map_paths"] = len(pitems)
    ctx.cov["s2_map_steps_executed"] = steps
    ctx.cov["s2_map_transitions_covered"] = covered
    ctx.cov["s2_map_transitions_total"] = len(g.edges)
    fd = sum((r or {}).get("flagdiff", 0) for r in presults)
    ctx.cov["s2_map_lazy_state_differs_from_model"] = fd
    if fd:
        ctx.note(f"diagnostic: in {fd} of {steps} replayed steps the parsed/serialised flags or cached row "
                 "counts inside the real objects differ from the model's (content and outcomes agree)")
    ctx.nontrivial += sum(1 for it in pitems
                          if sum(1 for li, _ in it["steps"] if labels[li][0] in NO_OUT) >= 2)
    for root, stp in paths[:2]:
        ctx.sample({"s2_map_path": [labels[lab_ix[lab]] for lab, _ in stp]})

    # ================================================================= S3
    ntext = 18 if quick else 252
    per = 20 if quick else 30
    titems = [{"seed": ctx.rng.randrange(1 << 30), "n": per, "profile": ("tame", "wild", "combo")[k % 3]}
              for k in range(ntext)]
    nmap = 60 if quick else 600
    mitems = [{"seed": ctx.rng.randrange(1 << 30), "length": 30 if quick else 40,
               "fl": "text" if k % 2 else "binary"} for k in range(nmap)]
    qitems = [{"seed": ctx.rng.randrange(1 << 30), "n": 8 if quick else 12} for _ in range(12 if quick else 100)]
    traces = []
    for target, its in (("harness.drivers.c06:gen_text_trace", titems),
                        ("harness.drivers.c06:gen_pair_trace", qitems),
                        ("harness.drivers.c06:gen_map_trace", mitems)):
        for it, r in zip(its, pool.run_isolated(target, its, item_timeout=120)):
            if "driver_error" in r:
                raise RuntimeError(f"S3 driver error: {r['driver_error']}\n{r.get('tb', '')}")
            if "crash" in r:
                ctx.mismatch({"stage": "S3", "kind": "crash", "signal": r["crash"],
                              "progress": r.get("progress"), "item": it})
            elif r["events"]:
                traces.append(r["events"])
    clean = validate_traces(ctx, traces)
    # binding self-test on traces without any disagreement: corrupt one observation each
    picked = [traces[i] for i in clean if traces[i][0]["kind"] == "text"][:2] + \
             [traces[i] for i in clean if traces[i][0]["kind"] == "map"][:2] + \
             [traces[i] for i in clean if traces[i][0]["kind"] == "pair"][:1]

    ncorr = [0]

    def corrupt(tr):
        ncorr[0] += 1
        if tr[0]["kind"] == "map" and ncorr[0] % 2 == 0:
            # the write/read observation: claim the opposite outcome
            for e in tr:
                if e["oc"] == "ok":
                    e["ser"] = {"oc": "Rejected", "abs": []} if e["ser"]["oc"] == "ok" else \
                        {"oc": "ok", "abs": e["abs"]}
                    return True
        if tr[0]["kind"] == "text" and ncorr[0] % 2 == 1 and tr[0]["before"] and tr[0]["before"][0]["cats"]:
            # the table held before writing: claim another mask state
            c = tr[0]["before"][0]["cats"][0]["cols"][0]["cells"][0]
            c["m"], c["v"] = (1 if c["m"] != 1 else 2), []
            return True
        for e in tr:
            if e["kind"] == "pair":
                # claim the opposite answer of a comparison that TLC judges
                for q in e["eqs"]:
                    if q["got"] in (["eq"], ["ne"]):
                        q["got"] = ["ne"] if q["got"] == ["eq"] else ["eq"]
                if e["lrd"]["oc"] == "ok" and e["rrd"]["oc"] == "ok":
                    return True
                continue
            if e["kind"] == "text" and e["obs"]["oc"] == "ok":
                c = e["obs"]["f"][0]["cats"][0]["cols"][0]["cells"][0]
                c["v"] = c["v"] + ["x"] if c["m"] == 0 else ["x"]
                c["m"] = 0
                return True
            if e["kind"] == "map" and e["op"] in ("FLen", "BLen", "CLen") and e["oc"] == "ok":
                e["out"] = e["out"] + 1
                return True
            if e["kind"] == "map" and e["op"] in ("FSet", "BSet", "CSet") and e["oc"] == "ok" and e["abs"]:
                e["abs"] = e["abs"][1:]
                return True
        return False
    if picked:
        helpers.binding_selftest(ctx, picked, corrupt, max_traces=5)
    else:
        ctx.note("binding self-test skipped: no trace without disagreement")


def _has_lazy_multicol(f):
    """model state: some category with >= 2 columns is still serialised (in a serialised or parsed block)"""
    return any(len(c["v"]["cols"]) >= 2 and (b["lz"] or c["lz"]) for b in f for c in b["v"])


def _tla_bool(v):
    if v is True or v == "TRUE":
        return True
    if v is False or v == "FALSE":
        return False
    raise RuntimeError(f"not a boolean: {v!r}")


def _abs_file(f):
    return [{"k": b["k"], "v": [{"k": c["k"], "v": [{"k": e["k"], "v": e["v"]} for e in c["v"]["cols"]]}
                                for c in b["v"]]} for b in f]


def _nontrivial_text(F):
    special = {"sp", "tab", "nl", "sq", "dq", "us", "hash", "semi", "dollar", "lbr", "data_", "loop_",
               "save_", "global_", "stop_"}
    for b in F:
        for c in b["cats"]:
            for col in c["cols"]:
                for x in col["cells"]:
                    if x["m"] != 0 or not x["v"] or special & set(x["v"]):
                        return True
    return False


def validate_traces(ctx, traces):
    """TLC re-computes every recorded event.  Returns indices of traces without disagreement."""
    from harness.tlabind import helpers, tlc

    if not traces:
        return []
    d = tlc.scratch_dir("c06tr")
    tf = os.path.join(d, "traces.json")
    with open(tf, "w") as fh:
        json.dump(traces, fh)
    res = ctx.tlc("Trace", "Trace.cfg", stage="S3", workers=1, env={"TRACE_FILE": tf}, timeout=1500)
    expect = sum(len(t) + 1 for t in traces)
    if res.distinct != expect:
        raise RuntimeError(f"C06 S3: trace validation visited {res.distinct} states, expected {expect}")
    from harness.tlabind.tlaval import parse_value, to_py

    def vals(tag, per_event=True):
        # TLC may evaluate a PrintT more than once: one value per event (or per distinct value)
        seen, out = set(), []
        for txt in tlc.printed_values(res.out, tag):
            v = to_py(parse_value(txt))
            key = (v[1], v[2]) if per_event else txt
            if key not in seen:
                seen.add(key)
                out.append(v)
        return out
    notdom = vals("NOTDOM")
    if notdom:
        raise RuntimeError(f"C06 S3: generator left the domain in {len(notdom)} events, e.g. {notdom[0]}")
    nev = sum(len(t) for t in traces)
    ctx.traces_validated += len(traces)
    ctx.evaluations += nev
    ctx.cov["s3_traces"] = len(traces)
    ctx.cov["s3_events"] = nev
    ctx.cov["s3_text_events"] = sum(len(t) for t in traces if t[0]["kind"] == "text")
    ctx.cov["s3_map_events"] = sum(len(t) for t in traces if t[0]["kind"] == "map")
    ctx.cov["s3_pair_events"] = sum(len(t) for t in traces if t[0]["kind"] == "pair")
    ctx.cov["s3_pair_events_reader_differs_from_model"] = len(vals("READDIFF"))
    ctx.cov["s3_pair_answers_judged"] = sum(v[3] for v in vals("PAIRS"))
    if ctx.cov["s3_pair_events_reader_differs_from_model"]:
        ctx.note(f"diagnostic: in {ctx.cov['s3_pair_events_reader_differs_from_model']} pair events the real reader "
                 "and the reader model disagree on a text that biotite did not write (event not judged)")
    if ctx.cov["s3_pair_events"] and ctx.cov["s3_pair_answers_judged"] < 4 * ctx.cov["s3_pair_events"]:
        _vacuity(f"pair events: only {ctx.cov['s3_pair_answers_judged']} answers judged in "
                 f"{ctx.cov['s3_pair_events']} events")
    ctx.cov["s3_text_differs_from_writer_model"] = len(vals("TEXTDIFF"))
    ctx.cov["s3_kb_not_reproduced"] = len(vals("KBMISS"))
    if ctx.cov["s3_text_differs_from_writer_model"]:
        ctx.note(f"diagnostic: biotite's text differs from ImplSerializeFile in "
                 f"{ctx.cov['s3_text_differs_from_writer_model']} recorded events")
    ctx.nontrivial += sum(1 for t in traces if t[0]["kind"] == "map"
                          and sum(1 for e in t if e["oc"] == "ok" and e["op"] in NO_OUT) >= 2)
    ctx.nontrivial += sum(1 for t in traces if t[0]["kind"] == "text" for e in t if _nontrivial_text(e["F"]))
    ctx.sample({"s3_text_event": {k: traces[0][0][k] for k in ("F", "obs")}} if traces[0][0]["kind"] == "text"
               else {"s3_events": traces[0][:2]})
    dirty = set()
    for v in vals("READDIFF"):
        dirty.add(v[1] - 1)      # an event that is not judged: the trace is no material for the binding self-test
    for v in vals("MISMATCH", per_event=False):
        tid, l, verdict, kb = v[1], v[2], v[3], v[4]
        dirty.add(tid - 1)
        e = traces[tid - 1][l - 1]
        if e["kind"] == "pair":
            q = e["eqs"][v[6] - 1]
            ctx.mismatch({"stage": "S3", "kind": "pair", "tlc_known": False, "kb": [], "level": q["level"],
                          "access": [q["al"], q["ar"]], "left": untok(e["left"]), "right": untok(e["right"]),
                          "bn": untok(e["bn"]), "cn": untok(e["cn"]),
                          "expected": v[7], "observed": q["got"], "trace": tid, "event": l})
        elif e["kind"] == "text" and v[5] == "before":
            # the table held by the built object differs from the table that was handed over
            ctx.mismatch({"stage": "S3", "kind": "event-text", "tlc_known": False, "kb": [], "bad": ["before"],
                          "F": e["F"], "raw": e["raw"], "how": {"mode": e["mode"]},
                          "expected": {"oc": "ok", "f": e["F"]}, "observed": e["obs"], "before": e["before"],
                          "trace": tid, "event": l})
        elif e["kind"] == "text":
            ctx.mismatch({"stage": "S3", "kind": "event-text", "tlc_known": verdict == "known", "kb": kb,
                          "F": e["F"], "raw": e["raw"], "how": {"mode": e["mode"]}, "bad": ["after"],
                          "expected": {"oc": "ok", "f": e["F"]}, "observed": e["obs"],
                          "model_prediction_oc": v[5], "trace": tid, "event": l})
        elif v[5] == "ser":
            # the call agreed with the specification, the write/read observation after it did not
            ctx.mismatch({"stage": "S3", "kind": "event-map", "tlc_known": False, "kb": [], "bad": ["ser"],
                          "fl": e["fl"], "op": e["op"], "a": e["a"], "pb": e["pb"], "pc": e["pc"],
                          "expected": {"oc": e["oc"], "abs": v[6], "ser": "ok" if v[7] else "Rejected"},
                          "observed": {"oc": e["oc"], "abs": e["abs"], "ser": e["ser"]},
                          "history": [{k: x[k] for k in ("pb", "pc", "op", "a")} for x in traces[tid - 1][:l]],
                          "trace": tid, "event": l})
        else:
            ctx.mismatch({"stage": "S3", "kind": "event-map", "tlc_known": verdict == "known", "kb": kb,
                          "fl": e["fl"], "op": e["op"], "a": e["a"], "pb": e["pb"], "pc": e["pc"],
                          "expected": {"oc": v[5], "abs": v[6], "out": v[7]},
                          "observed": {"oc": e["oc"], "abs": e["abs"], "out": e["out"]},
                          "history": [{k: x[k] for k in ("pb", "pc", "op", "a")} for x in traces[tid - 1][:l]],
                          "trace": tid, "event": l})
    return [i for i in range(len(traces)) if i not in dirty]


MANIFEST = {
    "technique": "TLA+ specifications of the CIF text writer/reader (operator per function of cif.py, CIF 1.1 reference grammar) and of the lazy three-level containers (specs/C06), model-checked by TLC; every enumerated file round-tripped through the real CIFFile, every construction form of a column and every pair of renderings of a table executed, every transition of the container state graph replayed on real text and binary containers, recorded random files, pairs of randomly rendered texts and mapping histories re-computed by TLC",
    "level_text": "TLC enumerates every file built from one awkward value (all strings of <=2 tokens over 18 character classes incl. the reserved words, <=3 over a reduced alphabet, and the feature product of the quoting decision: every leading character class x every subset of {blank, tab, apostrophe, double quote} in both orders) at 12 table positions (one-row, looped, first/other column, after a text field, next to mask cells, sandwiched between other categories and blocks) plus awkward block/category/column names, and checks that the code-shaped reader/writer model loses a table exactly in the recorded-defect classes, that a CIF 1.1 codec exists for every input, and that biotite's output is CIF 1.1 exactly outside the listed classes; each file is then written and read by the real CIFFile and compared cell by cell (values, order, masks). The container machine (2 flavours x 24 calls, keys b1,b2/c1,c2/k1,k2, parsed and serialised elements, cached row counts) is explored exhaustively to a bounded depth, Impl is checked to refine a plain dictionary, and every transition is replayed on real CIFFile and BinaryCIFFile objects (content, outcome, returned value; observation through a deep copy; after every call an independent copy is written and read back and compared with the specification's serialisability and content, so that caches left behind by the history show). Equality is called with literals and with operands derived from the container itself (copy, same mapping in reverse insertion order at the top or at every level, keys reversed over the values in place), each freshly built, written and read back with nothing accessed, or read back and fully accessed; columns are assigned as column objects and as data objects. Construction forms: every table of a family with mask states next to values that look like the mask strings is handed over in every documented form (str, list, ndarray, CIFData, CIFColumn of each, explicit masks as list / ndarray / CIFData with three kinds of text under the masked cells) through constructor dictionaries and through assignment; the table held before writing and the table read back are both compared with the specification's stored table. Pairs of texts: every file of a family is rendered in every style of a product (quoting preference x one-row category as loop x blank run x comment lines x one value per line; TLC certifies with the CIF 1.1 reference reader that each rendering denotes the table) and compared, parsed by the real reader, with renderings of the same table (biotite's own text, the opposite style, the same text, other insertion orders) and of tables that differ in one cell / mask state / row order / column name / other category / other block, at file, block and category level, for every pattern of prior access of the two operands (none, block, everything). (Round 5) Sibling names: every ordered pair of distinct names over a letter and its capital (differing only in case, prefixes of one another) as two blocks / categories / columns, adjacent or apart, one-row and looped. The construction forms also vary the NumPy representation (wider item size, strided view, byte order, 64-bit mask integers), and wherever the raw columns are the representation the reader produces the constructed file must equal the re-read file at file / block / category / column / data / mask level, both ways, lazily and after full access. Read accessors: every column of <=2 (thorough 3) cells over texts, empty string and both mask states is read back and as_array (dtype str / int / float, masked_value None / empty / 0 / short / longer than the stored texts) and as_item are compared with the specification. Random files up to 4x4 with values up to 8 characters and mapping histories of 30-40 calls over 3 keys per level are recorded and re-computed by TLC event by event.",
    "level_note": "Bounded: exhaustive only for one awkward value of <=3 tokens per file and container histories of <=4 (thorough 5) calls; pairs of texts: one awkward value per file, 24 (thorough 120) renderings, answers demanded only where the real reader and the reader model make the same of both texts; longer values, several awkward values per table and longer histories only through recorded runs. Characters are abstracted to the modelled classes; Unicode blanks / line separators other than space, tab and line feed are not modelled. Values containing a line break directly followed by ';' and present values equal to '.' or '?' are outside the domain (not expressible). Conformance of biotite's text to CIF 1.1 and of other writers' legal CIF to biotite's reader is reported as a diagnostic only. Recorded defects are accepted only in their exact predicted shape. Trusted: TLC, the TLA+ value parser, the token<->character map, copy.deepcopy, numpy, msgpack.",
}
