"""X07 — substitution matrices and alphabet mappers are faithful tables.

S1  TLC checks specs/X07/SubstMatrix.tla (every single call of the bounded universe: array in =
    scores out by code and by symbol, dictionary <-> array, is_symmetric as coded = as
    documented, transpose involution, str() parses back, every decoration style of a text
    denotes the same dictionary, positional matrices agree, AlphabetMapper table as coded = as
    documented, common_alphabet fold = declarative) and specs/X07/MatrixSession.tla (histories:
    the matrix object never follows the caller's array, writes through score_matrix() are refused).
S2  every (case, result) pair dumped by TLC is executed against the real classes under every
    applicable symbol form (LetterAlphabet, Alphabet of str / int / tuple symbols; array dtypes,
    dict value types, code array types); every transition of the session graph is replayed.
S3  seeded random histories (bigger alphabets, wide scores, random text decoration, alphabets
    beyond 256 symbols, the database files, the cached default matrices) and the calls made by
    the repository's own tests are recorded and re-computed event by event by TLC (Trace.tla).
"""

from __future__ import annotations

import json
import numbers
import os
import random

PROPERTY = "X07"

WS = {"sp": " ", "tab": "\t", "nl": "\n", "cr": "\r", "ff": "\f", "vt": "\v"}
WS_INV = {v: k for k, v in WS.items()}
FORMS = ("letter", "str", "int", "tuple")
TEXT_OPS = ("dict_from_str", "from_text", "roundtrip", "str", "from_db", "std", "pb_matrix")
KF = "X07-dict-from-str-transposed"


# --------------------------------------------------------------------------- words <-> symbols
def chars_to_str(chars):
    return "".join(WS.get(c, c) for c in chars)


def str_to_chars(s):
    return [WS_INV.get(ch, ch) for ch in s]


def sym_of(word, form):
    """Realise a specification symbol (a word) as a Python object of the given form."""
    s = "".join(word)
    if form in ("letter", "str"):
        return s
    if form == "int":
        return int.from_bytes(s.encode("ascii"), "big")
    if form == "tuple":
        return ("t", s)
    raise ValueError(form)


def word_of(x):
    """Project a real symbol onto a word (injective on the symbols a case / trace uses)."""
    import numpy as np
    from biotite.sequence import PositionalSequence

    if isinstance(x, PositionalSequence.Symbol):
        return word_of(x.symbol) + ["@"] + list(str(int(x.position)))
    if isinstance(x, tuple) and len(x) == 2 and x[0] == "t" and isinstance(x[1], str):
        return list(x[1])
    if isinstance(x, (bytes, np.bytes_)):
        return list(x.decode("ascii"))
    if isinstance(x, str):
        return list(x)
    if isinstance(x, numbers.Integral):
        n = int(x)
        if n > 0:
            b = n.to_bytes((n.bit_length() + 7) // 8, "big")
            if all(97 <= c <= 122 for c in b):
                return list(b.decode("ascii"))
        return ["I"] + list(str(n))
    return ["R"] + list(repr(x))


def forms_for(words, text=False):
    """Symbol forms that can carry all these words."""
    out = []
    if all(len(w) == 1 and 33 <= ord(w[0]) <= 126 for w in words):
        out.append("letter")
    out.append("str")
    if not text:
        if all(all("a" <= ch <= "z" for ch in w) for w in words):
            out.append("int")
        out.append("tuple")
    return out


def mk_alph(words, form):
    import biotite.sequence as bs

    syms = [sym_of(w, form) for w in words]
    return bs.LetterAlphabet(syms) if form == "letter" else bs.Alphabet(syms)


def proj_alph(alph):
    return [word_of(s) for s in alph.get_symbols()]


def proj_matrix(M):
    return {"a1": proj_alph(M.get_alphabet1()), "a2": proj_alph(M.get_alphabet2()),
            "m": [[int(v) for v in row] for row in M.score_matrix().tolist()]}


_DTYPES = ("int64", "int32", "int16", "int8", "uint8", "uint16", "uint32", "uint64")


def _fits(rows, dt):
    import numpy as np

    info = np.iinfo(dt)
    return all(info.min <= v <= info.max for r in rows for v in r)


def pick_dtype(rows, k):
    ok = [d for d in _DTYPES if _fits(rows, d)]
    return ok[k % len(ok)]


def mk_matrix(Mj, form, variant=0):
    """A real SubstitutionMatrix for the abstract matrix (constructed from an array or, every
    third variant, from a dictionary)."""
    import numpy as np
    from biotite.sequence.align import SubstitutionMatrix

    a1, a2 = mk_alph(Mj["a1"], form), mk_alph(Mj["a2"], form)
    if variant % 3 == 2:
        d = {(sym_of(s, form), sym_of(t, form)): Mj["m"][i][j]
             for i, s in enumerate(Mj["a1"]) for j, t in enumerate(Mj["a2"])}
        return SubstitutionMatrix(a1, a2, d)
    return SubstitutionMatrix(a1, a2, np.array(Mj["m"], dtype=pick_dtype(Mj["m"], variant)))


def _outcome(fn):
    try:
        return "ok", fn(), None
    except KeyError as e:
        return "KeyError", None, f"KeyError: {e}"[:160]
    except Exception as e:  # noqa: BLE001 - any exception is the outcome "Rejected"
        return "Rejected", None, f"{type(e).__name__}: {e}"[:160]


def proj_dict(d):
    return sorted([word_of(k[0]), word_of(k[1]), int(v)] for k, v in d.items())


def mk_seq(alph, codes):
    import numpy as np
    import biotite.sequence as bs

    s = bs.GeneralSequence(alph)
    s.code = np.array(codes, dtype=np.int64)
    return s


def obs_table(M):
    import numpy as np

    sm = M.score_matrix()
    return {"shape": [int(x) for x in M.shape], "m": [[int(v) for v in row] for row in sm.tolist()],
            "a1": proj_alph(M.get_alphabet1()), "a2": proj_alph(M.get_alphabet2()),
            "int32": bool(sm.dtype == np.int32), "readonly": bool(not sm.flags.writeable)}


def obs_str(M):
    s = str(M)
    return {"grid": [[list(w) for w in line.split()] for line in s.split("\n")], "chars": str_to_chars(s)}


def obs_positional(M, c1, c2):
    s1, s2 = mk_seq(M.get_alphabet1(), c1), mk_seq(M.get_alphabet2(), c2)
    P, p1, p2 = M.as_positional(s1, s2)
    agree = all(int(P.get_score(p1[i], p2[j])) == int(M.get_score(s1[i], s2[j]))
                for i in range(len(c1)) for j in range(len(c2)))
    agree = agree and [int(x) for x in p1.code] == list(range(len(c1))) \
        and [int(x) for x in p2.code] == list(range(len(c2))) \
        and [word_of(x.symbol) for x in p1.symbols] == [word_of(x) for x in s1.symbols] \
        and [word_of(x.symbol) for x in p2.symbols] == [word_of(x) for x in s2.symbols] \
        and not P.score_matrix().flags.writeable
    return P, {"obj": proj_matrix(P), "agree": bool(agree)}


def _codes_arg(codes, variant):
    import numpy as np

    k = variant % 5
    if k == 0:
        return list(codes)
    return np.array(codes, dtype=("uint8", "int64", "uint64", "uint16")[k - 1])


def _lookup(fn):
    oc, v, _d = _outcome(fn)
    return [oc, int(v) if oc == "ok" else 0]


def run_op(op, a, form, variant=0, live=None):
    """Execute one call of the specification's vocabulary against the real code.
    `live`: real object(s) to use instead of building them from the abstract arguments."""
    import numpy as np
    import biotite.sequence as bs
    from biotite.sequence.align import SubstitutionMatrix

    detail = None
    if op == "from_array":
        a1, a2 = mk_alph(a[0], form), mk_alph(a[1], form)
        if a[3] == "int":
            arr = np.array(a[2], dtype=pick_dtype(a[2], variant))
        else:
            arr = np.array(a[2], dtype=("float64", "float32", "bool", "object")[variant % 4])
        before = arr.copy()
        oc, M, detail = _outcome(lambda: SubstitutionMatrix(a1, a2, arr))
        out = proj_matrix(M) if oc == "ok" else []
        if arr.dtype != object and not (arr.flags.writeable and np.array_equal(arr, before)):
            oc, detail = "Broken", "the caller's array was changed or frozen by the constructor"
    elif op == "from_dict":
        a1, a2 = mk_alph(a[0], form), mk_alph(a[1], form)
        conv = (int, np.int64, np.int32, np.int16)[variant % 4]
        if conv is np.int16 and not all(-32768 <= x[2] <= 32767 for x in a[2]):
            conv = np.int64
        d = {(sym_of(x[0], form), sym_of(x[1], form)): conv(x[2]) for x in a[2]}
        keys = set(d)
        oc, M, detail = _outcome(lambda: SubstitutionMatrix(a1, a2, d))
        out = proj_matrix(M) if oc == "ok" else []
        if set(d) != keys:
            oc, detail = "Broken", "the caller's dictionary was changed by the constructor"
    elif op == "dict_from_str":
        oc, d, detail = _outcome(lambda: SubstitutionMatrix.dict_from_str(chars_to_str(a[0])))
        out = proj_dict(d) if oc == "ok" else []
    elif op == "from_text":
        a1, a2 = mk_alph(a[0], form), mk_alph(a[1], form)
        oc, M, detail = _outcome(
            lambda: SubstitutionMatrix(a1, a2, SubstitutionMatrix.dict_from_str(chars_to_str(a[2]))))
        out = proj_matrix(M) if oc == "ok" else []
    elif op in ("mapper_new", "map_codes"):
        src, tgt = mk_alph(a[0], form), mk_alph(a[1], form)
        if variant % 2 and form == "letter":
            tgt = bs.Alphabet([sym_of(w, "str") for w in a[1]])     # LetterAlphabet -> Alphabet
        oc, mp, detail = _outcome(lambda: bs.AlphabetMapper(src, tgt))
        out = []
        if oc == "ok" and op == "mapper_new":
            oc, out, detail = _outcome(lambda: [int(mp[c]) for c in range(len(a[0]))])
        elif oc == "ok":
            if variant % 6 == 5:
                oc, out, detail = _outcome(lambda: [int(mp[np.int64(c)]) for c in a[2]])
            else:
                arg = _codes_arg(a[2], variant)
                oc, out, detail = _outcome(lambda: [int(x) for x in mp[arg]])
        out = out if oc == "ok" else []
    elif op == "common_alphabet":
        alphs = [mk_alph(w, "str" if (form == "letter" and (k + variant) % 2) else form)
                 for k, w in enumerate(a[0])]
        arg = alphs if variant % 2 == 0 else tuple(alphs)
        oc, res, detail = _outcome(lambda: bs.common_alphabet(arg))
        out = [] if (oc != "ok" or res is None) else [proj_alph(res)]
    else:
        M = live if live is not None else mk_matrix(a[0], form, variant)
        if op == "get_score":
            oc, v, detail = _outcome(lambda: M.get_score(sym_of(a[1], form), sym_of(a[2], form)))
            out = int(v) if oc == "ok" else []
        elif op == "get_score_by_code":
            i, j = (a[1], a[2]) if variant % 2 == 0 else (np.int64(a[1]), np.uint8(a[2]))
            oc, v, detail = _outcome(lambda: M.get_score_by_code(i, j))
            out = int(v) if oc == "ok" else []
        elif op == "scores":
            oc = "ok"
            out = [[_lookup(lambda s=s, t=t: M.get_score(sym_of(s, form), sym_of(t, form))) for t in a[1]]
                   for s in a[1]]
        elif op == "codes":
            oc = "ok"
            out = [[_lookup(lambda i=i, j=j: M.get_score_by_code(i, j)) for j in range(a[1])]
                   for i in range(a[1])]
        elif op == "table":
            oc, out, detail = _outcome(lambda: obs_table(M))
        elif op == "is_symmetric":
            oc, v, detail = _outcome(M.is_symmetric)
            out = bool(v) if oc == "ok" else []
        elif op == "transpose":
            oc, T, detail = _outcome(M.transpose)
            out = proj_matrix(T) if oc == "ok" else []
            if oc == "ok" and (T is M or T.score_matrix().flags.writeable):
                oc, detail = "Broken", "transpose() returned the object itself or a writeable matrix"
        elif op == "eq":
            other_form = "str" if (form == "letter" and variant % 2) else form
            N = mk_matrix(a[1], other_form, variant + 1)
            oc, out, detail = _outcome(lambda: [bool(M == N), bool(M != N)])
        elif op == "eq_foreign":
            others = [None, "BLOSUM62", (M.get_alphabet1(), M.get_alphabet2(), 0), 7]
            oc, out, detail = _outcome(lambda: [any(bool(M == o) for o in others),
                                                all(bool(M != o) for o in others)])
        elif op == "str":
            oc, out, detail = _outcome(lambda: obs_str(M))
        elif op == "roundtrip":
            def rt():
                d = SubstitutionMatrix.dict_from_str(str(M))
                return bool(SubstitutionMatrix(M.get_alphabet1(), M.get_alphabet2(), d) == M)
            oc, out, detail = _outcome(rt)
        elif op == "as_positional":
            oc, res, detail = _outcome(lambda: obs_positional(M, a[1], a[2]))
            out = res[1] if oc == "ok" else []
        else:
            raise ValueError(f"driver: unknown op {op}")
    r = {"oc": oc, "out": out if oc == "ok" else []}
    if detail:
        r["detail"] = detail
    return r


# --------------------------------------------------------------------------- comparison
def _canon(op, out):
    if op in ("dict_from_str", "list_db") and isinstance(out, list):
        return sorted(out)
    return out


def compare(op, exp, obs):
    bad = []
    if exp["oc"] != obs["oc"]:
        bad.append("oc")
    elif exp["oc"] == "ok":
        e, o = exp["out"], obs["out"]
        if op == "str":
            o = o["grid"]
        if _canon(op, e) != _canon(op, o):
            bad.append("out")
    return bad


def _nontrivial(c, r):
    """Rule stated in ctx.cov['rule']."""
    if r["oc"] != "ok":
        return True
    a = c["a"]
    if c["fam"] == "mapper":
        return r["out"] != list(range(len(r["out"])))
    if c["fam"] == "common":
        return len(a[0]) >= 2
    for x in a:
        if isinstance(x, dict) and "m" in x:
            return len({v for row in x["m"] for v in row}) >= 2
    return True


# --------------------------------------------------------------------------- S2 children
def warmup():
    import biotite.sequence  # noqa: F401
    import biotite.sequence.align  # noqa: F401

    if "X07_GRAPH" in os.environ:
        _graph()


def case_forms(c):
    op, a = c["op"], c["a"]
    words = []
    for x in a:
        if isinstance(x, dict) and "a1" in x:
            words += x["a1"] + x["a2"]
    if op in ("from_array", "from_dict", "from_text", "from_db"):
        words += a[0] + a[1]
        if op == "from_dict":
            for t in a[2]:
                words += [t[0], t[1]]
    if op in ("mapper_new", "map_codes"):
        words += a[0] + a[1]
    if op == "common_alphabet":
        for al in a[0]:
            words += al
    if op in ("scores",):
        words += a[1]
    if op == "dict_from_str":
        return ["str"]
    return forms_for(words, text=op in TEXT_OPS)


def exec_cases(item):
    """One chunk of the TLC dump: parse the (c, r) states and execute each case."""
    from harness.tlabind.pool import progress
    from harness.tlabind.tlaval import parse_state, to_py

    with open(item["file"], "rb") as fh:
        fh.seek(item["beg"])
        text = fh.read(item["end"] - item["beg"]).decode()
    mism, n, nev, ops, ocs, nontriv, forms_used = [], 0, 0, {}, {}, 0, {}
    cur = []

    def flush():
        nonlocal n, nev, nontriv
        t = "".join(cur).strip()
        cur.clear()
        if not t:
            return
        st = parse_state(t)
        c, r = to_py(st["c"]), to_py(st["r"])
        if c["op"] == "init":
            return
        n += 1
        ops[c["op"]] = ops.get(c["op"], 0) + 1
        key = c["op"] + ":" + r["oc"]
        ocs[key] = ocs.get(key, 0) + 1
        if _nontrivial(c, r):
            nontriv += 1
        for form in case_forms(c):
            variant = (n + item["beg"]) % 12
            progress({"op": c["op"], "a": c["a"], "form": form, "variant": variant})
            obs = run_op(c["op"], c["a"], form, variant)
            nev += 1
            forms_used[form] = forms_used.get(form, 0) + 1
            bad = compare(c["op"], r, obs)
            if bad:
                mism.append({"kind": "case", "op": c["op"], "a": c["a"], "form": form, "variant": variant,
                             "bad": bad, "expected": r, "observed": obs})

    for line in text.splitlines(keepends=True):
        if line.startswith("State ") and line.rstrip().endswith(":"):
            flush()
        else:
            cur.append(line)
    flush()
    return {"mismatch": mism, "n": n, "nev": nev, "ops": ops, "ocs": ocs, "nontrivial": nontriv,
            "forms": forms_used}


_G = None


def _graph():
    global _G
    if _G is None:
        with open(os.environ["X07_GRAPH"]) as f:
            _G = json.load(f)
    return _G


class Session:
    """The caller of MatrixSession.tla: owns an array, builds matrices, pokes."""

    def __init__(self, src, form):
        import numpy as np

        self.form = form
        self.words = [["a"], ["b"]]
        self.arr = np.array(src, dtype=np.int64)
        self.dct = None
        self.M = None

    def step(self, call):
        import numpy as np
        from biotite.sequence.align import SubstitutionMatrix

        name = call[0]

        def do():
            if name == "build":
                A = mk_alph(self.words, self.form)
                if call[1] == "dict":
                    self.dct = {(sym_of(s, self.form), sym_of(t, self.form)): int(self.arr[i, j])
                                for i, s in enumerate(self.words) for j, t in enumerate(self.words)}
                    self.M = SubstitutionMatrix(A, A, self.dct)
                else:
                    self.dct = None
                    self.arr = self.arr.astype(np.int32 if call[1] == "i4" else np.int64)
                    self.M = SubstitutionMatrix(A, A, self.arr)
            elif name == "poke_src":
                i, j = call[1], call[2]
                self.arr[i, j] = 1 - self.arr[i, j]
                if self.dct is not None:
                    k = (sym_of(self.words[i], self.form), sym_of(self.words[j], self.form))
                    self.dct[k] = int(self.arr[i, j])
            elif name == "poke_obj":
                self.M.score_matrix()[call[1], call[2]] = 7
            elif name == "transpose":
                self.M = self.M.transpose()
            elif name == "positional":
                s1 = mk_seq(self.M.get_alphabet1(), call[1])
                s2 = mk_seq(self.M.get_alphabet2(), call[2])
                self.M = self.M.as_positional(s1, s2)[0]
            else:
                raise ValueError(f"driver: unknown call {call}")

        oc, _v, detail = _outcome(do)
        obs = {"oc": oc, "src": [[int(v) for v in row] for row in self.arr.tolist()],
               "obj": [] if self.M is None else [proj_matrix(self.M)],
               "fl": [bool(self.arr.flags.writeable),
                      False if self.M is None else bool(self.M.score_matrix().flags.writeable)]}
        if detail:
            obs["detail"] = detail
        return obs


def exec_paths(batch):
    from harness.tlabind.pool import progress

    G = _graph()
    states, labels = G["states"], G["labels"]
    mism, steps = [], 0
    for item in batch["paths"]:
        st = states[item["init"]]
        sess = Session(st["src"], item["form"])
        hist = []
        for li, dst in item["steps"]:
            call, exp = labels[li], states[dst]
            hist.append(call)
            progress({"call": call, "init": st["src"], "history": hist})
            obs = sess.step(call)
            steps += 1
            bad = [k for k in ("oc", "src", "obj", "fl") if obs[k] != exp[k]]
            if bad:
                mism.append({"kind": "step", "op": call[0], "a": call[1:], "form": item["form"], "bad": bad,
                             "expected": {k: exp[k] for k in ("oc", "src", "obj", "fl")}, "observed": obs,
                             "init": st["src"], "history": list(hist)})
                break
    return {"mismatch": mism, "steps": steps}


# --------------------------------------------------------------------------- S3 generators
_LETTERS = "abcdefghijklmnopqrstuvwxyz"
_SYMCH = _LETTERS + "ABCXYZ0123456789*+-."


def _rand_words(rng, n, form, maxlen=3):
    out, seen = [], set()
    while len(out) < n:
        if form == "letter":
            w = [rng.choice(_SYMCH)]
        elif form == "int":
            w = [rng.choice(_LETTERS) for _ in range(rng.randint(1, maxlen))]
        else:
            w = [rng.choice(_SYMCH) for _ in range(rng.randint(1, maxlen))]
        if tuple(w) not in seen and w[0] != "#":
            seen.add(tuple(w))
            out.append(w)
    return out


def _rand_table(rng, n1, n2, symmetric=False):
    style = rng.choice(["small", "small", "wide", "bin"])
    lo, hi = {"small": (-9, 20), "wide": (-99999, 99999), "bin": (0, 1)}[style]
    t = [[rng.randint(lo, hi) for _ in range(n2)] for _ in range(n1)]
    if symmetric and n1 == n2:
        for i in range(n1):
            for j in range(i):
                t[i][j] = t[j][i]
    return t


def _rand_text(rng, rows, cols, table, bad=False):
    """A text in NCBI layout with random decoration (input generation only)."""
    def ws(lo=1):
        return "".join(rng.choice(["sp", "sp", "sp", "tab"]) for _ in range(rng.randint(lo, 3)))

    def ws_tokens(lo=1):
        return [rng.choice(["sp", "sp", "sp", "tab"]) for _ in range(rng.randint(lo, 3))]

    def num(v):
        s = str(abs(v))
        if rng.random() < 0.1:
            s = "0" * rng.randint(1, 2) + s
        return list(("-" if v < 0 else ("+" if rng.random() < 0.15 else "")) + s)

    def comment():
        return ws_tokens(0) + ["#"] + [rng.choice(list("ab 1-#x=")) for _ in range(rng.randint(0, 8))]

    def norm(line):
        return [("sp" if ch == " " else ch) for ch in line]

    lines = []
    for _ in range(rng.randint(0, 2)):
        lines.append(norm(comment()) if rng.random() < 0.7 else ws_tokens(0))
    eol = ["cr"] if rng.random() < 0.2 else []
    head = ws_tokens(0)
    for k, c in enumerate(cols):
        head += (ws_tokens() if k else []) + list(c)
    lines.append(head + ws_tokens(0) + eol)
    badpos = (rng.randrange(len(rows)), rng.randrange(len(cols))) if bad and rows else None
    for i, r in enumerate(rows):
        line = ws_tokens(0) + list(r)
        for j in range(len(cols)):
            w = num(table[i][j])
            if badpos == (i, j):
                w = rng.choice([["x"], ["1", ".", "5"], ["-"], ["1", "e", "3"], ["-", "-", "2"]])
            line += ws_tokens() + w
        lines.append(line + ws_tokens(0) + eol)
        if rng.random() < 0.2:
            lines.append(norm(comment()) if rng.random() < 0.5 else ws_tokens(0))
    chars = []
    for k, ln in enumerate(lines):
        chars += (["nl"] if k else []) + ln
    chars += ["nl"] * rng.choice([0, 1, 1, 2])
    return chars


def _event(op, a, res, **extra):
    e = {"op": op, "a": a, "oc": res["oc"], "out": res["out"]}
    if "detail" in res:
        e["detail"] = res["detail"]
    e.update(extra)
    return e


def gen_trace(item):
    """Random history against the real classes; the log is validated by TLC afterwards."""
    rng = random.Random(item["seed"])
    kind = item["kind"]
    fn = {"matrix": _trace_matrix, "text": _trace_text, "mapper": _trace_mapper,
          "common": _trace_common, "db": _trace_db}[kind]
    return {"events": fn(rng, item)}


def _trace_matrix(rng, item):
    import numpy as np

    events = []
    # the plan of a trace comes from its index (every class of construction occurs for every seed)
    k = item.get("index", rng.randrange(48))
    via = ("array", "dict", "text", "array")[k % 4]
    flaw = (k // 4) % 6 == 5                  # a construction that must be refused
    form = rng.choice(["letter", "str"] if via == "text" else list(FORMS))
    n1 = rng.randint(1, 7)
    same = rng.random() < 0.5
    w1 = _rand_words(rng, n1, form)
    if same:
        w2 = list(w1)
        if rng.random() < 0.25 and n1 > 1:
            rng.shuffle(w2)
    else:
        w2 = _rand_words(rng, rng.randint(1, 7), form)
    symmetric = rng.random() < 0.45
    if via == "text" and (k // 4) % 3 != 2:          # texts the recorded defect does not touch
        w2, symmetric = list(w1), True
    table = _rand_table(rng, len(w1), len(w2), symmetric=symmetric)
    variant = rng.randrange(12)
    if via == "array":
        op, a = "from_array", [w1, w2, table, "int"]
        if flaw and k % 8 == 0:
            a[3] = "float"
        elif flaw:
            a[2] = _rand_table(rng, len(w1) + rng.choice([-1, 1]) if len(w1) > 1 else 2, len(w2))
    elif via == "dict":
        d = [[s, t, table[i][j]] for i, s in enumerate(w1) for j, t in enumerate(w2)]
        if flaw:
            d.pop(rng.randrange(len(d)))
        if rng.random() < 0.3:
            d.append([["q", "q", "q", "q"], w2[0], 5])
        rng.shuffle(d)
        op, a = "from_dict", [w1, w2, d]
    else:
        op, a = "from_text", [w1, w2, _rand_text(rng, w1, w2, table, bad=flaw)]
    res = run_op(op, a, form, variant)
    extra = {"form": form, "variant": variant}
    if op == "from_text":
        extra["labels"] = [w1, w2]
    events.append(_event(op, a, res, **extra))
    if res["oc"] != "ok":
        return events
    Mj = res["out"]
    # the live object (the history continues on real objects, arguments are their projections)
    from biotite.sequence.align import SubstitutionMatrix
    if op == "from_array":
        M = SubstitutionMatrix(mk_alph(w1, form), mk_alph(w2, form), np.array(a[2], dtype=pick_dtype(a[2], variant)))
    elif op == "from_dict":
        M = SubstitutionMatrix(mk_alph(w1, form), mk_alph(w2, form),
                               {(sym_of(x[0], form), sym_of(x[1], form)): x[2] for x in a[2]})
    else:
        M = SubstitutionMatrix(mk_alph(w1, form), mk_alph(w2, form),
                               SubstitutionMatrix.dict_from_str(chars_to_str(a[2])))
    depth = 0
    for _ in range(item["length"]):
        Mj = proj_matrix(M)
        textual = form in ("letter", "str") and depth == 0
        ops = ["get_score"] * 4 + ["get_score_by_code"] * 3 + ["table", "is_symmetric", "transpose", "transpose",
                                                                 "eq", "eq", "eq_foreign", "as_positional"]
        if textual:
            ops += ["str", "str", "roundtrip"]
        o = rng.choice(ops)
        v = rng.randrange(12)
        live = M
        if o == "get_score":
            if depth > 0:
                continue        # positional symbols are objects of the live alphabets: see as_positional
            s = rng.choice(Mj["a1"]) if rng.random() < 0.9 else ["q", "q", "q", "q"]
            t = rng.choice(Mj["a2"]) if rng.random() < 0.9 else ["q", "q", "q", "q"]
            a = [Mj, s, t]
        elif o == "get_score_by_code":
            i = rng.randrange(len(Mj["a1"]) + (1 if rng.random() < 0.1 else 0))
            j = rng.randrange(len(Mj["a2"]) + (1 if rng.random() < 0.1 else 0))
            a = [Mj, i, j]
        elif o == "eq":
            if depth > 0:
                continue
            k = rng.randrange(4)
            Nj = json.loads(json.dumps(Mj))
            if k == 1:
                i, j = rng.randrange(len(Nj["a1"])), rng.randrange(len(Nj["a2"]))
                Nj["m"][i][j] += rng.choice([-1, 1])
            elif k == 2:
                Nj = {"a1": Nj["a2"], "a2": Nj["a1"], "m": [list(r) for r in zip(*Nj["m"])]}
            elif k == 3 and len(Nj["a2"]) > 1:
                Nj["a2"] = Nj["a2"][1:] + Nj["a2"][:1]
            a = [Mj, Nj]
        elif o == "as_positional":
            if depth >= 2:
                continue
            c1 = [rng.randrange(len(Mj["a1"])) for _ in range(rng.randint(1, 5))]
            c2 = [rng.randrange(len(Mj["a2"])) for _ in range(rng.randint(0 if rng.random() < 0.1 else 1, 5))]
            a = [Mj, c1, c2]
        else:
            a = [Mj]
        if o == "as_positional":
            oc, res2, detail = _outcome(lambda: obs_positional(M, a[1], a[2]))
            res = {"oc": oc, "out": res2[1] if oc == "ok" else []}
            if detail:
                res["detail"] = detail
            if oc == "ok" and rng.random() < 0.6:
                M = res2[0]
                depth += 1
        else:
            res = run_op(o, a, form, v, live=live)
            if o == "transpose" and res["oc"] == "ok" and rng.random() < 0.7:
                M = M.transpose()
        events.append(_event(o, a, res, form=form, variant=v))
    return events


def _trace_text(rng, item):
    events = []
    for _ in range(item["length"]):
        nr, nc = rng.randint(0 if rng.random() < 0.1 else 1, 6), rng.randint(1, 6)
        if rng.random() < 0.5:
            nc = max(nr, 1)
        rows = _rand_words(rng, nr, "str")
        cols = list(rows) if (nr == nc and rng.random() < 0.6) else _rand_words(rng, nc, "str")
        table = _rand_table(rng, nr, nc, symmetric=rng.random() < 0.5)
        bad = (len(events) % 5 == 3) and nr > 0
        chars = _rand_text(rng, rows, cols, table, bad=bad)
        res = run_op("dict_from_str", [chars], "str")
        events.append(_event("dict_from_str", [chars], res, form="str", labels=[rows, cols]))
    return events


def _trace_mapper(rng, item):
    events = []
    big = item.get("big", False)
    # big: target alphabets around the uint8 limit of the mapping table, highest code in use
    plan = [255, 256, 257, 258, rng.randint(300, 460)] if big else [0] * item["length"]
    for tsize in plan:
        if big:
            form = rng.choice(["int", "tuple"])
            n = rng.randint(257 if tsize >= 257 else 200, tsize)     # source codes beyond 255 too
            pool = _rand_words(rng, tsize, form)
            src, extra = pool[:n], pool[n:]
            mode = "shuffle" if tsize in (256, 257) else rng.choice(["shuffle", "shuffle", "extend", "missing"])
        else:
            form = rng.choice(FORMS)
            n = rng.randint(1, 12)
            src = _rand_words(rng, n, form)
            mode = rng.choice(["shuffle", "shuffle", "extend", "missing", "same"])
            extra_n = rng.randint(0, 4)
            pool = _rand_words(rng, n + extra_n + 4, form)
            extra = [w for w in pool if w not in src][:extra_n]
        if mode == "shuffle":
            tgt = src + extra
            rng.shuffle(tgt)
            k = tgt.index(src[0])           # the highest target code is in use
            tgt[k], tgt[-1] = tgt[-1], tgt[k]
        elif mode == "extend":
            tgt = src + extra
        elif mode == "same":
            tgt = list(src)
        else:
            tgt = src + extra
            tgt.pop(rng.randrange(len(src)))
            rng.shuffle(tgt)
            if not tgt:
                tgt = extra or [w for w in pool if w not in src][:1]
        variant = rng.randrange(12)
        res = run_op("mapper_new", [src, tgt], form, variant)
        events.append(_event("mapper_new", [src, tgt], res, form=form, variant=variant))
        for _k in range(3 if big else 2):
            codes = [rng.randrange(len(src)) for _ in range(rng.randint(2 if big else 0, 30))]
            if big:
                codes[0] = len(src) - 1
                codes[-1] = 0
            variant = (0, 2, 4)[_k] if big else rng.randrange(12)    # big: list, int64 array, uint16 array
            if variant % 5 == 1 and len(src) > 256:
                variant += 1                      # uint8 code arrays cannot carry these codes
            res = run_op("map_codes", [src, tgt, codes], form, variant)
            events.append(_event("map_codes", [src, tgt, codes], res, form=form, variant=variant))
    return events


def _trace_common(rng, item):
    events = []
    for _ in range(item["length"]):
        form = rng.choice(FORMS)
        base = _rand_words(rng, rng.randint(1, 9), form)
        k = rng.randint(0, 5)
        alphs = [base[: rng.randint(1, len(base))] for _ in range(k)]
        r = rng.random()
        if r < 0.2 and alphs:
            other = _rand_words(rng, rng.randint(1, 4), form)
            alphs.insert(rng.randrange(len(alphs) + 1), other)
        elif r < 0.35 and len(base) > 1 and alphs:
            p = list(base)
            p[0], p[-1] = p[-1], p[0]
            alphs.insert(rng.randrange(len(alphs) + 1), p)
        variant = rng.randrange(12)
        res = run_op("common_alphabet", [alphs], form, variant)
        events.append(_event("common_alphabet", [alphs], res, form=form, variant=variant))
    return events


def _db_dir():
    import biotite.sequence.align as al

    return os.path.join(os.path.dirname(al.__file__), "matrix_data")


def _db_chars(name):
    with open(os.path.join(_db_dir(), name + ".mat")) as f:
        return str_to_chars(f.read())


def _std_alphabet(kind):
    import biotite.sequence as bs

    if kind == "protein":
        return bs.ProteinSequence.alphabet
    if kind == "nucleotide":
        return bs.NucleotideSequence.alphabet_amb
    if kind == "3di":
        from biotite.structure.alphabet.i3d import I3DSequence
        return I3DSequence.alphabet
    from biotite.structure.alphabet.pb import ProteinBlocksSequence
    return ProteinBlocksSequence.alphabet


_STD = {"protein": ("BLOSUM62", "std_protein_matrix"), "nucleotide": ("NUC", "std_nucleotide_matrix"),
        "3di": ("3Di", "std_3di_matrix"), "pb": ("PB", "std_protein_blocks_matrix")}


def _trace_db(rng, item):
    import biotite.sequence as bs
    from biotite.sequence.align import SubstitutionMatrix

    events = []
    what = item["what"]
    if what == "list":
        files = sorted(os.listdir(_db_dir()))
        oc, names, detail = _outcome(SubstitutionMatrix.list_db)
        events.append(_event("list_db", [[list(f) for f in files]],
                             {"oc": oc, "out": sorted(list(n) for n in names) if oc == "ok" else []}))
        return events
    if what == "std":
        kind = item["std"]
        name, meth = _STD[kind]
        alph = _std_alphabet(kind)
        chars = _db_chars(name)
        if kind == "pb":
            from biotite.structure.alphabet.pb import ProteinBlocksSequence
            um, umm = (200, -200) if item.get("default") else (rng.randint(1, 999), -rng.randint(1, 999))
            args = () if item.get("default") else (um, umm)
            oc, M, detail = _outcome(lambda: getattr(SubstitutionMatrix, meth)(*args))
            a = [chars, proj_alph(alph), word_of(ProteinBlocksSequence.undefined_symbol), um, umm, list(name)]
            events.append(_event("pb_matrix", a, {"oc": oc, "out": proj_matrix(M) if oc == "ok" else []}))
        else:
            oc, M, detail = _outcome(getattr(SubstitutionMatrix, meth))
            a = [proj_alph(alph), proj_alph(alph), chars, kind, list(name)]
            events.append(_event("std", a, {"oc": oc, "out": proj_matrix(M) if oc == "ok" else []}))
        if oc == "ok":
            # the cached default matrix cannot be written through score_matrix()
            i, j = rng.randrange(M.shape[0]), rng.randrange(M.shape[1])
            before = proj_matrix(M)

            def poke():
                M.score_matrix()[i, j] = 77
            oc2, _v, d2 = _outcome(poke)
            M2 = getattr(SubstitutionMatrix, meth)(*(args if kind == "pb" else ()))
            events.append(_event("poke_obj", [[[0]], before, i, j, 77],
                                 {"oc": oc2, "out": {"src": [[0]], "obj": proj_matrix(M2)}}))
            if oc2 == "ok":      # undo, other checks share this process's cache
                pass
        return events
    # constructor by name, with the full documented alphabet or a sub-alphabet of the file's symbols
    name = item["name"]
    chars = _db_chars(name)
    # choosing a sub-alphabet is input generation: the symbols are taken from the file's header line
    with open(os.path.join(_db_dir(), name + ".mat")) as f:
        content = [ln for ln in (x.strip() for x in f.read().split("\n")) if ln and ln[0] != "#"]
    rows = cols = sorted(content[0].split())
    if item["full"]:
        kind = "nucleotide" if name == "NUC" else "3di" if name == "3Di" else "pb" if name == "PB" else "protein"
        a1 = a2 = _std_alphabet(kind)
    else:
        s1 = rng.sample(rows, rng.randint(1, min(6, len(rows))))
        s2 = list(s1) if rng.random() < 0.5 else rng.sample(cols, rng.randint(1, min(6, len(cols))))
        if rng.random() < 0.1:
            s1 = s1 + ["~"]
        mk = (lambda s: bs.LetterAlphabet(s)) if all(len(x) == 1 for x in s1 + s2) and rng.random() < 0.5 \
            else (lambda s: bs.Alphabet(s))
        a1, a2 = mk(s1), mk(s2)
    oc, M, detail = _outcome(lambda: SubstitutionMatrix(a1, a2, name))
    ev = _event("from_db", [proj_alph(a1), proj_alph(a2), chars],
                {"oc": oc, "out": proj_matrix(M) if oc == "ok" else []}, name=name)
    if detail:
        ev["detail"] = detail
    events.append(ev)
    if oc == "ok" and not item["full"]:
        oc3, dd, _d3 = _outcome(lambda: SubstitutionMatrix.dict_from_db(name))
        sub = {k: v for k, v in dd.items() if k[0] in a1 and k[1] in a2} if oc3 == "ok" else {}
        # dict_from_db itself, projected on the sub-alphabet: rebuilding from it gives the same object
        oc4, N, _d4 = _outcome(lambda: SubstitutionMatrix(a1, a2, sub))
        events.append(_event("from_dict", [proj_alph(a1), proj_alph(a2), proj_dict(sub)],
                             {"oc": oc4, "out": proj_matrix(N) if oc4 == "ok" else []}))
    return events


# --------------------------------------------------------------------------- classification
def _kb_dict(chars):
    """Shape of the recorded defect X07-dict-from-str-transposed (used only to recognise the
    known finding, never for a verdict): dict_from_str indexes the TRANSPOSED score block by
    (row label, column label); with a non-square block that is an IndexError."""
    s = chars_to_str(chars)
    lines = [ln.strip() for ln in s.split("\n")]
    lines = [ln for ln in lines if ln and ln[0] != "#"]
    if not lines:
        return None
    cols = lines[0].split()
    rows = [ln.split()[0] for ln in lines[1:]]
    try:
        tab = [[int(x) for x in ln.split()[1:]] for ln in lines[1:]]
    except ValueError:
        return None
    if any(len(r) != len(cols) for r in tab):
        return None
    if len(rows) != len(cols):
        return "IndexError"
    return {(rows[k], cols[q]): tab[q][k] for k in range(len(rows)) for q in range(len(cols))}


def _kb_matrix(a1, a2, kd):
    try:
        return [[kd[("".join(s), "".join(t))] for t in a2] for s in a1]
    except KeyError:
        return None


def classify(mm):
    if mm.get("kind") not in ("case", "event"):
        return None
    op, a, exp, obs, bad = mm.get("op"), mm.get("a"), mm.get("expected"), mm.get("observed"), mm.get("bad")
    if op is None or a is None or exp is None or obs is None or not bad:
        return None
    if op == "dict_from_str" and exp["oc"] == "ok":
        kd = _kb_dict(a[0])
        if kd == "IndexError":
            if bad == ["oc"] and obs["oc"] == "Rejected" and str(obs.get("detail", "")).startswith("IndexError"):
                return KF
        elif isinstance(kd, dict) and bad == ["out"]:
            want = sorted([list(k[0]), list(k[1]), v] for k, v in kd.items())
            if sorted(obs["out"]) == want:
                return KF
    if op == "from_text" and exp["oc"] in ("ok", "KeyError"):
        kd = _kb_dict(a[2])
        if kd == "IndexError":
            if bad == ["oc"] and obs["oc"] == "Rejected" and str(obs.get("detail", "")).startswith("IndexError"):
                return KF
        elif isinstance(kd, dict) and bad == ["out"] and exp["oc"] == "ok":
            if obs["out"].get("m") == _kb_matrix(a[0], a[1], kd) and obs["out"]["a1"] == exp["out"]["a1"] \
                    and obs["out"]["a2"] == exp["out"]["a2"]:
                return KF
    if op == "roundtrip" and exp["oc"] == "ok" and exp["out"] is True:
        M = a[0]
        if len(M["a1"]) != len(M["a2"]):
            if bad == ["oc"] and obs["oc"] == "Rejected" and str(obs.get("detail", "")).startswith("IndexError"):
                return KF
        elif bad == ["out"] and obs["out"] is False:
            # what the defect builds: scores read from the transposed block
            kd = {(("".join(M["a1"][k])), ("".join(M["a2"][q]))): M["m"][q][k]
                  for k in range(len(M["a1"])) for q in range(len(M["a2"]))}
            km = _kb_matrix(M["a1"], M["a2"], kd)
            if km is not None and km != M["m"]:
                return KF
    return None


# --------------------------------------------------------------------------- orchestration
def _split_dump(path, per_item):
    """Byte ranges of the (sorted) dump file, `per_item` states each."""
    with open(path, "rb") as fh:
        data = fh.read()
    blocks = []
    cur = []
    for line in data.splitlines(keepends=True):
        if line.startswith(b"State ") and line.rstrip().endswith(b":"):
            if cur:
                blocks.append(b"".join(cur))
            cur = []
        else:
            cur.append(line)
    if cur:
        blocks.append(b"".join(cur))
    blocks.sort()                     # dump order depends on worker scheduling
    out = path + ".sorted"
    offs = [0]
    with open(out, "wb") as fh:
        pos = 0
        for b in blocks:
            head = b"State 0:\n"
            fh.write(head + b)
            pos += len(head) + len(b)
            offs.append(pos)
    items = []
    for k in range(0, len(blocks), per_item):
        items.append({"file": out, "beg": offs[k], "end": offs[min(k + per_item, len(blocks))]})
    return items, len(blocks)


_OPS_NEEDED = {"from_array", "from_dict", "dict_from_str", "from_text", "scores", "codes", "table", "is_symmetric",
               "transpose", "eq", "eq_foreign", "str", "roundtrip", "as_positional", "mapper_new", "map_codes",
               "common_alphabet"}
_OCS_NEEDED = {"from_array:ok", "from_array:Rejected", "from_dict:ok", "from_dict:KeyError", "dict_from_str:ok",
               "dict_from_str:Rejected", "from_text:ok", "from_text:KeyError", "from_text:Rejected",
               "as_positional:ok", "as_positional:Rejected", "mapper_new:ok", "mapper_new:Rejected",
               "map_codes:ok", "map_codes:Rejected", "common_alphabet:ok"}
_CALLS_NEEDED = {"build", "poke_src", "poke_obj", "transpose", "positional"}
_KEEP = ("op", "a", "oc", "out")


def run(ctx):
    from harness.tlabind import dot, helpers, pool, tlc
    from harness.tlabind.core import Vacuity
    from harness.tlabind.tlaval import to_py

    quick = ctx.quick
    ctx.assumptions += [
        "Dom_Alphabet: alphabets are non-empty and duplicate-free; symbols are projected to words (letters, "
        "strings, ints, tuples, PositionalSequence.Symbol as symbol@position) - the meaning of a call never "
        "depends on the symbol form",
        "Dom_Score: scores lie strictly between the int32 extremes (the extremes are refused as the code does); "
        "Dom_Rect: arrays handed to the constructor are 2-D; dictionary values are integers",
        "Dom_Code: get_score_by_code / AlphabetMapper are only called with non-negative codes; codes >= the "
        "alphabet length are expected to be refused by get_score_by_code (modelled from the code, the "
        "documentation is silent); negative codes (numpy wrap-around) and mapper codes outside the source "
        "alphabet are not decided",
        "Dom_Text: a text has a header line, one numeral ([+-]digits, <= 9 digits) per header symbol in every "
        "row, distinct row labels and distinct column labels; white space = blank, tab, CR, FF, VT; texts with "
        "a word that is no numeral are expected to be refused; ragged rows / missing header are not decided",
        "Dom_Renderable: str() is only read back for symbols whose str() contains no white space and does not "
        "start with '#'; the exact layout of str() is compared only where the class docstring shows it "
        "(one-letter symbols, scores of <= 3 characters), otherwise word by word",
        "Dom_PosSeq: as_positional gets non-empty sequences over the matrix's alphabets (an empty sequence is "
        "expected to be refused: an empty PositionalSequence cannot exist)",
        "missing dictionary pairing -> KeyError (documented); every other refusal is 'Rejected' (any exception)",
        "trusted: TLC, the TLA+ value parser, the projection (get_symbols, score_matrix().tolist(), shape, "
        "str.split of the rendering), the file reader that hands the database files to TLC",
    ]
    ctx.cov["rule"] = ("non-trivial = a refusal, or a call on a matrix with >= 2 distinct scores (an index mix-up "
                       "is observable), a mapper whose table is not the identity, common_alphabet of >= 2 "
                       "alphabets (S2 cases); session paths with >= 2 calls; S3 traces with >= 3 accepted calls")
    d = tlc.scratch_dir("x07")
    # ---- S1 + S2a: single-call universe -------------------------------------------------
    prefix = os.path.join(d, "cases")
    ctx.tlc("SubstMatrix", "MC.cfg" if quick else "MC_thorough.cfg", stage="S1", dump=prefix, timeout=1500)
    dump = prefix + ".dump" if os.path.exists(prefix + ".dump") else prefix
    items, nstates = _split_dump(dump, 500)
    ctx.log(f"S2a: {nstates} dumped states in {len(items)} items")
    res = helpers.run_pool(ctx, "harness.drivers.x07:exec_cases", items, stage="S2", item_timeout=300,
                           procs=12 if quick else 16)
    ops, ocs, forms, ncases, nev, nontriv = {}, {}, {}, 0, 0, 0
    for r in res:
        if not r or "crash" in r:
            continue
        ncases += r["n"]
        nev += r["nev"]
        nontriv += r["nontrivial"]
        for src_, dst_ in ((r["ops"], ops), (r["ocs"], ocs), (r["forms"], forms)):
            for k, v in src_.items():
                dst_[k] = dst_.get(k, 0) + v
    ctx.cov["s2_cases_per_op"] = ops
    ctx.cov["s2_cases_per_outcome"] = ocs
    ctx.cov["s2_calls_per_symbol_form"] = forms
    if _OPS_NEEDED - set(ops):
        raise Vacuity(f"calls never enumerated: {sorted(_OPS_NEEDED - set(ops))}")
    if _OCS_NEEDED - set(ocs):
        raise Vacuity(f"outcomes never enumerated: {sorted(_OCS_NEEDED - set(ocs))}")
    if set(FORMS) - set(forms):
        raise Vacuity(f"symbol forms never used: {sorted(set(FORMS) - set(forms))}")
    ctx.exhaustive = True
    ctx.traces_validated += ncases
    ctx.evaluations += nev
    ctx.nontrivial += nontriv
    ctx.cov["s2_cases"] = ncases
    ctx.cov["s2_real_calls"] = nev
    # ---- S1 + S2b: session histories -------------------------------------------------------
    scfg = "MC_session.cfg" if quick else "MC_session_thorough.cfg"
    dotf = os.path.join(d, "g.dot")
    # one run: invariants / action properties and the state graph (a dot dump needs workers=1)
    ctx.tlc("MatrixSession", scfg, stage="S1-session", dump_dot=dotf, workers=1, timeout=1500)
    g = dot.load(dotf)
    if not g.edges:
        raise RuntimeError("empty state graph")
    labels, lab_ix, calls_seen = [], {}, {}
    for (_s, lab, _d) in g.edges:
        if lab not in lab_ix:
            _name, args = dot.parse_label(lab)
            lab_ix[lab] = len(labels)
            labels.append(to_py(args[0]))
        c = labels[lab_ix[lab]]
        calls_seen[c[0]] = calls_seen.get(c[0], 0) + 1
    ctx.cov["session_transitions_per_call"] = calls_seen
    if _CALLS_NEEDED - set(calls_seen):
        raise Vacuity(f"session calls never taken: {sorted(_CALLS_NEEDED - set(calls_seen))}")
    ids = {nid: k for k, nid in enumerate(g.state_text)}
    states = [None] * len(ids)
    socs = {}
    for nid, k in ids.items():
        st = g.state(nid)
        states[k] = {"src": to_py(st["src"]), "obj": to_py(st["obj"]), "oc": st["oc"], "fl": to_py(st["fl"])}
        socs[st["oc"]] = socs.get(st["oc"], 0) + 1
    if not {"ok", "Rejected"} <= set(socs):
        raise Vacuity(f"session outcomes not all reached: {socs}")
    paths, covered = dot.covering_paths(g, max_len=8, rng=ctx.rng)
    if covered != len(g.edges):
        raise Vacuity(f"only {covered} of {len(g.edges)} session transitions covered by paths")
    gfile = os.path.join(d, "graph.json")
    with open(gfile, "w") as f:
        json.dump({"states": states, "labels": labels}, f)
    pitems = [{"init": ids[root], "steps": [[lab_ix[lab], ids[dst]] for lab, dst in steps],
               "form": FORMS[k % len(FORMS)]} for k, (root, steps) in enumerate(paths)]
    batches = [{"paths": b} for b in helpers.chunked(pitems, max(200, (len(pitems) + 7) // 8))]
    pres = helpers.run_pool(ctx, "harness.drivers.x07:exec_paths", batches, stage="S2",
                            env={"X07_GRAPH": gfile}, item_timeout=300, procs=8)
    steps = sum((r or {}).get("steps", 0) for r in pres)
    ctx.log(f"S2b: {len(pitems)} paths covering {covered}/{len(g.edges)} transitions, {steps} real calls")
    ctx.traces_validated += len(pitems)
    ctx.evaluations += steps
    ctx.nontrivial += sum(1 for it in pitems if len(it["steps"]) >= 2)
    ctx.cov.update({"s2_paths": len(pitems), "s2_steps_executed": steps, "s2_transitions_covered": covered,
                    "s2_transitions_total": len(g.edges)})
    for root, stp in paths[:2]:
        ctx.sample({"s2_path": [labels[lab_ix[lab]] for lab, _ in stp]})
    # ---- S3: recorded histories --------------------------------------------------------------
    titems = s3_items(ctx)
    tres = pool.run_isolated("harness.drivers.x07:gen_trace", titems, item_timeout=300,
                            procs=4 if quick else 16)
    traces, kept = [], []
    for it, r in zip(titems, tres):
        if "driver_error" in r:
            raise RuntimeError(f"S3 driver error: {r['driver_error']}\n{r.get('tb', '')}")
        if "crash" in r:
            ctx.mismatch({"stage": "S3", "kind": "crash", "signal": r["crash"],
                          "progress": r.get("progress"), "item": it})
            continue
        if r["events"]:
            traces.append(r["events"])
            kept.append(it)
    ctx.log(f"S3: {len(traces)} traces, {sum(len(t) for t in traces)} events recorded")
    # S3b: calls made by the repository's own tests (one more trace of the same TLC run)
    repo = record_repo_tests(ctx)
    validate_traces(ctx, traces, repo)

    def corrupt(tr):
        for e in tr:
            if e["oc"] != "ok":
                continue
            o = e["out"]
            if e["op"] in ("from_array", "from_dict", "from_text", "transpose", "from_db", "std", "pb_matrix"):
                o["m"][-1][-1] += 1
                return True
            if e["op"] in ("get_score", "get_score_by_code"):
                e["out"] = o + 1
                return True
            if e["op"] == "dict_from_str" and o:
                o[0][2] += 1
                return True
            if e["op"] in ("mapper_new", "map_codes") and o:
                o[0] = o[0] + 1
                return True
            if e["op"] == "common_alphabet":
                e["out"] = [] if o else [[["z", "z", "z"]]]
                return True
            if e["op"] == "list_db" and o:
                o.pop()
                return True
        return False

    by_kind = {}
    for it, tr in zip(kept, traces):
        by_kind.setdefault(it["kind"] + ":" + it.get("what", ""), tr)
    sel = [[{k: e[k] for k in _KEEP} for e in t] for t in by_kind.values()]
    helpers.binding_selftest(ctx, sel, corrupt, max_traces=len(sel))


def s3_items(ctx):
    quick = ctx.quick
    rng = ctx.rng
    items = []

    def add(kind, n, length, **kw):
        for k in range(n):
            items.append(dict({"seed": rng.randrange(1 << 30), "kind": kind, "length": length, "index": k}, **kw))

    add("matrix", 90 if quick else 1000, 14 if quick else 20)
    add("text", 12 if quick else 150, 8 if quick else 12)
    add("mapper", 14 if quick else 200, 3 if quick else 4)
    add("mapper", 2 if quick else 24, 5, big=True)
    add("common", 6 if quick else 60, 12 if quick else 20)
    names = sorted(f[:-4] for f in os.listdir(_db_dir_parent()) if f.endswith(".mat"))
    add("db", 1, 0, what="list")
    for kind in ("protein", "nucleotide", "3di", "pb"):
        add("db", 1, 0, what="std", std=kind, default=True)
    add("db", 2 if quick else 12, 0, what="std", std="pb")
    full = rng.sample(names, 2 if quick else len(names))
    for n in full:
        add("db", 1, 0, what="name", name=n, full=True)
    for n in (rng.sample(names, 10) if quick else names * 3):
        add("db", 1, 0, what="name", name=n, full=False)
    return items


def _db_dir_parent():
    """Location of the database files without importing biotite in the parent process."""
    import importlib.util

    spec = importlib.util.find_spec("biotite")
    return os.path.join(os.path.dirname(spec.origin), "sequence", "align", "matrix_data")


def validate_traces(ctx, traces, repo=None):
    """TLC re-computes every recorded event; `repo` = events recorded from the repository's tests
    (validated as one more trace of the same run)."""
    from harness.tlabind import helpers
    from harness.tlabind.core import Vacuity

    if not traces:
        raise RuntimeError("S3 produced no traces")
    alltr = traces + ([repo] if repo else [])
    mms = helpers.tlc_validate(ctx, alltr, keep=_KEEP, timeout=1500, stage="S3")
    dom = [v for v in mms if v[3] == ["DOMAIN"]]
    if dom:
        bad = [[alltr[v[1] - 1][v[2] - 1]["op"], json.dumps(alltr[v[1] - 1][v[2] - 1]["a"])[:300]]
               for v in dom[:3]]
        raise RuntimeError(f"S3: recorded calls outside the specification's domain: {bad}")
    nev = sum(len(t) for t in alltr)
    ctx.traces_validated += len(alltr)
    ctx.evaluations += nev

    def per_op(trs):
        per = {}
        for t in trs:
            for e in t:
                k = e["op"] + ":" + e["oc"]
                per[k] = per.get(k, 0) + 1
        return per

    per = per_op(traces)
    ctx.cov["s3_traces"] = len(traces)
    ctx.cov["s3_events"] = sum(len(t) for t in traces)
    ctx.cov["s3_events_per_op_outcome"] = per
    if repo:
        ctx.cov["repo_test_events"] = len(repo)
        ctx.cov["repo_test_events_per_op_outcome"] = per_op([repo])
    # vacuity guard on the outcomes the SPECIFICATION gives to the recorded calls (the observed
    # outcome wherever TLC agreed, the expected one of a MISMATCH line otherwise)
    exp_oc = {(v[1], v[2]): v[4] for v in mms}
    seen = set()
    for ti, t in enumerate(traces):
        for li, e in enumerate(t):
            seen.add(e["op"] + ":" + exp_oc.get((ti + 1, li + 1), e["oc"]))
    need = {"from_array:ok", "from_array:Rejected", "from_dict:ok", "from_dict:KeyError", "from_text:ok",
            "dict_from_str:ok", "dict_from_str:Rejected", "get_score:ok", "get_score:Rejected",
            "get_score_by_code:ok", "get_score_by_code:Rejected", "table:ok", "is_symmetric:ok",
            "transpose:ok", "eq:ok", "eq_foreign:ok", "str:ok", "roundtrip:ok", "as_positional:ok",
            "mapper_new:ok", "mapper_new:Rejected", "map_codes:ok", "common_alphabet:ok", "from_db:ok",
            "std:ok", "pb_matrix:ok", "list_db:ok", "poke_obj:Rejected"}
    ctx.nontrivial += sum(1 for t in alltr if sum(1 for e in t if e["oc"] == "ok") >= 3)
    ctx.sample({"s3_events": [{k: (e[k] if k != "a" else json.dumps(e[k])[:200]) for k in _KEEP}
                              for e in traces[0][:2]]})
    for v in mms:
        _tag, tid, l, flags, eoc, eout = v
        e = alltr[tid - 1][l - 1]
        obs = {"oc": e["oc"], "out": e["out"]}
        if "detail" in e:
            obs["detail"] = e["detail"]
        stage = "S3-repo-tests" if (repo and tid == len(alltr)) else "S3"
        ctx.mismatch({"stage": stage, "kind": "event", "op": e["op"], "a": e["a"], "form": e.get("form"),
                      "variant": e.get("variant"), "bad": [n for n, ok in zip(("oc", "out"), flags) if not ok],
                      "expected": {"oc": eoc, "out": eout}, "observed": obs, "trace": tid, "event": l,
                      "name": e.get("name")})
    if need - seen:
        raise Vacuity(f"S3 never recorded: {sorted(need - seen)}")
    return len(mms)


def record_repo_tests(ctx):
    """SubstitutionMatrix / AlphabetMapper / common_alphabet calls made by the repository's own
    tests, recorded by a pytest plugin installed from outside. Returns the events (or None)."""
    import subprocess

    from harness.tlabind import tlc

    d = tlc.scratch_dir("x07rec")
    rec = os.path.join(d, "rec.json")
    env = dict(os.environ, PYTHONPATH=tlc.VERIF + os.pathsep + os.environ.get("PYTHONPATH", ""),
               X07_RECORD_FILE=rec, X07_RECORD_DB=str(4 if ctx.quick else 200),
               X07_RECORD_SCORES=str(60 if ctx.quick else 600), PYTHONHASHSEED="0")
    tests = ["tests/sequence/align/test_matrix.py", "tests/sequence/test_alphabet.py"]
    try:
        subprocess.run(["/venv/bin/python", "-m", "pytest", "-q", "-p", "no:cacheprovider", "-p",
                        "harness.recorders.x07_recorder"] + tests,
                       cwd="/repo", env=env, stdout=subprocess.DEVNULL, stderr=subprocess.DEVNULL, timeout=600)
    except subprocess.TimeoutExpired:
        ctx.note("repository-test recorder timed out; stage skipped")
        return None
    if not os.path.exists(rec):
        ctx.note("repository-test recorder produced no file (pytest could not start); stage skipped")
        return None
    with open(rec) as f:
        data = json.load(f)
    ctx.cov["repo_test_events_skipped"] = data["skipped"]
    if not data["events"]:
        ctx.note("repository tests made no recordable call; stage skipped")
        return None
    ctx.log(f"S3b: {len(data['events'])} calls recorded from the repository's tests")
    return data["events"]


# --------------------------------------------------------------------------- replay
def _replay_db(op, a, record, form):
    """Re-execute an event about the matrix database / the default matrices."""
    from biotite.sequence.align import SubstitutionMatrix

    if op == "list_db":
        oc, names, detail = _outcome(SubstitutionMatrix.list_db)
        return {"oc": oc, "out": sorted(list(n) for n in names) if oc == "ok" else []}
    if op == "from_db":
        a1, a2 = mk_alph(a[0], form), mk_alph(a[1], form)
        oc, M, detail = _outcome(lambda: SubstitutionMatrix(a1, a2, record["name"]))
    elif op == "std":
        oc, M, detail = _outcome(getattr(SubstitutionMatrix, _STD[a[3]][1]))
    else:
        oc, M, detail = _outcome(lambda: SubstitutionMatrix.std_protein_blocks_matrix(a[3], a[4]))
    r = {"oc": oc, "out": proj_matrix(M) if oc == "ok" else []}
    if detail:
        r["detail"] = detail
    return r


def replay(record):
    """Re-execute one stored mismatch against the real code."""
    kind = record.get("kind")
    if kind in ("case", "event"):
        op, a = record["op"], record["a"]
        form = record.get("form") or case_forms({"op": op, "a": a})[0]
        try:
            if op in ("from_db", "std", "pb_matrix", "list_db"):
                if op == "from_db" and not record.get("name"):
                    return {"error": "the record does not name the database matrix"}
                obs = _replay_db(op, a, record, form)
            elif op in ("poke_obj", "poke_src"):
                return {"error": "events on the cached default matrices are not replayable from abstract arguments"}
            else:
                obs = run_op(op, a, form, record.get("variant") or 0)
        except Exception as e:  # noqa: BLE001
            return {"error": f"not replayable from abstract arguments: {type(e).__name__}: {e}"}
        bad = compare(op, record["expected"], obs)
        return {"call": [op, json.dumps(a)[:400]], "form": form,
                "expected": record["expected"], "observed": obs, "bad": bad, "mismatch": bool(bad)}
    if kind == "step":
        sess = Session(record["init"], record["form"])
        obs = None
        for call in record["history"]:
            obs = sess.step(call)
        exp = record["expected"]
        bad = [k for k in ("oc", "src", "obj", "fl") if obs[k] != exp[k]]
        return {"history": record["history"], "init": record["init"], "expected": exp, "observed": obs,
                "bad": bad, "mismatch": bool(bad)}
    return {"error": "record kind not replayable", "record": {k: record[k] for k in list(record)[:4]}}


MANIFEST = {
    "technique": "TLA+ table model of SubstitutionMatrix / AlphabetMapper / common_alphabet (specs/X07) "
                 "model-checked by TLC; every enumerated call executed against the real classes under all symbol "
                 "forms, every transition of an aliasing session machine replayed; recorded random histories, "
                 "the database files and the repository tests' calls re-computed by TLC",
    "level_text": "TLC enumerates every matrix over alphabets of 1..3 symbols (square and rectangular, equal / "
                  "permuted / disjoint alphabets, scores from 2-3 values) with every query (all symbol and code "
                  "pairs incl. unknown ones, table, shape, is_symmetric, transpose, equality variants, str, "
                  "parse-back, positional forms), every array shape 1..3 x 1..3 against 4 alphabet pairs, "
                  "complete / incomplete / over-complete dictionaries, each matrix written as text in 6 decoration "
                  "styles (comments, blank lines, tabs, CRLF, misaligned columns, signs, leading zeros) and texts "
                  "with invalid numerals, all alphabet pairs over 4 symbols for AlphabetMapper and all lists of "
                  "<= 3 alphabets for common_alphabet; it proves on that universe that the implementation-shaped "
                  "definitions equal the documented ones. Every enumerated (call, result) pair and every "
                  "transition of a 4-call session machine (caller array vs matrix object) is executed on the "
                  "real classes; larger alphabets (up to 420 symbols), wide scores, random text decoration, the "
                  "92 database files and the cached default matrices are covered by recorded events that TLC "
                  "re-computes.",
    "level_note": "Bounded: exhaustive only for <= 3 symbols / 2-3 score values; beyond that recorded histories. "
                  "Negative codes, codes outside the mapper's source alphabet, ragged or header-less texts, "
                  "duplicate symbols, non-integer dictionary values and scores beyond int32 are outside the "
                  "domain. Trusted: TLC, the TLA+ value parser, the projections.",
}
