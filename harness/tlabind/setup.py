"""setup_cmd: offline sanity build of the framework.
- checks java / tla2tools / CommunityModules are present
- records which generated C sources the shipped extension modules correspond to
- parses every specification with SANY (a syntax error is caught here, not in a check)
"""
import glob
import os
import subprocess
import sys

from . import build, tlc


def main():
    ok = True
    for p in (tlc.JAR, tlc.DEPS, "/venv/bin/python"):
        if not os.path.exists(p):
            print("missing", p)
            ok = False
    build.ensure_built()
    # only integrated ids (tools/integrated.txt): specifications still being built are not parsed here
    with open(os.path.join(tlc.VERIF, "tools", "integrated.txt")) as f:
        ids = f.read().split()
    mods = sorted(m for i in ids for m in glob.glob(os.path.join(tlc.VERIF, "specs", i, "*.tla")))
    fails = []
    procs = []
    for m in mods:
        cmd = ["java", f"-DTLA-Library={tlc.LIB}", "-cp", f"{tlc.JAR}:{tlc.DEPS}", "tla2sany.SANY", os.path.basename(m)]
        procs.append((m, subprocess.Popen(cmd, cwd=os.path.dirname(m), stdout=subprocess.PIPE,
                                          stderr=subprocess.STDOUT, text=True)))
        if len(procs) >= 12:
            for mm, p in procs:
                out, _ = p.communicate()
                if p.returncode != 0 or "*** Errors" in out or "Fatal" in out:
                    fails.append((mm, out[-800:]))
            procs = []
    for mm, p in procs:
        out, _ = p.communicate()
        if p.returncode != 0 or "*** Errors" in out or "Fatal" in out:
            fails.append((mm, out[-800:]))
    for m, out in fails:
        print("SANY failed:", m, out)
        ok = False
    print(f"setup: {len(mods)} specification modules parsed, {len(fails)} failures")
    return 0 if ok else 1


if __name__ == "__main__":
    sys.exit(main())
