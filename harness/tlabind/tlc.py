"""Thin, robust wrapper around TLC 1.8 (tla2tools.jar)."""

from __future__ import annotations

import os
import re
import shutil
import subprocess
import time
from dataclasses import dataclass, field

JAR = "/opt/veriftools/tla/tla2tools.jar"
DEPS = "/opt/veriftools/tla/CommunityModules-deps.jar"
VERIF = os.path.dirname(os.path.dirname(os.path.dirname(os.path.abspath(__file__))))
LIB = os.path.join(VERIF, "specs", "lib")
SCRATCH = os.path.join(VERIF, ".scratch")


class TLCFailure(RuntimeError):
    """TLC could not be run or its output could not be understood (machinery failure)."""


@dataclass
class TLCResult:
    rc: int
    out: str
    wall_s: float
    generated: int = 0
    distinct: int = 0
    depth: int = 0
    violated: str | None = None  # invariant / property name, or "deadlock", "assumption"
    error: str | None = None  # any non-violation error text
    trace_text: str = ""  # counterexample text (states)
    coverage: dict = field(default_factory=dict)  # action -> (distinct, generated)
    prints: list = field(default_factory=list)  # raw PrintT lines

    @property
    def ok(self) -> bool:
        return self.rc == 0 and self.violated is None and self.error is None


_scratch_made = []


_scratch_seq = __import__("itertools").count()


def scratch_dir(tag: str) -> str:
    # unique also when several threads of one check ask in the same millisecond
    d = os.path.join(SCRATCH, f"{os.getpid()}-{tag}-{int(time.time()*1000)%100000000}-{next(_scratch_seq)}")
    os.makedirs(d, exist_ok=True)
    _scratch_made.append(d)
    return d


def cleanup_scratch():
    for d in _scratch_made:
        shutil.rmtree(d, ignore_errors=True)
    _scratch_made.clear()
    # remove the scratch root when empty
    try:
        os.rmdir(SCRATCH)
    except OSError:
        pass


_RE_STATES = re.compile(r"(\d+) states generated, (\d+) distinct states found")
_RE_DEPTH = re.compile(r"The depth of the complete state graph search is (\d+)")
_RE_INV = re.compile(r"Error: Invariant (\S+) is violated")
_RE_PROP = re.compile(r"Error: Action property (\S+) is violated")
_RE_TPROP = re.compile(r"Error: Temporal properties were violated")
_RE_COV = re.compile(r"^<(\w+) line (\d+), col \d+ to line \d+, col \d+ of module (\w+)(?: \([\d ]+\))?>: (\d+):(\d+)", re.M)


def run_tlc(
    spec_dir: str,
    module: str,
    cfg: str,
    *,
    workers: int | str = 16,
    timeout: int = 600,
    coverage: bool = False,
    dump: str | None = None,  # path prefix; '-dump <path>' writes <path>.dump
    dump_dot: str | None = None,  # path of dot file
    simulate: str | None = None,  # e.g. 'file=/x/tr,num=100'
    depth: int | None = None,
    seed: int | None = None,
    env: dict | None = None,
    cont: bool = False,
    heap: str = "6g",
    deque: bool = False,
    extra: list[str] | None = None,
) -> TLCResult:
    meta = scratch_dir("meta")
    cmd = [
        "java",
        "-XX:+UseParallelGC",
        f"-Xmx{heap}",
        "-Xss64m",  # deep RECURSIVE operators on long recorded inputs (StackOverflowError otherwise)
        f"-DTLA-Library={LIB}",
    ]
    if deque:
        cmd.append("-Dtlc2.tool.queue.IStateQueue=StateDeque")
    cmd += ["-cp", f"{JAR}:{DEPS}", "tlc2.TLC"]
    cmd += ["-workers", str(workers), "-metadir", meta, "-noGenerateSpecTE", "-config", cfg]
    if coverage:
        cmd += ["-coverage", "1"]
    if dump_dot:
        cmd += ["-dump", "dot,actionlabels", dump_dot]
    elif dump:
        cmd += ["-dump", dump]
    if simulate:
        cmd += ["-simulate", simulate]
    if depth is not None:
        cmd += ["-depth", str(depth)]
    if seed is not None:
        cmd += ["-seed", str(seed)]
    if cont:
        cmd += ["-continue"]
    if extra:
        cmd += extra
    cmd.append(module if module.endswith(".tla") else module + ".tla")
    e = dict(os.environ)
    e.pop("JAVA_TOOL_OPTIONS", None)
    if env:
        e.update({k: str(v) for k, v in env.items()})
    t0 = time.time()
    try:
        p = subprocess.run(
            cmd, cwd=spec_dir, env=e, stdout=subprocess.PIPE, stderr=subprocess.STDOUT,
            timeout=timeout, text=True, errors="replace",
        )
        out, rc = p.stdout, p.returncode
    except subprocess.TimeoutExpired as ex:
        out = (ex.stdout or b"")
        if isinstance(out, bytes):
            out = out.decode(errors="replace")
        shutil.rmtree(meta, ignore_errors=True)
        raise TLCFailure(f"TLC timed out after {timeout}s on {module}/{cfg}\n{out[-2000:]}")
    finally:
        shutil.rmtree(meta, ignore_errors=True)
    res = TLCResult(rc=rc, out=out, wall_s=time.time() - t0)
    m = None
    for m in _RE_STATES.finditer(out):
        pass
    if m:
        res.generated, res.distinct = int(m.group(1)), int(m.group(2))
    m = _RE_DEPTH.search(out)
    if m:
        res.depth = int(m.group(1))
    m = _RE_INV.search(out) or _RE_PROP.search(out)
    if m:
        res.violated = m.group(1)
    elif _RE_TPROP.search(out):
        res.violated = "temporal"
    elif "Error: Deadlock reached" in out:
        res.violated = "deadlock"
    elif "Error:" in out or rc not in (0,):
        # anything else is a machinery / evaluation error
        i = out.find("Error:")
        res.error = out[i : i + 3000] if i >= 0 else f"TLC exit code {rc}\n{out[-2000:]}"
    if res.violated:
        i = out.find("Error:")
        j = out.find("states generated", i)
        res.trace_text = out[i:j] if j > i else out[i:]
    if coverage:
        for m in _RE_COV.finditer(out):
            name = m.group(1)
            d, g = int(m.group(4)), int(m.group(5))
            od, og = res.coverage.get(name, (0, 0))
            res.coverage[name] = (od + d, og + g)
    return res


def require_ok(res: TLCResult, what: str):
    if res.error:
        raise TLCFailure(f"{what}: TLC error\n{res.error}")


def printed_values(out: str, tag: str):
    """Extract values printed by PrintT(<<"tag", ...>>): returns list of raw texts
    (bracket matched, robust to interleaving of other lines)."""
    res = []
    key = re.compile(r'<<\s*"' + re.escape(tag) + '"')
    i = 0
    n = len(out)
    while True:
        m = key.search(out, i)
        if not m:
            return res
        i = m.start()
        depth = 0
        j = i
        instr = False
        while j < n:
            c = out[j]
            if instr:
                if c == "\\":
                    j += 1
                elif c == '"':
                    instr = False
            elif c == '"':
                instr = True
            elif out.startswith("<<", j):
                depth += 1
                j += 1
            elif out.startswith(">>", j):
                depth -= 1
                j += 1
                if depth == 0:
                    break
            j += 1
        res.append(out[i : j + 1])
        i = j + 1
