"""Parse TLC's `-dump dot,actionlabels` state graph and derive transition-covering paths."""

from __future__ import annotations

import re
from collections import deque

from .tlaval import parse_state, parse_value

_NODE = re.compile(r'^(-?\d+) \[label="((?:[^"\\]|\\.)*)"')
_EDGE = re.compile(r'^(-?\d+) -> (-?\d+) \[label="((?:[^"\\]|\\.)*)"')


def _unescape(s: str) -> str:
    out = []
    i = 0
    n = len(s)
    while i < n:
        c = s[i]
        if c == "\\" and i + 1 < n:
            d = s[i + 1]
            if d == "n":
                out.append("\n")
            elif d == "\\":
                out.append("\\")
            elif d == '"':
                out.append('"')
            else:
                out.append(c + d)
            i += 2
        else:
            out.append(c)
            i += 1
    return "".join(out)


class Graph:
    def __init__(self):
        self.state_text: dict[str, str] = {}
        self.inits: list[str] = []
        self.edges: list[tuple[str, str, str]] = []  # (src, label, dst)
        self._parsed: dict[str, dict] = {}

    def state(self, nid: str) -> dict:
        st = self._parsed.get(nid)
        if st is None:
            st = parse_state(self.state_text[nid])
            self._parsed[nid] = st
        return st


def parse_label(label: str):
    """'Add(1, <<2,3>>)' -> ('Add', [1, (2,3)]) ; 'Next' -> ('Next', [])."""
    i = label.find("(")
    if i < 0:
        return label.strip(), []
    name = label[:i].strip()
    inner = label[i + 1 : label.rindex(")")]
    if not inner.strip():
        return name, []
    v = parse_value("<<" + inner + ">>")
    return name, list(v)


def load(path: str) -> Graph:
    g = Graph()
    with open(path) as f:
        for line in f:
            m = _EDGE.match(line)
            if m:
                g.edges.append((m.group(1), _unescape(m.group(3)), m.group(2)))
                continue
            m = _NODE.match(line)
            if m:
                nid = m.group(1)
                if nid not in g.state_text:
                    g.state_text[nid] = _unescape(m.group(2))
                if "style = filled" in line:
                    g.inits.append(nid)
    return g


def covering_paths(g: Graph, max_len: int | None = None, limit: int | None = None, rng=None):
    """Return a list of paths [(init_node, [(label, dst_node), ...])] such that every edge of
    the graph appears in at least one path (or `limit` paths chosen with rng)."""
    out_edges: dict[str, list[int]] = {}
    for k, (s, _l, _d) in enumerate(g.edges):
        out_edges.setdefault(s, []).append(k)
    # BFS tree
    parent: dict[str, tuple[str, int] | None] = {}
    dq = deque()
    for i in g.inits:
        if i not in parent:
            parent[i] = None
            dq.append(i)
    while dq:
        u = dq.popleft()
        for k in out_edges.get(u, ()):
            d = g.edges[k][2]
            if d not in parent:
                parent[d] = (u, k)
                dq.append(d)

    def tree_path(n):
        ks = []
        while parent[n] is not None:
            p, k = parent[n]
            ks.append(k)
            n = p
        ks.reverse()
        return n, ks

    order = list(range(len(g.edges)))
    if rng is not None:
        rng.shuffle(order)
    covered = set()
    paths = []
    ptr: dict[str, int] = {}
    for k in order:
        if k in covered:
            continue
        src = g.edges[k][0]
        if src not in parent:
            continue
        root, ks = tree_path(src)
        ks.append(k)
        covered.update(ks)
        # extend greedily along uncovered edges
        cur = g.edges[k][2]
        while max_len is None or len(ks) < max_len:
            oe = out_edges.get(cur)
            if not oe:
                break
            i = ptr.get(cur, 0)
            while i < len(oe) and oe[i] in covered:
                i += 1
            ptr[cur] = i
            if i >= len(oe):
                break
            nxt = oe[i]
            ks.append(nxt)
            covered.add(nxt)
            cur = g.edges[nxt][2]
        paths.append((root, [(g.edges[x][1], g.edges[x][2]) for x in ks]))
        if limit is not None and len(paths) >= limit:
            break
    return paths, len(covered)
